// rt-extract: rustc_private driver that dumps resolved MIR facts of the workspace crates as JSON.
// Used as RUSTC_WORKSPACE_WRAPPER: argv[1] is the real rustc path, the rest are rustc's arguments.
// One process writes exactly one file: $RT_FACTS_DIR/<crate>-<crate_type>-<pid>.json
#![feature(rustc_private)]
#![allow(clippy::all)]

extern crate rustc_abi;
extern crate rustc_driver;
extern crate rustc_hir;
extern crate rustc_interface;
extern crate rustc_middle;
extern crate rustc_session;
extern crate rustc_span;

mod json;

use json::J;
use rustc_driver::Compilation;
use rustc_hir::def::DefKind;
use rustc_hir::def_id::{DefId, LOCAL_CRATE};
use rustc_middle::mir::interpret::{GlobalAlloc, Scalar};
use rustc_middle::mir::{
    self, AggregateKind, BasicBlockData, Body, Const, ConstValue, Operand, Place, PlaceElem,
    Rvalue, StatementKind, TerminatorKind, UnwindAction,
};
use rustc_middle::ty::print::PrintTraitRefExt;
use rustc_middle::ty::{self, Instance, Ty, TyCtxt, TypingEnv};
use rustc_span::{ExpnKind, Span};

pub const EXTRACTOR_VERSION: u32 = 7;

struct Cb;

impl rustc_driver::Callbacks for Cb {
    fn after_analysis<'tcx>(
        &mut self,
        _c: &rustc_interface::interface::Compiler,
        tcx: TyCtxt<'tcx>,
    ) -> Compilation {
        let dir = match std::env::var("RT_FACTS_DIR") {
            Ok(d) => d,
            Err(_) => return Compilation::Continue,
        };
        let j = rustc_middle::ty::print::with_resolve_crate_name!(
            rustc_middle::ty::print::with_no_trimmed_paths!(
                rustc_middle::ty::print::with_no_visible_paths!(extract(tcx))
            )
        );
        let cname = tcx.crate_name(LOCAL_CRATE).to_string();
        let ctype = format!("{:?}", tcx.crate_types().first()).to_lowercase();
        let ctype = if ctype.contains("executable") { "bin" } else { "lib" };
        let path = format!("{}/{}-{}-{}.json", dir, cname, ctype, std::process::id());
        let mut s = String::with_capacity(1 << 22);
        j.write(&mut s);
        std::fs::write(&path, s).expect("write facts");
        Compilation::Continue
    }
}

fn main() {
    let mut args: Vec<String> = std::env::args().collect();
    // RUSTC_WORKSPACE_WRAPPER passes the rustc path as argv[1]
    if args.len() > 1 && (args[1].ends_with("rustc") || args[1].contains("/rustc")) {
        args.remove(1);
    }
    rustc_driver::run_compiler(&args, &mut Cb);
}

fn dp(tcx: TyCtxt<'_>, did: DefId) -> String {
    tcx.def_path_str(did)
}

fn ty_s(t: Ty<'_>) -> String {
    format!("{}", t)
}

struct Cx<'tcx> {
    tcx: TyCtxt<'tcx>,
}

fn extract<'tcx>(tcx: TyCtxt<'tcx>) -> J {
    let cx = Cx { tcx };
    let mut root = J::obj();
    root.set("crate", J::s(tcx.crate_name(LOCAL_CRATE).as_str()));
    root.set("xv", J::n(EXTRACTOR_VERSION as i128));
    let feats: Vec<J> = tcx
        .sess
        .opts
        .cg
        .target_feature
        .split(',')
        .filter(|s| !s.is_empty())
        .map(|s| J::s(s))
        .collect();
    let _ = feats;
    // cfg features
    let mut cfgs = vec![];
    for (name, val) in tcx.sess.config.iter() {
        if name.as_str() == "feature" {
            if let Some(v) = val {
                cfgs.push(J::s(v.as_str()));
            }
        }
    }
    root.set("features", J::Arr(cfgs));

    // ADTs, items, impls
    let mut adts = J::obj();
    let mut items = J::obj();
    let mut impls = vec![];
    let mut traits = J::obj();
    for id in tcx.hir_crate_items(()).definitions() {
        let did = id.to_def_id();
        match tcx.def_kind(did) {
            DefKind::Struct | DefKind::Enum | DefKind::Union => {
                adts.set(&dp(tcx, did), cx.adt(did));
            }
            DefKind::Const { .. } | DefKind::Static { .. } | DefKind::AssocConst { .. } => {
                if let Some(v) = cx.item(did) {
                    items.set(&dp(tcx, did), v);
                }
            }
            DefKind::Impl { .. } => {
                impls.push(cx.impl_(did));
            }
            DefKind::Trait => {
                let mut t = J::obj();
                let mut ms = vec![];
                for it in tcx.associated_items(did).in_definition_order() {
                    if matches!(it.kind, ty::AssocKind::Fn { .. }) {
                        let mut m = J::obj();
                        m.set("name", J::s(it.name().as_str()));
                        m.set("path", J::s(&dp(tcx, it.def_id)));
                        m.set("has_default", J::b(it.defaultness(tcx).has_value()));
                        ms.push(m);
                    }
                }
                t.set("methods", J::Arr(ms));
                traits.set(&dp(tcx, did), t);
            }
            _ => {}
        }
    }
    root.set("adts", adts);
    root.set("items", items);
    root.set("impls", J::Arr(impls));
    root.set("traits", traits);

    let mut fns = J::obj();
    for ldid in tcx.mir_keys(()) {
        let did = ldid.to_def_id();
        let kind = tcx.def_kind(did);
        if !matches!(kind, DefKind::Fn | DefKind::AssocFn | DefKind::Closure) {
            continue;
        }
        if tcx.is_constructor(did) {
            continue;
        }
        let body = tcx.optimized_mir(did);
        let mut f = cx.body(did, body);
        let mut proms = vec![];
        for pb in tcx.promoted_mir(did).iter() {
            proms.push(cx.body(did, pb));
        }
        f.set("promoted", J::Arr(proms));
        fns.set(&dp(tcx, did), f);
    }
    root.set("fns", fns);
    root
}

fn vis_s(tcx: TyCtxt<'_>, did: DefId) -> String {
    match tcx.visibility(did) {
        ty::Visibility::Public => "pub".to_string(),
        ty::Visibility::Restricted(m) => {
            if m.is_crate_root() {
                "crate".to_string()
            } else {
                format!("in:{}", tcx.def_path_str(m))
            }
        }
    }
}

impl<'tcx> Cx<'tcx> {
    fn adt(&self, did: DefId) -> J {
        let tcx = self.tcx;
        let adt = tcx.adt_def(did);
        let mut o = J::obj();
        o.set(
            "kind",
            J::s(if adt.is_enum() {
                "enum"
            } else if adt.is_union() {
                "union"
            } else {
                "struct"
            }),
        );
        o.set("vis", J::s(&vis_s(tcx, did)));
        let mut vars = vec![];
        for v in adt.variants().iter() {
            let mut vo = J::obj();
            vo.set("name", J::s(v.name.as_str()));
            let mut fs = vec![];
            for f in v.fields.iter() {
                let mut fo = J::obj();
                fo.set("name", J::s(f.name.as_str()));
                let fty = tcx.type_of(f.did).instantiate_identity().skip_norm_wip();
                fo.set("ty", J::s(&ty_s(fty)));
                fo.set("vis", J::s(&vis_s(tcx, f.did)));
                fs.push(fo);
            }
            vo.set("fields", J::Arr(fs));
            vars.push(vo);
        }
        o.set("variants", J::Arr(vars));
        let sp = tcx.def_span(did);
        let (file, line, _) = self.span_loc(sp);
        o.set("file", J::s(&file));
        o.set("line", J::n(line as i128));
        o
    }

    fn item(&self, did: DefId) -> Option<J> {
        let tcx = self.tcx;
        let mut o = J::obj();
        let kind = tcx.def_kind(did);
        o.set("kind", J::s(&format!("{:?}", kind)));
        let ty = tcx.type_of(did).instantiate_identity().skip_norm_wip();
        o.set("ty", J::s(&ty_s(ty)));
        let sp = tcx.def_span(did);
        let (file, line, _) = self.span_loc(sp);
        o.set("file", J::s(&file));
        o.set("line", J::n(line as i128));
        if matches!(kind, DefKind::Static { .. }) {
            o.set("mutable_static", J::b(tcx.is_mutable_static(did)));
            // interior mutability
            let te = TypingEnv::fully_monomorphized();
            o.set("freeze", J::b(ty.is_freeze(tcx, te)));
            return Some(o);
        }
        if tcx.generics_of(did).requires_monomorphization(tcx) {
            return Some(o);
        }
        match tcx.const_eval_poly(did) {
            Ok(cv) => {
                o.set("val", self.const_value(cv, ty));
            }
            Err(_) => {}
        }
        Some(o)
    }

    fn impl_(&self, did: DefId) -> J {
        let tcx = self.tcx;
        let mut o = J::obj();
        let self_ty = tcx.type_of(did).instantiate_identity().skip_norm_wip();
        o.set("self_ty", J::s(&ty_s(self_ty)));
        if let Some(adt) = self_ty.ty_adt_def() {
            o.set("self_adt", J::s(&dp(tcx, adt.did())));
        }
        if tcx.impl_opt_trait_ref(did).is_some() {
            let tr = tcx.impl_trait_ref(did).instantiate_identity().skip_norm_wip();
            o.set("trait", J::s(&dp(tcx, tr.def_id)));
            o.set("trait_ref", J::s(&format!("{}", tr.print_only_trait_path())));
        } else {
            o.set("trait", J::Null);
        }
        o.set("derived", J::b(tcx.is_automatically_derived(did)));
        let mut ms = J::obj();
        for it in tcx.associated_items(did).in_definition_order() {
            if matches!(it.kind, ty::AssocKind::Fn { .. }) {
                ms.set(it.name().as_str(), J::s(&dp(tcx, it.def_id)));
            }
        }
        o.set("methods", ms);
        let sp = tcx.def_span(did);
        let (file, line, _) = self.span_loc(sp);
        o.set("file", J::s(&file));
        o.set("line", J::n(line as i128));
        o
    }

    fn span_loc(&self, sp: Span) -> (String, usize, usize) {
        let sm = self.tcx.sess.source_map();
        let sp = sp.source_callsite();
        let lo = sm.lookup_char_pos(sp.lo());
        let hi = sm.lookup_char_pos(sp.hi());
        let file = format!("{}", lo.file.name.prefer_local_unconditionally());
        (file, lo.line, hi.line)
    }

    fn span_json(&self, o: &mut J, sp: Span) {
        let (_file, line, _) = self.span_loc(sp);
        o.set("line", J::n(line as i128));
        if sp.from_expansion() {
            // outermost macro name in the backtrace
            let mut name = None;
            let mut desugar = None;
            for ed in sp.macro_backtrace() {
                match ed.kind {
                    ExpnKind::Macro(_, n) => name = Some(n.to_string()),
                    ExpnKind::Desugaring(d) => desugar = Some(format!("{:?}", d)),
                    _ => {}
                }
            }
            if let Some(n) = name {
                o.set("mac", J::s(&n));
            } else if let Some(d) = desugar {
                o.set("desugar", J::s(&d));
            }
        }
    }

    fn body(&self, did: DefId, body: &Body<'tcx>) -> J {
        let tcx = self.tcx;
        let mut f = J::obj();
        let (file, lo, hi) = self.span_loc(body.span);
        f.set("file", J::s(&file));
        f.set("line", J::n(lo as i128));
        f.set("line_hi", J::n(hi as i128));
        let kind = tcx.def_kind(did);
        f.set(
            "kind",
            J::s(match kind {
                DefKind::Fn => "fn",
                DefKind::AssocFn => "method",
                DefKind::Closure => "closure",
                _ => "other",
            }),
        );
        if matches!(kind, DefKind::Fn | DefKind::AssocFn) {
            f.set("vis", J::s(&vis_s(tcx, did)));
        }
        if matches!(kind, DefKind::Closure) {
            f.set("parent", J::s(&dp(tcx, tcx.typeck_root_def_id(did))));
        }
        if let Some(impl_did) = tcx.impl_of_assoc(did) {
            let self_ty = tcx.type_of(impl_did).instantiate_identity().skip_norm_wip();
            f.set("impl_self", J::s(&ty_s(self_ty)));
            if tcx.impl_opt_trait_ref(impl_did).is_some() {
                let tr = tcx.impl_trait_ref(impl_did).instantiate_identity().skip_norm_wip();
                f.set("impl_trait", J::s(&dp(tcx, tr.def_id)));
            }
            f.set("derived", J::b(tcx.is_automatically_derived(impl_did)));
        }
        if let Some(tr) = tcx.trait_of_assoc(did) {
            f.set("trait_default_of", J::s(&dp(tcx, tr)));
        }
        f.set("nargs", J::n(body.arg_count as i128));
        let mut names: Vec<Option<String>> = vec![None; body.local_decls.len()];
        for vdi in body.var_debug_info.iter() {
            if let mir::VarDebugInfoContents::Place(p) = vdi.value {
                if p.projection.is_empty() {
                    names[p.local.as_usize()] = Some(vdi.name.to_string());
                }
            }
        }
        let mut locals = vec![];
        for (i, ld) in body.local_decls.iter().enumerate() {
            let mut l = J::obj();
            l.set("ty", J::s(&ty_s(ld.ty)));
            if let Some(n) = &names[i] {
                l.set("name", J::s(n));
            }
            if ld.mutability.is_mut() {
                l.set("mut", J::b(true));
            }
            locals.push(l);
        }
        f.set("locals", J::Arr(locals));
        // closure upvar names
        if matches!(kind, DefKind::Closure) {
            let mut ups = vec![];
            for vdi in body.var_debug_info.iter() {
                if let mir::VarDebugInfoContents::Place(p) = vdi.value {
                    if p.local.as_usize() == 1 && !p.projection.is_empty() {
                        let mut u = J::obj();
                        u.set("name", J::s(vdi.name.as_str()));
                        u.set("place", self.place(body, &p));
                        ups.push(u);
                    }
                }
            }
            f.set("upvars", J::Arr(ups));
        }
        let te = TypingEnv::post_analysis(tcx, did);
        let mut blocks = vec![];
        for bb in body.basic_blocks.iter() {
            blocks.push(self.block(did, body, te, bb));
        }
        f.set("blocks", J::Arr(blocks));
        f
    }

    fn block(&self, did: DefId, body: &Body<'tcx>, te: TypingEnv<'tcx>, bb: &BasicBlockData<'tcx>) -> J {
        let mut b = J::obj();
        if bb.is_cleanup {
            b.set("cleanup", J::b(true));
        }
        let mut stmts = vec![];
        for st in bb.statements.iter() {
            match &st.kind {
                StatementKind::Assign(bx) => {
                    let (pl, rv) = &**bx;
                    let mut s = J::obj();
                    s.set("k", J::s("assign"));
                    s.set("dst", self.place(body, pl));
                    s.set("rv", self.rvalue(did, body, te, rv));
                    self.span_json(&mut s, st.source_info.span);
                    stmts.push(s);
                }
                StatementKind::SetDiscriminant { place, variant_index } => {
                    let mut s = J::obj();
                    s.set("k", J::s("setdiscr"));
                    s.set("dst", self.place(body, place));
                    s.set("variant", J::n(variant_index.as_usize() as i128));
                    self.span_json(&mut s, st.source_info.span);
                    stmts.push(s);
                }
                StatementKind::Intrinsic(_) => {
                    let mut s = J::obj();
                    s.set("k", J::s("intrinsic"));
                    s.set("text", J::s(&format!("{:?}", st.kind)));
                    stmts.push(s);
                }
                _ => {}
            }
        }
        b.set("stmts", J::Arr(stmts));
        let term = bb.terminator();
        b.set("term", self.terminator(did, body, te, term));
        b
    }

    fn unwind(&self, u: &UnwindAction) -> J {
        match u {
            UnwindAction::Continue => J::s("continue"),
            UnwindAction::Unreachable => J::s("unreachable"),
            UnwindAction::Terminate(_) => J::s("terminate"),
            UnwindAction::Cleanup(bb) => J::n(bb.as_usize() as i128),
        }
    }

    fn terminator(&self, did: DefId, body: &Body<'tcx>, te: TypingEnv<'tcx>, term: &mir::Terminator<'tcx>) -> J {
        let tcx = self.tcx;
        let mut t = J::obj();
        self.span_json(&mut t, term.source_info.span);
        match &term.kind {
            TerminatorKind::Goto { target } => {
                t.set("k", J::s("goto"));
                t.set("tgt", J::n(target.as_usize() as i128));
            }
            TerminatorKind::SwitchInt { discr, targets } => {
                t.set("k", J::s("switch"));
                t.set("op", self.operand(did, body, te, discr));
                let dty = discr.ty(body, tcx);
                t.set("ty", J::s(&ty_s(dty)));
                let mut cases = vec![];
                for (v, bb) in targets.iter() {
                    cases.push(J::Arr(vec![J::n(v as i128), J::n(bb.as_usize() as i128)]));
                }
                t.set("cases", J::Arr(cases));
                t.set("otherwise", J::n(targets.otherwise().as_usize() as i128));
            }
            TerminatorKind::UnwindResume => {
                t.set("k", J::s("resume"));
            }
            TerminatorKind::UnwindTerminate(_) => {
                t.set("k", J::s("terminate"));
            }
            TerminatorKind::Return => {
                t.set("k", J::s("return"));
            }
            TerminatorKind::Unreachable => {
                t.set("k", J::s("unreachable"));
            }
            TerminatorKind::Drop { place, target, unwind, .. } => {
                t.set("k", J::s("drop"));
                t.set("place", self.place(body, place));
                t.set("tgt", J::n(target.as_usize() as i128));
                t.set("unw", self.unwind(unwind));
            }
            TerminatorKind::Call { func, args, destination, target, unwind, fn_span, .. } => {
                t.set("k", J::s("call"));
                t.set("fn", self.callee(did, body, te, func));
                let mut a = vec![];
                let mut atys = vec![];
                let mut closures = vec![];
                for arg in args.iter() {
                    a.push(self.operand(did, body, te, &arg.node));
                    let aty = arg.node.ty(body, tcx);
                    atys.push(J::s(&ty_s(aty)));
                    self.collect_closures(aty, &mut closures, 0);
                }
                t.set("args", J::Arr(a));
                t.set("arg_tys", J::Arr(atys));
                if !closures.is_empty() {
                    t.set("closures", J::Arr(closures));
                }
                t.set("dst", self.place(body, destination));
                match target {
                    Some(bb) => t.set("tgt", J::n(bb.as_usize() as i128)),
                    None => t.set("tgt", J::Null),
                }
                t.set("unw", self.unwind(unwind));
                let mut o2 = J::obj();
                self.span_json(&mut o2, *fn_span);
                let _ = o2;
            }
            TerminatorKind::TailCall { func, args, .. } => {
                t.set("k", J::s("tailcall"));
                t.set("fn", self.callee(did, body, te, func));
                let mut a = vec![];
                for arg in args.iter() {
                    a.push(self.operand(did, body, te, &arg.node));
                }
                t.set("args", J::Arr(a));
            }
            TerminatorKind::Assert { cond, expected, msg, target, unwind } => {
                t.set("k", J::s("assert"));
                t.set("cond", self.operand(did, body, te, cond));
                t.set("expected", J::b(*expected));
                t.set("tgt", J::n(target.as_usize() as i128));
                t.set("unw", self.unwind(unwind));
                use mir::AssertKind::*;
                let (kind, ops): (String, Vec<&Operand<'tcx>>) = match &**msg {
                    BoundsCheck { len, index } => ("bounds".into(), vec![len, index]),
                    Overflow(op, a, b) => (format!("overflow:{:?}", op), vec![a, b]),
                    OverflowNeg(a) => ("overflow_neg".into(), vec![a]),
                    DivisionByZero(a) => ("div_zero".into(), vec![a]),
                    RemainderByZero(a) => ("rem_zero".into(), vec![a]),
                    other => (format!("other:{:?}", other), vec![]),
                };
                t.set("akind", J::s(&kind));
                t.set(
                    "aops",
                    J::Arr(ops.into_iter().map(|o| self.operand(did, body, te, o)).collect()),
                );
            }
            TerminatorKind::InlineAsm { .. } => {
                t.set("k", J::s("asm"));
            }
            other => {
                t.set("k", J::s("other"));
                t.set("text", J::s(&format!("{:?}", other)));
            }
        }
        t
    }

    fn collect_closures(&self, t: Ty<'tcx>, out: &mut Vec<J>, depth: usize) {
        if depth > 3 {
            return;
        }
        match t.kind() {
            ty::Closure(cdid, _) => out.push(J::s(&dp(self.tcx, *cdid))),
            ty::Ref(_, inner, _) => self.collect_closures(*inner, out, depth + 1),
            ty::FnDef(fdid, _) => {
                // function items passed as values (e.g. PathBuf::from to map)
                out.push(J::s(&format!("fn:{}", dp(self.tcx, *fdid))));
            }
            _ => {}
        }
    }

    fn callee(&self, did: DefId, body: &Body<'tcx>, te: TypingEnv<'tcx>, func: &Operand<'tcx>) -> J {
        let tcx = self.tcx;
        let mut o = J::obj();
        let fty = func.ty(body, tcx);
        match fty.kind() {
            ty::FnDef(cdid, gargs) => {
                o.set("orig", J::s(&dp(tcx, *cdid)));
                let mut ss = vec![];
                for ga in gargs.iter() {
                    if let Some(t) = ga.as_type() {
                        ss.push(J::s(&ty_s(t)));
                    } else if let Some(c) = ga.as_const() {
                        ss.push(J::s(&format!("{}", c)));
                    }
                }
                o.set("substs", J::Arr(ss));
                if let Some(tr) = tcx.trait_of_assoc(*cdid) {
                    o.set("trait", J::s(&dp(tcx, tr)));
                    o.set("trait_method", J::s(tcx.item_name(*cdid).as_str()));
                }
                let resolved = Instance::try_resolve(tcx, te, *cdid, gargs).ok().flatten();
                match resolved {
                    Some(inst) => {
                        let rd = inst.def_id();
                        o.set("path", J::s(&dp(tcx, rd)));
                        o.set("local", J::b(rd.is_local()));
                        let ik = format!("{:?}", inst.def);
                        let ikind = ik.split('(').next().unwrap_or("").to_string();
                        o.set("inst", J::s(&ikind));
                        if let ty::InstanceKind::Virtual(..) = inst.def {
                            o.set("virtual", J::b(true));
                        }
                        if tcx.def_kind(rd) == DefKind::Closure {
                            o.set("closure", J::b(true));
                        }
                    }
                    None => {
                        o.set("path", J::s(&dp(tcx, *cdid)));
                        o.set("local", J::b(cdid.is_local()));
                        o.set("unresolved", J::b(true));
                    }
                }
                // self type for methods
                if let Some(first) = gargs.iter().next() {
                    if let Some(t) = first.as_type() {
                        o.set("self_ty", J::s(&ty_s(t)));
                    }
                }
            }
            _ => {
                o.set("indirect", J::b(true));
                o.set("ty", J::s(&ty_s(fty)));
                o.set("op", self.operand(did, body, te, func));
            }
        }
        o
    }

    fn place(&self, body: &Body<'tcx>, p: &Place<'tcx>) -> J {
        let tcx = self.tcx;
        let mut o = J::obj();
        o.set("l", J::n(p.local.as_usize() as i128));
        if p.projection.is_empty() {
            return o;
        }
        let mut proj = vec![];
        let mut pty = mir::PlaceTy::from_ty(body.local_decls[p.local].ty);
        for elem in p.projection.iter() {
            match elem {
                PlaceElem::Deref => proj.push(J::s("deref")),
                PlaceElem::Field(fidx, fty) => {
                    let mut e = J::obj();
                    e.set("f", J::n(fidx.as_usize() as i128));
                    // field name
                    let name = match pty.ty.kind() {
                        ty::Adt(adt, _) => {
                            let vidx = pty.variant_index.unwrap_or(rustc_abi::FIRST_VARIANT);
                            if adt.is_enum() && pty.variant_index.is_none() {
                                None
                            } else {
                                adt.variant(vidx).fields.get(fidx).map(|f| f.name.to_string())
                            }
                        }
                        _ => None,
                    };
                    if let Some(n) = name {
                        e.set("name", J::s(&n));
                    }
                    if let ty::Adt(adt, _) = pty.ty.kind() {
                        e.set("adt", J::s(&dp(tcx, adt.did())));
                    }
                    e.set("ty", J::s(&ty_s(fty)));
                    proj.push(e);
                }
                PlaceElem::Index(l) => {
                    let mut e = J::obj();
                    e.set("idx", J::n(l.as_usize() as i128));
                    proj.push(e);
                }
                PlaceElem::ConstantIndex { offset, min_length, from_end } => {
                    let mut e = J::obj();
                    e.set("cidx", J::n(offset as i128));
                    e.set("min", J::n(min_length as i128));
                    e.set("end", J::b(from_end));
                    proj.push(e);
                }
                PlaceElem::Subslice { from, to, from_end } => {
                    let mut e = J::obj();
                    e.set("sub", J::Arr(vec![J::n(from as i128), J::n(to as i128)]));
                    e.set("end", J::b(from_end));
                    proj.push(e);
                }
                PlaceElem::Downcast(name, vidx) => {
                    let mut e = J::obj();
                    e.set("dc", J::n(vidx.as_usize() as i128));
                    if let Some(n) = name {
                        e.set("name", J::s(n.as_str()));
                    }
                    proj.push(e);
                }
                other => {
                    let mut e = J::obj();
                    e.set("other", J::s(&format!("{:?}", other)));
                    proj.push(e);
                }
            }
            pty = pty.projection_ty(tcx, elem);
        }
        o.set("p", J::Arr(proj));
        o.set("ty", J::s(&ty_s(pty.ty)));
        o
    }

    fn operand(&self, did: DefId, body: &Body<'tcx>, te: TypingEnv<'tcx>, op: &Operand<'tcx>) -> J {
        let mut o = J::obj();
        match op {
            Operand::Copy(p) => o.set("cp", self.place(body, p)),
            Operand::Move(p) => o.set("mv", self.place(body, p)),
            Operand::Constant(c) => o.set("c", self.constant(did, te, &c.const_, c.span)),
            #[allow(unreachable_patterns)]
            other => o.set("other", J::s(&format!("{:?}", other))),
        }
        o
    }

    fn constant(&self, _did: DefId, te: TypingEnv<'tcx>, c: &Const<'tcx>, span: Span) -> J {
        let tcx = self.tcx;
        let ty = c.ty();
        if let ty::FnDef(fdid, gargs) = ty.kind() {
            let mut o = J::obj();
            o.set("ty", J::s(&ty_s(ty)));
            o.set("fn", J::s(&dp(tcx, *fdid)));
            let _ = gargs;
            return o;
        }
        match c.eval(tcx, te, span) {
            Ok(cv) => {
                let mut o = self.const_value(cv, ty);
                if let Const::Unevaluated(uv, _) = c {
                    if uv.promoted.is_none() {
                        o.set("item", J::s(&dp(tcx, uv.def)));
                    }
                }
                o
            }
            Err(_) => {
                let mut o = J::obj();
                o.set("ty", J::s(&ty_s(ty)));
                o.set("opaque", J::s(&format!("{}", c)));
                o
            }
        }
    }

    fn alloc_bytes(&self, alloc_id: mir::interpret::AllocId) -> Option<(Vec<u8>, Vec<(u64, mir::interpret::AllocId)>)> {
        match self.tcx.try_get_global_alloc(alloc_id)? {
            GlobalAlloc::Memory(a) => {
                let a = a.inner();
                let bytes = a.inspect_with_uninit_and_ptr_outside_interpreter(0..a.len()).to_vec();
                let mut ptrs = vec![];
                for (off, prov) in a.provenance().ptrs().iter() {
                    ptrs.push((off.bytes(), prov.alloc_id()));
                }
                Some((bytes, ptrs))
            }
            _ => None,
        }
    }

    fn le(bytes: &[u8]) -> u128 {
        let mut v: u128 = 0;
        for (i, b) in bytes.iter().enumerate().take(16) {
            v |= (*b as u128) << (8 * i);
        }
        v
    }

    fn size_of(&self, t: Ty<'tcx>) -> Option<u64> {
        let te = TypingEnv::fully_monomorphized();
        self.tcx.layout_of(te.as_query_input(t)).ok().map(|l| l.size.bytes())
    }

    // Read a value of type `ty` at `off` in allocation `alloc_id`, following pointers (depth-limited).
    fn read_typed(&self, alloc_id: mir::interpret::AllocId, off: u64, ty: Ty<'tcx>, depth: usize) -> J {
        let tcx = self.tcx;
        let mut o = J::obj();
        o.set("ty", J::s(&ty_s(ty)));
        if depth > 6 {
            o.set("opaque", J::s("depth"));
            return o;
        }
        let (bytes, ptrs) = match self.alloc_bytes(alloc_id) {
            Some(x) => x,
            None => {
                match tcx.try_get_global_alloc(alloc_id) {
                    Some(GlobalAlloc::Static(sdid)) => o.set("static", J::s(&dp(tcx, sdid))),
                    Some(GlobalAlloc::Function { instance }) => o.set("fnptr", J::s(&dp(tcx, instance.def_id()))),
                    _ => o.set("opaque", J::s("alloc")),
                }
                return o;
            }
        };
        let size = match self.size_of(ty) {
            Some(s) => s,
            None => {
                o.set("opaque", J::s("unsized"));
                return o;
            }
        };
        if off + size > bytes.len() as u64 {
            o.set("opaque", J::s("oob"));
            return o;
        }
        let b = &bytes[off as usize..(off + size) as usize];
        match ty.kind() {
            // pattern types (`u32 is 0..=999_999_999`, used by core::time::Duration's nanoseconds): the value is a value of the base type
            ty::Pat(inner, _) => {
                return self.read_typed(alloc_id, off, *inner, depth);
            }
            ty::Uint(_) | ty::Char => {
                let v = Self::le(b);
                if v <= i128::MAX as u128 { o.set("int", J::n(v as i128)); } else { o.set("uint_hex", J::s(&format!("{:x}", v))); }
            }
            ty::Int(_) => {
                let v = Self::le(b);
                let sh = 128 - 8 * size as u32;
                let sv = if size == 0 { 0 } else { ((v as i128) << sh) >> sh };
                o.set("int", J::n(sv));
            }
            ty::Bool => {
                o.set("int", J::n(b[0] as i128));
                o.set("bool", J::b(b[0] != 0));
            }
            ty::Ref(_, inner, _) | ty::RawPtr(inner, _) => {
                let target = ptrs.iter().find(|(po, _)| *po == off).map(|(_, a)| *a);
                let addend = Self::le(&b[..8.min(b.len())]) as u64;
                match target {
                    None => o.set("opaque", J::s("ptr-without-provenance")),
                    Some(taid) => match inner.kind() {
                        ty::Str | ty::Slice(_) => {
                            let len = Self::le(&b[8..16]) as u64;
                            self.read_slice(&mut o, taid, addend, len, *inner, depth);
                        }
                        _ => {
                            let v = self.read_typed(taid, addend, *inner, depth + 1);
                            o.set("ref", v);
                        }
                    },
                }
            }
            ty::Array(e, n) => {
                let n = n.try_to_target_usize(tcx).unwrap_or(0);
                if matches!(e.kind(), ty::Uint(ty::UintTy::U8)) {
                    o.set("bytes", J::Arr(b.iter().map(|x| J::n(*x as i128)).collect()));
                } else {
                    let es = self.size_of(*e).unwrap_or(0);
                    let mut items = vec![];
                    for i in 0..n.min(4096) {
                        items.push(self.read_typed(alloc_id, off + i * es, *e, depth + 1));
                    }
                    o.set("elems", J::Arr(items));
                }
            }
            ty::Adt(adt, gargs) if adt.is_enum() => {
                let fieldless = adt.variants().iter().all(|v| v.fields.is_empty());
                // Option<&T> / Option<&[T]>: niche-optimised, laid out like the reference itself (null = None)
                let opt_ref = tcx.is_diagnostic_item(rustc_span::sym::Option, adt.did())
                    && gargs.len() == 1
                    && gargs.type_at(0).is_ref()
                    && self.size_of(gargs.type_at(0)) == Some(size);
                if opt_ref {
                    let has_ptr = ptrs.iter().any(|(po, _)| *po == off);
                    if has_ptr {
                        let inner = self.read_typed(alloc_id, off, gargs.type_at(0), depth + 1);
                        o.set("option", J::s("Some"));
                        o.set("payload", inner);
                    } else if b.iter().take(8).all(|x| *x == 0) {
                        o.set("option", J::s("None"));
                    } else {
                        o.set("opaque", J::s("enum-with-data"));
                    }
                } else if fieldless {
                    self.enum_by_discr(&mut o, *adt, Self::le(b));
                } else {
                    o.set("bytes", J::Arr(b.iter().map(|x| J::n(*x as i128)).collect()));
                    o.set("opaque", J::s("enum-with-data"));
                }
                let _ = gargs;
            }
            ty::Adt(adt, gargs) if adt.is_struct() => {
                let te = TypingEnv::fully_monomorphized();
                if let Ok(layout) = tcx.layout_of(te.as_query_input(ty)) {
                    let mut fs = J::obj();
                    for (i, f) in adt.non_enum_variant().fields.iter().enumerate() {
                        let fty = f.ty(tcx, gargs);
                        let foff = layout.fields.offset(i).bytes();
                        fs.set(f.name.as_str(), self.read_typed(alloc_id, off + foff, fty, depth + 1));
                    }
                    o.set("adt", J::s(&dp(tcx, adt.did())));
                    o.set("fields", fs);
                } else {
                    o.set("bytes", J::Arr(b.iter().map(|x| J::n(*x as i128)).collect()));
                }
            }
            ty::Tuple(ts) => {
                let te = TypingEnv::fully_monomorphized();
                if let Ok(layout) = tcx.layout_of(te.as_query_input(ty)) {
                    let mut items = vec![];
                    for (i, t) in ts.iter().enumerate() {
                        let foff = layout.fields.offset(i).bytes();
                        items.push(self.read_typed(alloc_id, off + foff, t, depth + 1));
                    }
                    o.set("elems", J::Arr(items));
                }
            }
            _ => {
                let lim = b.len().min(4096);
                o.set("bytes", J::Arr(b[..lim].iter().map(|x| J::n(*x as i128)).collect()));
                o.set("raw", J::b(true));
            }
        }
        o
    }

    fn read_slice(&self, o: &mut J, alloc_id: mir::interpret::AllocId, off: u64, len: u64, unsized_ty: Ty<'tcx>, depth: usize) {
        let (bytes, _) = match self.alloc_bytes(alloc_id) {
            Some(x) => x,
            None => {
                o.set("opaque", J::s("slice-alloc"));
                return;
            }
        };
        match unsized_ty.kind() {
            ty::Str => {
                if off + len <= bytes.len() as u64 {
                    o.set("str", J::s(&String::from_utf8_lossy(&bytes[off as usize..(off + len) as usize])));
                }
            }
            ty::Slice(e) => {
                o.set("count", J::n(len as i128));
                o.set("elem_ty", J::s(&ty_s(*e)));
                if matches!(e.kind(), ty::Uint(ty::UintTy::U8)) {
                    if off + len <= bytes.len() as u64 {
                        o.set("bytes", J::Arr(bytes[off as usize..(off + len) as usize].iter().map(|x| J::n(*x as i128)).collect()));
                    }
                } else {
                    let es = self.size_of(*e).unwrap_or(0);
                    let mut items = vec![];
                    for i in 0..len.min(4096) {
                        items.push(self.read_typed(alloc_id, off + i * es, *e, depth + 1));
                    }
                    o.set("elems", J::Arr(items));
                }
            }
            _ => o.set("opaque", J::s("slice-kind")),
        }
    }

    fn const_value(&self, cv: ConstValue, ty: Ty<'tcx>) -> J {
        let tcx = self.tcx;
        let mut o = J::obj();
        o.set("ty", J::s(&ty_s(ty)));
        match cv {
            ConstValue::ZeroSized => {
                o.set("zst", J::b(true));
            }
            ConstValue::Scalar(Scalar::Int(si)) => {
                let size = si.size();
                let bits = si.to_bits(size);
                match ty.kind() {
                    ty::Int(_) => {
                        let sh = 128 - size.bits() as u32;
                        let v = ((bits as i128) << sh) >> sh;
                        o.set("int", J::n(v));
                    }
                    ty::Bool => {
                        o.set("int", J::n(bits as i128));
                        o.set("bool", J::b(bits != 0));
                    }
                    ty::Adt(adt, _) if adt.is_enum() => {
                        o.set("int", J::n(bits as i128));
                        self.enum_by_discr(&mut o, *adt, bits);
                    }
                    _ => {
                        if bits <= i128::MAX as u128 {
                            o.set("int", J::n(bits as i128));
                        } else {
                            o.set("uint_hex", J::s(&format!("{:x}", bits)));
                        }
                    }
                }
            }
            ConstValue::Scalar(Scalar::Ptr(p, _)) => {
                let (prov, off) = p.into_raw_parts();
                let aid = prov.alloc_id();
                let pointee = match ty.kind() {
                    ty::Ref(_, t, _) => Some(*t),
                    ty::RawPtr(t, _) => Some(*t),
                    _ => None,
                };
                match pointee {
                    Some(t) => {
                        let v = self.read_typed(aid, off.bytes(), t, 0);
                        o.set("ref", v);
                    }
                    None => o.set("opaque", J::s("ptr")),
                }
            }
            ConstValue::Slice { alloc_id, meta } => {
                if let ty::Ref(_, t, _) = ty.kind() {
                    self.read_slice(&mut o, alloc_id, 0, meta, *t, 0);
                } else {
                    o.set("opaque", J::s("slice"));
                }
            }
            ConstValue::Indirect { alloc_id, offset } => {
                let v = self.read_typed(alloc_id, offset.bytes(), ty, 0);
                return v;
            }
        }
        o
    }

    fn enum_by_discr(&self, o: &mut J, adt: ty::AdtDef<'tcx>, bits: u128) {
        let tcx = self.tcx;
        for (vidx, d) in adt.discriminants(tcx) {
            if d.val == bits {
                let v = adt.variant(vidx);
                o.set(
                    "enum",
                    J::Arr(vec![
                        J::s(&dp(tcx, adt.did())),
                        J::n(vidx.as_usize() as i128),
                        J::s(v.name.as_str()),
                    ]),
                );
                return;
            }
        }
    }

    fn rvalue(&self, did: DefId, body: &Body<'tcx>, te: TypingEnv<'tcx>, rv: &Rvalue<'tcx>) -> J {
        let tcx = self.tcx;
        let mut o = J::obj();
        match rv {
            Rvalue::Use(op, _) => {
                o.set("k", J::s("use"));
                o.set("op", self.operand(did, body, te, op));
            }
            Rvalue::Repeat(op, n) => {
                o.set("k", J::s("repeat"));
                o.set("op", self.operand(did, body, te, op));
                o.set("count", J::s(&format!("{}", n)));
                if let Some(v) = n.try_to_target_usize(tcx) {
                    o.set("n", J::n(v as i128));
                }
            }
            Rvalue::Ref(_, bk, p) => {
                o.set("k", J::s("ref"));
                o.set("mut", J::b(matches!(bk, mir::BorrowKind::Mut { .. })));
                o.set("place", self.place(body, p));
            }
            Rvalue::RawPtr(_, p) => {
                o.set("k", J::s("rawptr"));
                o.set("place", self.place(body, p));
            }
            Rvalue::Cast(ck, op, t) => {
                o.set("k", J::s("cast"));
                o.set("ck", J::s(&format!("{:?}", ck)));
                o.set("op", self.operand(did, body, te, op));
                o.set("from", J::s(&ty_s(op.ty(body, tcx))));
                o.set("to", J::s(&ty_s(*t)));
                // closure identity for coercions
                let mut cl = vec![];
                self.collect_closures(op.ty(body, tcx), &mut cl, 0);
                if !cl.is_empty() {
                    o.set("closures", J::Arr(cl));
                }
            }
            Rvalue::BinaryOp(bop, bx) => {
                let (a, b) = &**bx;
                o.set("k", J::s("binop"));
                o.set("op", J::s(&format!("{:?}", bop)));
                o.set("a", self.operand(did, body, te, a));
                o.set("b", self.operand(did, body, te, b));
                o.set("ty", J::s(&ty_s(a.ty(body, tcx))));
            }
            Rvalue::UnaryOp(uop, a) => {
                o.set("k", J::s("unop"));
                o.set("op", J::s(&format!("{:?}", uop)));
                o.set("a", self.operand(did, body, te, a));
            }
            Rvalue::Discriminant(p) => {
                o.set("k", J::s("discr"));
                o.set("place", self.place(body, p));
                let pty = p.ty(body, tcx).ty;
                o.set("of_ty", J::s(&ty_s(pty)));
                if let ty::Adt(adt, _) = pty.kind() {
                    o.set("adt", J::s(&dp(tcx, adt.did())));
                    if adt.is_enum() {
                        let mut vs = vec![];
                        for (vidx, d) in adt.discriminants(tcx) {
                            vs.push(J::Arr(vec![
                                J::n(d.val as i128),
                                J::s(adt.variant(vidx).name.as_str()),
                            ]));
                        }
                        o.set("variants", J::Arr(vs));
                    }
                }
            }
            Rvalue::Aggregate(ak, ops) => {
                o.set("k", J::s("agg"));
                match &**ak {
                    AggregateKind::Array(t) => {
                        o.set("ak", J::s("array"));
                        o.set("elem_ty", J::s(&ty_s(*t)));
                    }
                    AggregateKind::Tuple => o.set("ak", J::s("tuple")),
                    AggregateKind::Adt(adid, vidx, _, _, _) => {
                        o.set("ak", J::s("adt"));
                        o.set("adt", J::s(&dp(tcx, *adid)));
                        let adt = tcx.adt_def(*adid);
                        let v = adt.variant(*vidx);
                        o.set("variant", J::n(vidx.as_usize() as i128));
                        o.set("vname", J::s(v.name.as_str()));
                        o.set(
                            "fields",
                            J::Arr(v.fields.iter().map(|f| J::s(f.name.as_str())).collect()),
                        );
                    }
                    AggregateKind::Closure(cdid, _) => {
                        o.set("ak", J::s("closure"));
                        o.set("closure", J::s(&dp(tcx, *cdid)));
                    }
                    other => {
                        o.set("ak", J::s("other"));
                        o.set("text", J::s(&format!("{:?}", other)));
                    }
                }
                o.set(
                    "ops",
                    J::Arr(ops.iter().map(|op| self.operand(did, body, te, op)).collect()),
                );
            }
            Rvalue::CopyForDeref(p) => {
                o.set("k", J::s("use"));
                let mut oo = J::obj();
                oo.set("cp", self.place(body, p));
                o.set("op", oo);
            }
            Rvalue::ThreadLocalRef(d) => {
                o.set("k", J::s("tls"));
                o.set("static", J::s(&dp(tcx, *d)));
            }
            other => {
                o.set("k", J::s("other"));
                o.set("text", J::s(&format!("{:?}", other)));
            }
        }
        o
    }
}
