#!/usr/bin/env python3
"""tools/dbg.py <patch|-> : scratch copy of /repo (+patch), load Program, drop into `code` given on stdin. Variables: P, W(fn), Ev, values, flow."""
import os, sys, subprocess, tempfile, shutil
HERE = os.path.dirname(os.path.abspath(__file__))
sys.path.insert(0, os.path.join(HERE, "..", "sa"))
import facts, mir, values, flow, lib
from framework import Ctx
patch = sys.argv[1]
d = tempfile.mkdtemp(prefix="dbg-")
try:
    subprocess.run(["rsync", "-a", "--exclude", "target", "--exclude", ".git", "/repo/", d + "/"], check=True)
    if patch != "-":
        subprocess.run(["patch", "-p1", "-s", "-i", os.path.abspath(patch)], cwd=d, check=True)
    fx = facts.extract(d, "default")
    P = mir.Program(fx)
    ctx = Ctx("C00", P, d, "quick", "default")
    W = lib.World(ctx)
    Ev = values.Ev
    fmt = values.fmt
    exec(sys.stdin.read())
finally:
    shutil.rmtree(d, ignore_errors=True)
