#!/bin/bash
# usage: tools/refresh_seeds.sh [name ...]  -- re-run all 20 quick checks against every filed seeded change (scratch copy of /repo + patch.diff,
# removed afterwards) and rewrite caught_by / check_output.txt in its meta.json.  Runs seeds in parallel.
DIR="$(cd "$(dirname "$0")/.." && pwd)"
names="$@"; [ -z "$names" ] && names=$(cd "$DIR/seeded" && ls -d */ | tr -d /)
one() {
  NAME="$1"; OUT="$DIR/seeded/$NAME"
  SCR=$(mktemp -d /tmp/seed.XXXXXX); rsync -a --exclude target --exclude .git /repo/ "$SCR/"
  (cd "$SCR" && patch -p1 -s < "$OUT/patch.diff") || { echo "$NAME PATCH-FAILED"; rm -rf "$SCR"; return; }
  CAUGHT=""; : > "$OUT/check_output.txt"
  for i in $(seq -w 1 20); do
    o=$("${CHECK:-$DIR/check}" C$i --repo "$SCR" --no-evidence --no-fixture 2>&1); rc=$?
    if [ $rc -ne 0 ]; then CAUGHT="$CAUGHT C$i"; echo "== C$i (exit $rc)" >> "$OUT/check_output.txt"; echo "$o" | grep -E "rule=|BROKEN" | sed "s#$SCR/##g" | cut -c1-400 >> "$OUT/check_output.txt"; fi
  done
  rm -rf "$SCR"
  python3 - "$OUT" "$CAUGHT" <<'PY'
import json,sys
out,caught=sys.argv[1],sys.argv[2].split()
m=json.load(open(out+'/meta.json')); m["caught_by"]=caught
json.dump(m,open(out+'/meta.json','w'),indent=1)
PY
  echo "$NAME caught_by:$CAUGHT"
}
export -f one; export DIR CHECK
printf "%s\n" $names | xargs -P 6 -I{} bash -c 'one {}'
