#!/bin/bash
# usage: tools/file_seed.sh <Cxx> <name>  -- copy a confirmed seeded change into /verif/seeded/<name>/ and run all 20 checks against it
set -u
ID="$1"; NAME="$2"; WT=${WT_ROOT:-/tmp/wt}/$ID; DIR="$(cd "$(dirname "$0")/.." && pwd)"; OUT="$DIR/seeded/$NAME"
mkdir -p "$OUT/demo"
cp "$WT/patch.diff" "$OUT/patch.diff"
[ -f "$WT/tests/demo_$ID.rs" ] && cp "$WT/tests/demo_$ID.rs" "$OUT/demo/"
[ -d "$WT/demo" ] && cp -r "$WT/demo/." "$OUT/demo/"
cp "$WT/meta.json" "$OUT/agent_meta.json"
# run all checks against the patched tree (scratch copy, removed afterwards)
SCR=$(mktemp -d /tmp/seed.XXXXXX); rsync -a --exclude target --exclude .git /repo/ "$SCR/"; (cd "$SCR" && patch -p1 -s < "$OUT/patch.diff") || { echo PATCH-FAILED; rm -rf "$SCR"; exit 3; }
CAUGHT=""; : > "$OUT/check_output.txt"
for i in $(seq -w 1 20); do
  o=$("$DIR/check" C$i --repo "$SCR" --no-evidence --no-fixture 2>&1); rc=$?
  if [ $rc -ne 0 ]; then CAUGHT="$CAUGHT C$i"; echo "== C$i (exit $rc)" >> "$OUT/check_output.txt"; echo "$o" | grep -E "rule=|BROKEN" | sed "s#$SCR/##g" | cut -c1-400 >> "$OUT/check_output.txt"; fi
done
rm -rf "$SCR"
echo "caught_by:$CAUGHT"
python3 - "$OUT" "$ID" "$CAUGHT" <<'PY'
import json,sys
out,pid,caught=sys.argv[1],sys.argv[2],sys.argv[3].split()
a=json.load(open(out+'/agent_meta.json'))
m={"property":pid,"summary":a.get("summary"),"needs_to_manifest":a.get("needs_to_manifest"),"files_changed":a.get("files_changed"),
   "origin":"fresh sub-agent given only the property text and its own scratch worktree (nothing from /verif)",
   "confirmed":{"how":"tools/verify_seed.sh in the agent's scratch worktree: patch.diff reverse-applies to the tree; `cargo test --offline --lib --bins` = 47 passed with the change; the demonstration fails with the change (non-zero exit) and passes with it reverted",
                "demo_cmd":a.get("demo_cmd")},
   "checks_run":"tools/file_seed.sh: all 20 quick checks against a scratch copy of /repo with patch.diff applied (copy removed afterwards)",
   "caught_by":caught}
json.dump(m,open(out+'/meta.json','w'),indent=1)
PY
