#!/bin/bash
# usage: CHECK=$(tools/snap.sh)/check tools/benign.sh ...   -- freeze the checker (sa/, tables, json inputs) into a scratch directory so that a long
# regression run is not disturbed by edits made to /verif/sa while it runs.  The extractor, its cache and the fixtures are shared (symlinks).
DIR="$(cd "$(dirname "$0")/.." && pwd)"
S=$(mktemp -d /tmp/vsnap.XXXXXX)
cp -r "$DIR/sa" "$DIR/tables" "$S/"; cp "$DIR/check" "$DIR"/*.json "$DIR/properties.jsonl" "$S/"
find "$S" -name __pycache__ -prune -exec rm -rf {} +
mkdir -p "$DIR/.cache"
for d in extract fixtures .cache mutants seeded; do ln -s "$DIR/$d" "$S/$d"; done
echo "$S"
