#!/bin/bash
# usage: tools/bw1.sh <patch> [checks...]  -- run (all or the given) quick checks on a scratch copy of /repo with the patch applied, print the reports
p=$(realpath $1); shift; DIR="$(cd "$(dirname "$0")/.." && pwd)"
cs="$@"; [ -z "$cs" ] && cs=$(seq -w 1 20 | sed 's/^/C/')
SCR=$(mktemp -d /tmp/ben.XXXXXX); rsync -a --exclude target --exclude .git /repo/ "$SCR/"
(cd "$SCR" && patch -p1 -s < "$p") || { echo "PATCH FAILED"; rm -rf "$SCR"; exit 1; }
bad=""
for c in $cs; do out=$("$DIR/check" $c --repo "$SCR" --no-evidence --no-fixture 2>&1); if [ $? -ne 0 ]; then bad="$bad $c"; echo "$out" | grep -E "rule=|BROKEN|Traceback|Error" | head -${BW_MAX:-6} | cut -c1-${BW_W:-300} | sed "s/^/  [$c] /"; fi; done
[ -n "$bad" ] && echo "$(basename $p) ALARM:$bad" || echo "$(basename $p) quiet"
rm -rf "$SCR"
