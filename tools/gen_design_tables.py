#!/usr/bin/env python3
"""Regenerate the generated blocks of DESIGN.md (between <!-- GEN:name --> and <!-- /GEN:name -->) from seeded/*/meta.json,
seeded/history.json, mutants/, benign/, audited_sites.json and the thorough-tier evidence."""
import glob, json, os, re
V = os.path.dirname(os.path.dirname(os.path.abspath(__file__)))


def short(s, n):
    s = " ".join((s or "").split())
    return s if len(s) <= n else s[: n - 1].rsplit(" ", 1)[0] + " …"


def seeded_table():
    hist = json.load(open(os.path.join(V, "seeded", "history.json")))
    rows = ["| seed | property | change (agent's summary, shortened) | needs to manifest | reported by | first run / rule added |", "|---|---|---|---|---|---|"]
    for mp in sorted(glob.glob(os.path.join(V, "seeded", "*", "meta.json"))):
        name = os.path.basename(os.path.dirname(mp))
        m = json.load(open(mp))
        h = hist.get(name, {})
        fr = h.get("first_run", "reported at first run")
        if h.get("strengthened"):
            fr += "; added: " + h["strengthened"]
        rows.append("| %s | %s | %s | %s | %s | %s |" % (name, m["property"], short(m.get("summary"), 260).replace("|", "/"),
                                                       short(m.get("needs_to_manifest"), 200).replace("|", "/"), " ".join(m.get("caught_by", [])) or "**none**", fr.replace("|", "/")))
    return "\n".join(rows)


def mutant_tally():
    out = []
    for i in range(1, 21):
        pid = "C%02d" % i
        n = len(glob.glob(os.path.join(V, "mutants", pid + "-*.patch")))
        ev = os.path.join(V, "evidence", pid + ".json")
        st = None
        if os.path.exists(ev):
            st = json.load(open(ev))["coverage"].get("sensitivity_selftest")
        if st:
            out.append("%s %d/%d%s" % (pid, st["killed"], st["applied"], (" (survivors: %s)" % ", ".join(st["survivors"])) if st["survivors"] else ""))
        else:
            out.append("%s %d patches (thorough tier not yet run)" % (pid, n))
    return ("Killed / applied in the last thorough run (own mutants plus every seeded change that names the property or is reported by it): "
            + ", ".join(out) + ".")


def counts():
    aud = json.load(open(os.path.join(V, "audited_sites.json")))
    n_aud = len(aud if isinstance(aud, list) else aud.get("sites", aud))
    req = len(re.findall(r"def req_", open(os.path.join(V, "sa", "audit_facts.py")).read()))
    return {"MUTANTS": len(glob.glob(os.path.join(V, "mutants", "*.patch"))), "BENIGN": len(glob.glob(os.path.join(V, "benign", "*.patch"))) + len(glob.glob(os.path.join(V, "benign", "wave*", "*.patch"))),
            "AUDITED": n_aud, "REQS": req, "SEEDS": len(glob.glob(os.path.join(V, "seeded", "*", "meta.json")))}


def main():
    p = os.path.join(V, "DESIGN.md")
    s = open(p).read()
    blocks = {"seeded": seeded_table(), "mutants": mutant_tally()}
    for k, v in counts().items():
        blocks[k] = str(v)
    for name, body in blocks.items():
        inline = name.isupper()
        pat = re.compile(r"<!-- GEN:%s -->.*?<!-- /GEN:%s -->" % (name, name), re.S)
        rep = "<!-- GEN:%s -->%s<!-- /GEN:%s -->" % (name, body if inline else "\n" + body + "\n", name)
        s, n = pat.subn(lambda _m: rep, s)
        if n == 0:
            print("marker not found:", name)
    open(p, "w").write(s)


main()
