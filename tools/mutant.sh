#!/bin/bash
# usage: tools/mutant.sh <patch.diff | --revert <commit>> <Cxx> [more check args]
# Applies a patch to a scratch copy of /repo (outside /repo and /verif), runs the check on the copy, deletes the copy.
set -u
DIR="$(cd "$(dirname "$0")/.." && pwd)"
SCR=$(mktemp -d /tmp/mut.XXXXXX)
trap 'rm -rf "$SCR"' EXIT
rsync -a --exclude target --exclude .git /repo/ "$SCR/"
if [ "$1" = "--revert" ]; then
  (cd /repo && git diff "$2" "$2~1" ) | (cd "$SCR" && patch -p1 -s) || { echo "PATCH-FAILED"; exit 3; }
  shift 2
else
  PATCH="$(realpath "$1")"
  (cd "$SCR" && patch -p1 -s < "$PATCH") || { echo "PATCH-FAILED"; exit 3; }
  shift
fi
PROP="$1"; shift
"$DIR/check" "$PROP" --repo "$SCR" --no-evidence --no-fixture "$@"
