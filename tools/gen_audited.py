#!/usr/bin/env python3
"""One-off helper used while building audited_sites.json: lists the currently open panic sites of a property and assigns the
reason / required facts by the table below.  The resulting file is reviewed and committed; it is never written by a check."""
import json, os, subprocess, sys, re
VERIF = os.path.dirname(os.path.dirname(os.path.abspath(__file__)))
sys.path.insert(0, os.path.join(VERIF, "sa"))
import facts, mir
from framework import Ctx
from lib import World
from nopanic import NoPanic
import audit_facts

RULES = [
    (r"Grease::new/from_ratio", "fault_percentage <= 50 <= 100 is enforced by is_valid_config before any worker is spawned", ["fault_percentage_validated"]),
    (r"(Responder|Server)::new/unwrap\(name\(", "Server::new / Responder::new run only on worker threads, which main creates with thread::Builder::name(..)", ["worker_threads_named"]),
    (r"Server::new/unwrap\(new\(\)\)", "Poll::new fails only on operating-system resource exhaustion, not as a function of the configuration", []),
    (r"Server::new/unwrap\(register\(", "Poll::register fails only on operating-system errors, not as a function of the configuration", []),
    (r"Server::new/unwrap\(parse\(", "`interface:port` was parsed successfully by is_valid_config (udp_socket_addr); the same interface with another u16 port parses too", ["interface_parse_validated"]),
    (r"Server::new/expect\(bind_health_check_listener", "fails only when another process owns the port (the workers share it through SO_REUSEPORT, clause C15.1)", ["health_listener_reuse_port"]),
    (r"Server::new/expect\(load_seed", "a plaintext seed always loads; a KMS-protected seed in a build without that KMS fails loudly in every worker (documented build limitation)", ["load_seed_plaintext_ok"]),
    (r"MsgSigner::from_seed/expect\(arg1\)", "plaintext seeds are validated to be exactly 32 bytes by is_valid_config", ["seed_length_validated"]),
    (r"MsgSigner::new/unwrap\(fill", "the system random number generator failing is an operating-system condition", []),
    (r"display_config/unwrap\(persistence_directory", "guarded by persistence_directory().is_some(); every ServerConfig getter is a pure field read", ["config_getters_pure"]),
    # (regex on key, reason, requires)
    (r"MerkleTree::compute_root/panic\('Must have at least one leaf", "compute_root is only called after Responder::is_empty() returned false, and requests/leaves are pushed pairwise", ["merkle_nonempty_before_compute_root"]),
    (r"MerkleTree::compute_root/index\(arg1\.levels\[\]\)", "children 2i, 2i+1 exist: the level below holds 2*node_count nodes after odd-count padding (relational invariant of the pairing loop)", ["merkle_level_structure"]),
    (r"MerkleTree::compute_root/index\(arg1\.levels\)", "level <= number of levels: a level vector is pushed whenever levels.len() < level + 1 before it is indexed", ["merkle_level_structure"]),
    (r"MerkleTree::compute_root/overflow", "level and node counts are bounded by log2 / the number of leaves (at most 255 per batch, u8 batch size)", ["merkle_level_structure", "batch_size_is_u8"]),
    (r"MerkleTree::compute_root/panic\(assert_eq\)", "after the pairing loop the top level holds exactly one node (node_count == 1)", ["merkle_level_structure"]),
    (r"MerkleTree::compute_root/unwrap\(pop", "the top level holds exactly one node (asserted just before)", ["merkle_level_structure"]),
    (r"MerkleTree::get_paths/(index|overflow|with_capacity|panic)", "index < number of leaves of the batch (enumerate index of requests, pushed pairwise with leaves); sibling exists because odd levels are padded; depth <= 8 for a u8 batch size", ["merkle_level_structure", "paired_pushes", "batch_size_is_u8"]),
    (r"MerkleTree::finalize_output/slice-index", "every tree hash is at least 32 bytes wide for every version", ["merkle_hash_width_ge_32"]),
    (r"RtMessage::get_field/index\(arg1\.values", "tags and values always have the same length (pushed, cleared and constructed pairwise)", ["rtmessage_parallel_vectors"]),
    (r"RtMessage::encode/(index|slice-index)\(arg1\.values", "num_tags > 1 implies values.len() > 1: tags and values always have the same length", ["rtmessage_parallel_vectors"]),
    (r"RtMessage::encode/panic\('unexpected length'\)", "encode writes 4 + 4*(n-1) + 4*n + sum(len) bytes, which is what encoded_size computes (io::Write on Vec appends exactly the bytes given)", ["rtmessage_parallel_vectors"]),
    (r"RtMessage::encode/overflow", "running sum of value lengths of coexisting allocations cannot exceed the address space", []),
    (r"RtMessage::encode(_framed)?/with_capacity", "capacity is the total size of buffers that already exist in memory (plus 12)", []),
    (r"RtMessage::encoded_size/overflow", "at most 18 tags (strictly ascending over an 18-variant enum) and the sum of the lengths of coexisting allocations", ["rtmessage_tags_bounded"]),
    (r"Grease::randomly_order_tags/unwrap\(get", "indices come from index::sample(rng, n, n) with n = num_fields() of the same message, so each is < tags.len() == values.len()", ["index_sample_full_permutation", "rtmessage_parallel_vectors"]),
    (r"OnlineKey::(classic|rfc)_midp/(expect|unwrap)\(duration_since", "fails only if the system clock is before 1970-01-01, outside the property's quantifier (C11: clock from the epoch onwards)", ["epoch_constant"]),
    (r"OnlineKey::classic_midp/overflow", "seconds since the epoch * 10^6 overflows u64 only after year 584,000", ["epoch_constant"]),
    (r"Responder::send_responses/unwrap\(name\(", "a Responder lives inside a Server, which is !Send and was built by Server::new on this thread after unwrapping the same thread name", ["server_thread_named"]),
    (r"Server::compute_delay/duration-sub", "guarded by base.as_secs() >= 1 while the subtrahend is below 256 ms", ["compute_delay_guard"]),
    (r"Server::handle_health_check/unwrap\(arg1\.health_listener", "EVT_HEALTH_CHECK is registered only in the branch that stores Some(listener), and handle_health_check is only called for that token", ["health_token_only_when_listener"]),
    (r"Server::process_events/expect\(poll", "a failing poll() is an unrecoverable operating-system condition, not influenced by datagram contents", []),
    (r"Server::process_events/panic\('internal error: entered unreachable", "the only tokens ever registered with this Poll are the three that are matched", ["registered_tokens_subset_of_matched"]),
]

EXTRA = [
    {"key": "roughenough::server::Server::new/unwrap(parse('127.0.0.1:0'))", "property": "C15", "reason": "`fuzzing` feature only: parsing the constant literal \"127.0.0.1:0\" as a socket address cannot fail", "requires": []},
    {"key": "roughenough::server::Server::new/unwrap(bind(parse()))", "property": "C15", "reason": "`fuzzing` feature only: helper socket bound to an ephemeral port (port 0) fails only on OS resource exhaustion", "requires": []},
]


def main():
    prop = sys.argv[1]
    roots = sys.argv[2:]
    P = mir.Program(facts.extract())
    ctx = Ctx(prop, P, "/repo", "quick", "default"); W = World(ctx)
    eng = NoPanic(ctx, W, roots)
    eng.audited = {}
    recs = eng.run()
    path = os.path.join(VERIF, "audited_sites.json")
    cur = json.load(open(path))["sites"] if os.path.exists(path) else []
    have = {e["key"] for e in cur}
    for r in recs:
        if r["status"] != "open" or r["key"] in have:
            continue
        for rx, reason, req in RULES:
            if re.search(rx, r["key"]):
                cur.append({"key": r["key"], "property": prop, "reason": reason, "requires": req})
                break
        else:
            print("UNASSIGNED", r["key"], r["detail"])
    for e in EXTRA:
        if e["key"] not in {x["key"] for x in cur}:
            cur.append(e)
    json.dump({"_comment": "Panic sites that the prover cannot discharge automatically. One entry per site (no wildcards); "
               "`requires` names machine-checked facts (sa/audit_facts.py) that are re-checked on every run: when one stops holding the site is re-opened.",
               "sites": cur}, open(path, "w"), indent=1)
    print(len(cur), "entries")

main()
