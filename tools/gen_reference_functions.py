#!/usr/bin/env python3
"""Freeze the list of function paths of the reference tree (/repo as it is now).  Functions that are not in this list are treated as helper
functions introduced later and are inlined into their callers before the rules run (sa/mir.py)."""
import json, os, sys
V = os.path.dirname(os.path.dirname(os.path.abspath(__file__)))
sys.path.insert(0, os.path.join(V, "sa"))
import facts
names = set()
for feat in ("default", "fuzzing", "awskms", "gcpkms"):
    fx = facts.extract("/repo", feat)
    for key, f in fx.items():
        names.update(f["fns"].keys())
json.dump({"_comment": "function paths present on the reference tree (all feature sets); regenerate with tools/gen_reference_functions.py only when the reference tree itself changes",
           "functions": sorted(names)}, open(os.path.join(V, "reference_functions.json"), "w"), indent=0)
print(len(names), "functions")
