#!/usr/bin/env python3
"""Regenerates /verif/MANIFEST.json from the rule modules present under sa/rules (claimed) — everything else is listed
under not_applicable with its reason."""
import json, os, sys
VERIF = os.path.dirname(os.path.dirname(os.path.abspath(__file__)))
sys.path.insert(0, os.path.join(VERIF, "sa"))

PROPS = [json.loads(l) for l in open(os.path.join(VERIF, "properties.jsonl"))]

TEXT = {}
def load_texts():
    p = os.path.join(VERIF, "tools", "levels.json")
    if os.path.exists(p):
        TEXT.update(json.load(open(p)))

def module_texts(pid):
    """level text / note derived from the rule module itself (EXPLANATION, NOT_DECIDED, TRUSTED, ASSUMPTIONS) so that they cannot drift."""
    import importlib
    try:
        mod = importlib.import_module("rules." + pid)
    except Exception:
        return {}
    expl = " ".join(getattr(mod, "EXPLANATION", "").split())
    nd = " ".join(getattr(mod, "NOT_DECIDED", "").split())
    if not expl:
        return {}
    text = ("Decides, on every run from /repo's current source (all paths / all sites of the functions named, both protocol versions where relevant), "
            "the structural clauses: " + expl + " NOT decided (value-level / dynamic remainder): " + (nd or "nothing named") +
            ". A pass means these necessary structural conditions hold, not that the full behavioural property was observed.")
    trusted = list(getattr(mod, "TRUSTED", [])) + ["rustc MIR construction, trait resolution and const evaluation", "spec_tables.json (hand-written from the protocol descriptions)"]
    ass = list(getattr(mod, "ASSUMPTIONS", []))
    note = "Trusted: " + "; ".join(trusted) + ". Assumptions: " + ("; ".join(ass) if ass else "none beyond the trusted base") + "."
    return {"text": text, "note": note}


def main():
    load_texts()
    for p in PROPS:
        TEXT.setdefault(p["id"], {}).update(module_texts(p["id"]))
    checks = []
    na = []
    for p in PROPS:
        pid = p["id"]
        t = TEXT.get(pid, {})
        if os.path.exists(os.path.join(VERIF, "sa", "rules", pid + ".py")) and not t.get("not_applicable"):
            checks.append({
                "property_id": pid,
                "quick_cmd": "./check %s" % pid,
                "thorough_cmd": "./check %s --tier thorough" % pid,
                "evidence_file": "evidence/%s.json" % pid,
                "replay_cmd_template": "./check %s --explain {path}" % pid,
                "engine": "sa",
                "level_claimed": {
                    "category": "other",
                    "text": t.get("text", "Static rules over rustc MIR facts; see DESIGN.md section 5 for the clauses decided and not decided."),
                    "design_ref": "DESIGN.md section 5, %s" % pid,
                },
                "level_note": t.get("note", "Trusted: rustc MIR/const-eval, the semantics tables for std/ring/dalek/byteorder callees, spec_tables.json."),
                "technique": t.get("technique", "static analysis: custom MIR dataflow / call-graph rules (rustc_private extractor + Python rule engine)"),
            })
        else:
            na.append({"property_id": pid, "reason": t.get("not_applicable", "check not built yet (work in progress); no claim is made")})
    m = {
        "version": 1,
        "setup_cmd": "./setup.sh",
        "hooks": {
            "guard": "roughenough_verif",
            "enable": "none needed: the static analysis reads the unmodified source (no hooks, no instrumentation)",
            "baseline_off_cmd": "cd /repo && cargo test --workspace --no-fail-fast --offline",
            "source_commits": [],
            "add_only": True,
        },
        "engines": [
            {"name": "sa", "path": "sa/", "serves_properties": [c["property_id"] for c in checks],
             "kind_free_text": "static analysis: rustc_private MIR fact extractor (extract/) run as RUSTC_WORKSPACE_WRAPPER under cargo +nightly check, "
                               "Python rule engine (CFG, dominators, call graph, provenance terms, must-facts, difference-constraint prover, taint, table extraction)"}
        ],
        "checks": checks,
        "not_applicable": na,
        "notes": "Every check re-extracts facts from /repo's current working tree (content-hash cache). Known findings: known_findings.json. "
                 "Level 'other': each check decides the structural clauses listed in its level text on every path/site; the value-level remainder is named there and in DESIGN.md.",
    }
    with open(os.path.join(VERIF, "MANIFEST.json"), "w") as fh:
        json.dump(m, fh, indent=1)
    print("claimed:", [c["property_id"] for c in checks])
    print("not_applicable:", [n["property_id"] for n in na])

if __name__ == "__main__":
    main()
