#!/bin/bash
# Converse self-test: behaviour-preserving edits must not raise an alarm in any check.
# usage: tools/benign.sh [patches..]   (default: benign/*.patch benign/wave*/*.patch; 4 patches in parallel, JOBS=n to change)
DIR="$(cd "$(dirname "$0")/.." && pwd)"
LIST="$@"; [ -z "$LIST" ] && LIST="$DIR/benign/*.patch $DIR/benign/wave/*.patch $DIR/benign/wave2/*.patch $DIR/benign/wave3/*.patch $DIR/benign/wave4/*.patch $DIR/benign/wave5/*.patch $DIR/benign/wave6/*.patch $DIR/benign/wave7/*.patch"
one() {
  DIR="$1"; p=$(realpath "$2")
  SCR=$(mktemp -d /tmp/ben.XXXXXX)
  rsync -a --exclude target --exclude .git /repo/ "$SCR/"
  if ! (cd "$SCR" && patch -p1 -s < "$p"); then echo "SKIP $(basename $p) (does not apply)"; rm -rf "$SCR"; return; fi
  bad=""; det=""
  for i in $(seq -w 1 20); do
    out=$("${CHECK:-$DIR/check}" C$i --repo "$SCR" --no-evidence --no-fixture 2>&1)
    if [ $? -ne 0 ]; then bad="$bad C$i"; det="$det$(echo "$out" | grep -E "rule=|BROKEN|extraction" | head -2 | cut -c1-220)"$'\n'; fi
  done
  if [ -n "$bad" ]; then
    if grep -q "\"$(basename $p)\"" "$DIR/benign/UNSUPPORTED.json" 2>/dev/null; then echo "UNSUPPORTED (listed) $(basename $p):$bad"; else echo "FALSE-ALARM $(basename $p):$bad"; echo -n "$det"; fi
  else echo "quiet $(basename $p)"; fi
  rm -rf "$SCR"
}
export -f one
OUT=$(ls $LIST | xargs -P ${JOBS:-4} -I{} bash -c 'one "$0" "$1"' "$DIR" {})
echo "$OUT"
echo "$OUT" | grep -q "^FALSE-ALARM" && exit 1
exit 0
