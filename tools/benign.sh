#!/bin/bash
# Converse self-test: behaviour-preserving edits must not raise an alarm in any check.
DIR="$(cd "$(dirname "$0")/.." && pwd)"
rc=0
LIST="$@"; [ -z "$LIST" ] && LIST="$DIR/benign/*.patch $DIR/benign/wave/*.patch"
for p in $LIST; do
  p=$(realpath "$p")
  SCR=$(mktemp -d /tmp/ben.XXXXXX)
  rsync -a --exclude target --exclude .git /repo/ "$SCR/"
  if ! (cd "$SCR" && patch -p1 -s < "$p"); then echo "SKIP $(basename $p) (does not apply)"; rm -rf "$SCR"; continue; fi
  bad=""
  for i in $(seq -w 1 20); do
    out=$("$DIR/check" C$i --repo "$SCR" --no-evidence --no-fixture 2>&1)
    if [ $? -ne 0 ]; then bad="$bad C$i"; echo "$out" | grep -E "rule=|BROKEN|extraction" | head -3 | cut -c1-220; fi
  done
  if [ -n "$bad" ]; then
    if grep -q "\"$(basename $p)\"" "$DIR/benign/wave/UNSUPPORTED.json" 2>/dev/null; then echo "UNSUPPORTED (listed) $(basename $p):$bad"; else echo "FALSE-ALARM $(basename $p):$bad"; rc=1; fi
  else echo "quiet $(basename $p)"; fi
  rm -rf "$SCR"
done
exit $rc
