#!/usr/bin/env python3
"""usage: tools/wave_setup.py <seed|benign> <root dir outside /repo and /verif> [ids...]
Creates one scratch git worktree of /repo per property under <root>/<id> and writes <root>/<id>.prompt.txt from tools/prompts/<kind>.tmpl.
For `seed`, summaries of the changes already filed for that property are passed along so that the new one uses a different mechanism."""
import glob, json, os, subprocess, sys
V = os.path.dirname(os.path.dirname(os.path.abspath(__file__)))
kind, root = sys.argv[1], sys.argv[2].rstrip("/")
ids = sys.argv[3:] or ["C%02d" % i for i in range(1, 21)]
assert not root.startswith("/repo") and not root.startswith("/verif")
os.makedirs(root, exist_ok=True)
tmpl = open(os.path.join(V, "tools", "prompts", kind + ".tmpl")).read()
props = {json.loads(l)["id"]: json.loads(l) for l in open(os.path.join(V, "properties.jsonl"))}
for pid in ids:
    p = props[pid]
    wt = os.path.join(root, pid)
    if not os.path.exists(wt):
        subprocess.run(["git", "-C", "/repo", "worktree", "add", "-q", "--detach", wt, "HEAD"], check=True)
    prop = "Property %s — %s\n\nStatement: %s\n\nQuantified over: %s\n\nWhy the existing tests cannot settle it: %s\n\nRelevant files: %s\n" % (
        pid, p["title"], p["statement"], p["quantifier"]["text"], p["why_tests_cant"], ", ".join(p["anchors"]["files"]))
    extra = ""
    if kind == "seed":
        prev = []
        for mp in sorted(glob.glob(os.path.join(V, "seeded", "*", "meta.json"))):
            m = json.load(open(mp))
            if m.get("property") == pid:
                prev.append(" ".join((m.get("summary") or "").split())[:500])
        if prev:
            extra = ("\nOther engineers have already produced the following faulty changes for this property. Yours must use a DIFFERENT mechanism and, where possible, "
                     "a different function or file (the property has several clauses and several places where it can break):\n" +
                     "\n".join("  - " + s for s in prev) + "\n")
    open(os.path.join(root, pid + ".prompt.txt"), "w").write(tmpl.format(WT=wt, ROOT=root, PROP=prop, ID=pid, EXTRA=extra))
print("ready:", root, ids)
