#!/usr/bin/env python3
"""usage: tools/wave_setup.py <seed|benign> <root dir outside /repo and /verif> [ids...]
Creates one scratch git worktree of /repo per property under <root>/<id> and writes <root>/<id>.prompt.txt from tools/prompts/<kind>.tmpl.
For `seed`, summaries of the changes already filed for that property are passed along so that the new one uses a different mechanism."""
import glob, json, os, subprocess, sys
V = os.path.dirname(os.path.dirname(os.path.abspath(__file__)))
kind, root = sys.argv[1], sys.argv[2].rstrip("/")
ids = sys.argv[3:] or ["C%02d" % i for i in range(1, 21)]
assert not root.startswith("/repo") and not root.startswith("/verif")
os.makedirs(root, exist_ok=True)
tmpl = open(os.path.join(V, "tools", "prompts", kind + ".tmpl")).read()
props = {json.loads(l)["id"]: json.loads(l) for l in open(os.path.join(V, "properties.jsonl"))}
for pid in ids:
    p = props[pid]
    wt = os.path.join(root, pid)
    if not os.path.exists(wt):
        subprocess.run(["git", "-C", "/repo", "worktree", "add", "-q", "--detach", wt, "HEAD"], check=True)
    prop = "Property %s — %s\n\nStatement: %s\n\nQuantified over: %s\n\nWhy the existing tests cannot settle it: %s\n\nRelevant files: %s\n" % (
        pid, p["title"], p["statement"], p["quantifier"]["text"], p["why_tests_cant"], ", ".join(p["anchors"]["files"]))
    extra = ""
    if kind == "seed":
        prev = []
        for mp in sorted(glob.glob(os.path.join(V, "seeded", "*", "meta.json"))):
            m = json.load(open(mp))
            if m.get("property") == pid:
                prev.append(" ".join((m.get("summary") or "").split())[:500])
        if prev:
            extra = ("\nOther engineers have already produced the following faulty changes for this property. Yours must use a DIFFERENT mechanism and, where possible, "
                     "a different function or file (the property has several clauses and several places where it can break):\n" +
                     "\n".join("  - " + s for s in prev) + "\n")
    if kind in ("benign4", "benign5", "benign6", "benign7"):
        FOCUS = {
            "C01": "the client's ResponseHandler (validate_dele, validate_srep, validate_midpoint, validate_merkle, validate_sig, extract_time)",
            "C02": "Responder::send_responses / make_response / add_*_request, OnlineKey::make_srep, MerkleTree::hash_leaf / hash_nodes / hash",
            "C03": "the client's response handling (ResponseHandler::new, extract_time, validate_*), receive_response, verify_framing, make_request, create_nonce",
            "C04": "MerkleTree::compute_root, get_paths, root_from_paths, reset, push_leaf",
            "C05": "RtMessage::encode, encode_framed, encoded_size, from_bytes, single_tag_message, multi_tag_message",
            "C06": "RtMessage::multi_tag_message, from_bytes, the Display impl of RtMessage",
            "C07": "request::nonce_from_request and its helpers, Server::collect_requests, Responder::make_response / send_responses",
            "C08": "Server::new (poll registrations), Server::process_events, Server::collect_requests, Server::handle_health_check",
            "C09": "Server::process_events, Server::collect_requests, Responder::add_*_request, Responder::send_responses, Responder::reset",
            "C10": "LongTermKey::new, make_cert, calc_srv_value, OnlineKey::make_dele, MsgSigner::from_seed / public_key_bytes",
            "C11": "OnlineKey::make_srep / make_timestamp, Responder::send_responses (where the clock is read)",
            "C12": "request::get_supported_version, nonce_from_rfc_request, is_rfc_request, Version::supported_versions_wire, OnlineKey::make_srep (VERS)",
            "C13": "MsgSigner and MsgVerifier (new, from_seed, update, sign, verify)",
            "C14": "EnvelopeEncryption::encrypt_seed / decrypt_seed and their private helpers",
            "C15": "the server binary's main / polling_loop / bind_socket, Server::new, Server::collect_requests, config::is_valid_config",
            "C16": "FileConfig::new and EnvironmentConfig::new, config::make_config, is_valid_config",
            "C17": "the statistics calls in Server::collect_requests, Responder::send_responses, Server::send_client_stats, Reporter::receive_client_stats / processing_loop, ClientStats::merge",
            "C18": "the server binary's main / polling_loop / bind_socket (worker start-up, what the worker closure captures, how the shared configuration is used)",
            "C19": "the server binary's main (signal handler, worker / reporter joins, exit), polling_loop, Reporter::processing_loop",
            "C20": "the logging in FileConfig::new / EnvironmentConfig::new, display_config in the server binary, Server::new, LongTermKey (Debug/Display)",
        }
        extra = "\nConcentrate your three changes on: " + FOCUS[pid] + ".\n"
    open(os.path.join(root, pid + ".prompt.txt"), "w").write(tmpl.format(WT=wt, ROOT=root, PROP=prop, ID=pid, EXTRA=extra))
print("ready:", root, ids)
