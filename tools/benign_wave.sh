#!/bin/bash
# usage: tools/benign_wave.sh <root> [ids...] -- for every <root>/<id>/patchK.diff written by a sub-agent as a behaviour-preserving change:
# confirm it applies, the 47 unit tests pass with it (in the agent's worktree, build cache reused), then run all 20 quick checks on a scratch copy.
# Properties run in parallel (JOBS, default 5); CHECK=<snapshot>/check freezes the checker (tools/snap.sh).
ROOT=$1; shift; DIR="$(cd "$(dirname "$0")/.." && pwd)"
ids="$@"; [ -z "$ids" ] && ids=$(cd $ROOT && ls -d C*/ | tr -d /)
one() {
  ROOT=$1; DIR=$2; id=$3
  for k in 1 2 3 4; do
    p=$ROOT/$id/patch$k.diff; [ -f "$p" ] || continue
    ( cd $ROOT/$id && git checkout -q -- . && git apply "$p" 2>/dev/null ) || { echo "$id/patch$k DOES-NOT-APPLY"; continue; }
    T=$(cd $ROOT/$id && cargo test --offline --lib --bins 2>&1 | grep -E "^test result" | head -1)
    ( cd $ROOT/$id && git checkout -q -- . )
    echo "$T" | grep -q "47 passed; 0 failed" || { echo "$id/patch$k TESTS-FAIL: $T"; continue; }
    SCR=$(mktemp -d /tmp/ben.XXXXXX); rsync -a --exclude target --exclude .git /repo/ "$SCR/"
    (cd "$SCR" && patch -p1 -s < "$p") || { echo "$id/patch$k PATCH-FAILED"; rm -rf "$SCR"; continue; }
    bad=""
    for i in $(seq -w 1 20); do
      out=$("${CHECK:-$DIR/check}" C$i --repo "$SCR" --no-evidence --no-fixture 2>&1)
      if [ $? -ne 0 ]; then bad="$bad C$i"; echo "$out" | grep -E "rule=|BROKEN|extraction|Traceback" | head -4 | cut -c1-330 | sed "s/^/    [$id\/patch$k C$i] /"; fi
    done
    [ -n "$bad" ] && echo "$id/patch$k ALARM:$bad" || echo "$id/patch$k quiet"
    rm -rf "$SCR"
  done
}
export -f one
printf "%s\n" $ids | xargs -P ${JOBS:-5} -I{} bash -c 'one "$0" "$1" "$2" > "$0/$2.wave.log" 2>&1' "$ROOT" "$DIR" {}
for id in $ids; do cat $ROOT/$id.wave.log; done
