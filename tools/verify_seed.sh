#!/bin/bash
# usage: tools/verify_seed.sh <Cxx> [name]   -- confirm a sub-agent's seeded change in its scratch worktree /tmp/wt/<Cxx>, then file it under seeded/
# Confirms: patch.diff == working-tree source diff; lib+bin unit tests pass with the change (47); demo fails with the change and passes without it.
set -u
ID="$1"; NAME="${2:-$1}"; WT=${WT_ROOT:-/tmp/wt}/$ID
DIR="$(cd "$(dirname "$0")/.." && pwd)"
cd "$WT" || exit 2
DEMO=$(python3 -c "import json;print(json.load(open('meta.json')).get('demo_cmd',''))")
echo "demo_cmd: $DEMO"
# 0. make the tree exactly HEAD + patch.diff (agents share refs/stash between worktrees and have swapped changes by accident)
git checkout -q -- . 2>/dev/null
if ! git apply patch.diff 2>/dev/null; then echo "FAIL: patch.diff does not apply to a clean HEAD"; exit 1; fi
# 1. patch matches tree
git diff -- src Cargo.toml example.cfg > ${WT_ROOT:-/tmp/wt}/$ID.actual.diff
if ! git apply --check -R patch.diff 2>/dev/null; then echo "FAIL: patch.diff does not reverse-apply to the working tree"; exit 1; fi
# 2. unit tests with the change
T=$(cargo test --offline --lib --bins 2>&1 | grep -E "^test result" | head -1); echo "unit tests with change: $T"
echo "$T" | grep -q "${EXPECT_TESTS:-47} passed; 0 failed" || { echo "FAIL: unit tests"; exit 1; }
# 3. demo with the change must fail
( eval "$DEMO" ) > ${WT_ROOT:-/tmp/wt}/$ID.demo_with.log 2>&1; RC1=$?
echo "demo with change: exit $RC1"
# 4. demo without the change must pass
git apply -R patch.diff || exit 1
( eval "$DEMO" ) > ${WT_ROOT:-/tmp/wt}/$ID.demo_without.log 2>&1; RC2=$?
echo "demo without change: exit $RC2"
T2=$(cargo test --offline --lib --bins 2>&1 | grep -E "^test result" | head -1); echo "unit tests without change: $T2"
git apply patch.diff || exit 1
if [ $RC1 -eq 0 ] || [ $RC2 -ne 0 ]; then echo "FAIL: demo does not discriminate"; exit 1; fi
echo "CONFIRMED $ID"
