#!/bin/bash
# Builds the MIR fact extractor (rustc_private driver, zero cargo dependencies) offline.
set -e
DIR="$(cd "$(dirname "$0")" && pwd)"
cd "$DIR/extract"
CARGO_NET_OFFLINE=true cargo +nightly build --release --offline
