"""Must-facts (A4): forward data-flow with intersection at joins over branch-edge conditions, plus helpers to
interpret those conditions as relational facts."""
from collections import deque

import values


def edge_facts(fn, ev):
    """(src, dst) -> set of facts established by taking that edge.
    fact = ('eq', term, int) | ('ne', term, int)"""
    out = {}
    for bl in fn.blocks:
        t = bl.term
        b = bl.idx
        if t["k"] == "switch":
            term = ev.op(t["op"], (b, "term"))
            by_target = {}
            for val, tgt in t["cases"]:
                by_target.setdefault(tgt, []).append(val)
            is_bool = t.get("ty") == "bool"
            for tgt, vals in by_target.items():
                if tgt == t["otherwise"]:
                    continue
                if len(vals) == 1:
                    out.setdefault((b, tgt), set()).add(("eq", term, bool(vals[0]) if is_bool else vals[0]))
            ow = t["otherwise"]
            case_vals = [v for v, tg in t["cases"] if tg != ow]
            fs = out.setdefault((b, ow), set())
            if is_bool and case_vals == [0]:
                fs.add(("eq", term, True))
            else:
                for v in case_vals:
                    fs.add(("ne", term, v))
        elif t["k"] == "assert":
            term = ev.op(t["cond"], (b, "term"))
            out.setdefault((b, t["tgt"]), set()).add(("eq", term, bool(t["expected"])))
    return out


def must_facts(fn, ev, live=None):
    """block -> frozenset of facts that hold on entry to the block along every normal path from the function entry."""
    ef = edge_facts(fn, ev)
    IN = {0: frozenset()}
    order = fn.rpo()
    changed = True
    while changed:
        changed = False
        for b in order:
            if live is not None and b not in live:
                continue
            if b == 0:
                continue
            acc = None
            for p in fn.pred(b):
                if p not in IN:
                    continue
                if live is not None and p not in live:
                    continue
                # a switch folded under the current assumptions only takes its live edge
                s = IN[p] | frozenset(ef.get((p, b), ()))
                acc = s if acc is None else (acc & s)
            if acc is None:
                continue
            if IN.get(b) != acc:
                IN[b] = acc
                changed = True
    return IN


CMP_NEG = {"Lt": "Ge", "Le": "Gt", "Gt": "Le", "Ge": "Lt", "Eq": "Ne", "Ne": "Eq"}
CMP_SWAP = {"Lt": "Gt", "Le": "Ge", "Gt": "Lt", "Ge": "Le", "Eq": "Eq", "Ne": "Ne"}


def relational(fact):
    """Translate a branch fact into canonical relations [(op, a, b)] with op in Lt/Le/Eq/Ne (a op b), looking through
    `Not`, comparison terms, PartialEq/PartialOrd calls and is_some/is_none/is_ok/is_err/is_empty predicates."""
    kind, term, val = fact
    truth = None
    if kind == "eq" and isinstance(val, bool):
        truth = val
    elif kind == "ne" and isinstance(val, bool):
        truth = not val
    out = []
    if truth is None:
        if kind == "eq":
            out.append(("Eq", term, ("int", val)))
        else:
            out.append(("Ne", term, ("int", val)))
        return out
    t = term
    while isinstance(t, tuple) and t[0] == "un" and t[1] == "Not":
        t = t[2]
        truth = not truth
    if isinstance(t, tuple) and t[0] == "bin" and t[1] in CMP_NEG:
        op = t[1] if truth else CMP_NEG[t[1]]
        a, b = t[2], t[3]
        if op in ("Gt", "Ge"):
            op, a, b = CMP_SWAP[op], b, a
        out.append((op, a, b))
        return out
    if isinstance(t, tuple) and t[0] == "call":
        p = values.strip_generics(t[1]) if hasattr(values, "strip_generics") else t[1]
        name = p.split("::")[-1]
        args = t[2]
        cmpmap = {"eq": "Eq", "ne": "Ne", "lt": "Lt", "le": "Le", "gt": "Gt", "ge": "Ge"}
        if name in cmpmap and len(args) == 2:
            op = cmpmap[name] if truth else CMP_NEG[cmpmap[name]]
            a, b = args
            if op in ("Gt", "Ge"):
                op, a, b = CMP_SWAP[op], b, a
            out.append((op, a, b))
            return out
        if name in ("is_some", "is_ok", "is_none", "is_err", "is_empty") and args:
            pos = truth if name in ("is_some", "is_ok", "is_empty") else not truth
            base = {"is_none": "is_some", "is_err": "is_ok"}.get(name, name)
            out.append(("Pred" if pos else "NotPred", base, args[0]))
            return out
    out.append(("True" if truth else "False", t, None))
    return out


def facts_at(IN, b):
    return IN.get(b, frozenset())


def rel_facts_at(IN, b):
    out = []
    for f in facts_at(IN, b):
        out.extend(relational(f))
    return out
