"""Must-facts (A4): forward data-flow with intersection at joins over branch-edge conditions, plus helpers to
interpret those conditions as relational facts."""
from collections import deque

import values


class Facts(dict):
    """block -> must-facts, remembering the function so that value-correlated facts can be added on demand (facts_at)."""
    fn = None
    ev = None
    _corr = None

    def correlated(self, b):
        if self.fn is None:
            return frozenset()
        if self._corr is None:
            self._corr = {}
        if b not in self._corr:
            self._corr[b] = frozenset(correlated_facts(self.fn, self.ev, self, b))
        return self._corr[b]


def edge_facts(fn, ev):
    """(src, dst) -> set of facts established by taking that edge.
    fact = ('eq', term, int) | ('ne', term, int)"""
    out = {}
    for bl in fn.blocks:
        t = bl.term
        b = bl.idx
        if t["k"] == "switch":
            term = ev.op(t["op"], (b, "term"))
            by_target = {}
            for val, tgt in t["cases"]:
                by_target.setdefault(tgt, []).append(val)
            is_bool = t.get("ty") == "bool"
            for tgt, vals in by_target.items():
                if tgt == t["otherwise"]:
                    continue
                if len(vals) == 1:
                    out.setdefault((b, tgt), set()).add(("eq", term, bool(vals[0]) if is_bool else vals[0]))
            ow = t["otherwise"]
            case_vals = [v for v, tg in t["cases"] if tg != ow]
            fs = out.setdefault((b, ow), set())
            if is_bool and case_vals == [0]:
                fs.add(("eq", term, True))
            else:
                for v in case_vals:
                    fs.add(("ne", term, v))
        elif t["k"] == "assert":
            term = ev.op(t["cond"], (b, "term"))
            out.setdefault((b, t["tgt"]), set()).add(("eq", term, bool(t["expected"])))
    return out


STATE_READERS = ("len", "is_empty", "last", "first", "get", "position", "get_field", "capacity", "contains_key",
                 "num_fields", "contains", "is_some", "is_none", "peek", "remaining")


def mutated_bases(fn, ev, b):
    """Terms of the places that block b may mutate in place (through &mut arguments or field assignments)."""
    out = []
    bl = fn.blocks[b]
    for i, st in enumerate(bl.stmts):
        if st["k"] == "assign" and st["dst"].get("p"):
            out.append(ev.place(st["dst"], (b, i)))
    t = bl.term
    if t["k"] == "call":
        for a, ty in zip(t["args"], t.get("arg_tys", [])):
            if ty.startswith("&mut"):
                out.append(ev.op(a, (b, "term")))
    return [m for m in out if isinstance(m, tuple) and m and m[0] not in ("int", "top")]


def reads_state_of(fact, bases):
    """Does the fact's term read (unsnapshotted) state of one of the mutated places?  Call terms and site-tagged
    lengths are value snapshots: the walk does not descend into them."""
    stack = [fact[1]]
    while stack:
        s = stack.pop()
        if not (isinstance(s, tuple) and s):
            continue
        if not isinstance(s[0], str):
            stack.extend(x for x in s if isinstance(x, tuple))
            continue
        if s[0] == "call":
            continue
        if s[0] == "len" and len(s) == 3:
            continue
        if s[0] in ("len", "index", "idx", "field"):
            for m in bases:
                if s == m or values.contains(s, lambda x, m=m: x == m):
                    return True
        stack.extend(x for x in s[1:] if isinstance(x, tuple))
    return False


def must_facts(fn, ev, live=None):
    """block -> frozenset of facts that hold on entry to the block along every normal path from the function entry.
    Facts that read the state of a place are killed by blocks that may mutate that place."""
    ef = edge_facts(fn, ev)
    kills = {}

    def out_of(p, facts):
        if p not in kills:
            kills[p] = mutated_bases(fn, ev, p)
        ms = kills[p]
        if not ms or not facts:
            return facts
        return frozenset(f for f in facts if not reads_state_of(f, ms))

    IN = Facts()
    IN.fn, IN.ev = fn, ev
    IN[0] = frozenset()
    order = fn.rpo()
    changed = True
    while changed:
        changed = False
        for b in order:
            if live is not None and b not in live:
                continue
            if b == 0:
                continue
            acc = None
            for p in fn.pred(b):
                if p not in IN:
                    continue
                if live is not None and p not in live:
                    continue
                # a switch folded under the current assumptions only takes its live edge
                s = out_of(p, IN[p]) | frozenset(ef.get((p, b), ()))
                acc = s if acc is None else (acc & s)
            if acc is None:
                continue
            if IN.get(b) != acc:
                IN[b] = acc
                changed = True
    return IN


CMP_NEG = {"Lt": "Ge", "Le": "Gt", "Gt": "Le", "Ge": "Lt", "Eq": "Ne", "Ne": "Eq"}
CMP_SWAP = {"Lt": "Gt", "Le": "Ge", "Gt": "Lt", "Ge": "Le", "Eq": "Eq", "Ne": "Ne"}


def relational(fact):
    """Translate a branch fact into canonical relations [(op, a, b)] with op in Lt/Le/Eq/Ne (a op b), looking through
    `Not`, comparison terms, PartialEq/PartialOrd calls and is_some/is_none/is_ok/is_err/is_empty predicates."""
    kind, term, val = fact
    truth = None
    if kind == "eq" and isinstance(val, bool):
        truth = val
    elif kind == "ne" and isinstance(val, bool):
        truth = not val
    out = []
    if truth is None:
        if kind == "eq":
            out.append(("Eq", term, ("int", val)))
        else:
            out.append(("Ne", term, ("int", val)))
        # `cond.then(|| ..)` / `cond.then_some(..)` is Some exactly when cond holds; `opt.flatten()` is Some only if opt is Some
        if isinstance(term, tuple) and term and term[0] == "discr" and isinstance(val, int) and not isinstance(val, bool):
            some = (val == 1) if kind == "eq" else (val == 0)
            x = values.strip_payload(term[1])
            for _ in range(3):
                if isinstance(x, tuple) and x and x[0] == "call" and values.strip_generics(x[1]).split("::")[-1] == "flatten" and "option::Option" in x[1] and x[2] and some:
                    x = values.strip_payload(x[2][0])
                    continue
                break
            if isinstance(x, tuple) and x and x[0] == "call" and values.strip_generics(x[1]).split("::")[-1] in ("then", "then_some") and "bool" in x[1] and x[2] \
                    and (some or x is values.strip_payload(term[1])):
                out.extend(relational(("eq", x[2][0], bool(some))))
        return out
    t = term
    while isinstance(t, tuple) and t[0] == "un" and t[1] == "Not":
        t = t[2]
        truth = not truth
    if isinstance(t, tuple) and t and t[0] == "phi" and truth:
        # `a && b` lowered to a value: phi(false, b) is true only through b
        nz = [x for x in t[1] if x != ("int", 0)]
        if len(nz) == 1 and len(nz) < len(t[1]):
            return relational(("eq", nz[0], True))
    if isinstance(t, tuple) and t and t[0] == "phi" and not truth:
        # `!present || b` lowered to a value: phi(true, b) is false only through b
        nt = [x for x in t[1] if x != ("int", 1)]
        if len(nt) == 1 and len(nt) < len(t[1]):
            return relational(("eq", nt[0], False))
    if isinstance(t, tuple) and t[0] == "bin" and t[1] in CMP_NEG:
        op = t[1] if truth else CMP_NEG[t[1]]
        a, b = t[2], t[3]
        if op in ("Gt", "Ge"):
            op, a, b = CMP_SWAP[op], b, a
        out.append((op, a, b))
        return out
    if isinstance(t, tuple) and t[0] == "call":
        p = values.strip_generics(t[1]) if hasattr(values, "strip_generics") else t[1]
        name = p.split("::")[-1]
        args = t[2]
        cmpmap = {"eq": "Eq", "ne": "Ne", "lt": "Lt", "le": "Le", "gt": "Gt", "ge": "Ge"}
        if name in cmpmap and len(args) == 2:
            op = cmpmap[name] if truth else CMP_NEG[cmpmap[name]]
            a, b = args
            if op in ("Gt", "Ge"):
                op, a, b = CMP_SWAP[op], b, a
            out.append((op, a, b))
            return out
        if name in ("is_some", "is_ok", "is_none", "is_err", "is_empty") and args:
            pos = truth if name in ("is_some", "is_ok", "is_empty") else not truth
            base = {"is_none": "is_some", "is_err": "is_ok"}.get(name, name)
            out.append(("Pred" if pos else "NotPred", base, args[0]))
            g = values.strip_payload(args[0])
            if base == "is_some" and isinstance(g, tuple) and g and g[0] == "call" and values.strip_generics(g[1]).endswith("slice::get") and len(g[2]) == 2 \
                    and not (isinstance(g[2][1], tuple) and g[2][1] and g[2][1][0] == "agg"):
                # `v.get(i).is_some()` is `i < v.len()`, `v.get(i).is_none()` is `v.len() <= i`
                out.append(("Lt", g[2][1], ("len", g[2][0])) if pos else ("Le", ("len", g[2][0]), g[2][1]))
            return out
    out.append(("True" if truth else "False", t, None))
    return out


def facts_at(IN, b):
    base = IN.get(b, frozenset())
    if isinstance(IN, Facts) and b in IN:
        return base | IN.correlated(b)
    return base


def rel_facts_at(IN, b):
    out = []
    for f in facts_at(IN, b):
        out.extend(relational(f))
    return out


def variant_of_rvalue(rv):
    """Variant name when an rvalue is an enum aggregate construction, else None."""
    if rv["k"] == "agg" and rv.get("ak") == "adt" and "vname" in rv:
        return rv["vname"]
    return None


def correlated_facts(fn, ev, IN, b, ef=None):
    """Value-correlation refinement: when a branch fact at block b says `discriminant(L) == k` for a local L with several
    reaching definitions of which only one can have variant k (the others construct a different variant), every path
    reaching b came through that definition, so the facts that held there hold at b as well (state-reading facts
    excluded)."""
    out = set()
    ef = ef if ef is not None else edge_facts(fn, ev)
    for bl in fn.blocks:
        s = bl.idx
        t = bl.term
        if t["k"] != "switch" or not fn.dominates(s, b) or s == b:
            continue
        # operand defined by `discriminant(place)` in the same block
        pl = t["op"].get("cp") or t["op"].get("mv")
        if pl is None or pl.get("p"):
            continue
        dl = None
        variants = None
        for st in bl.stmts:
            if st["k"] == "assign" and st["dst"]["l"] == pl["l"] and st["rv"]["k"] == "discr" and not st["rv"]["place"].get("p"):
                dl = st["rv"]["place"]["l"]
                variants = {v: n for v, n in st["rv"].get("variants", [])}
        if dl is None or not variants:
            continue
        # which edge of this switch dominates b?
        for val, tgt in t["cases"]:
            if tgt == t["otherwise"]:
                continue
            if not (fn.dominates(tgt, b) and len([p for p in fn.pred(tgt) if not fn.dominates(tgt, p)]) == 1):
                continue
            vname = variants.get(val)
            if vname is None:
                continue
            defs, entry = ev.reaching(dl, (s, "term"))
            # look through plain moves and `Try::branch` (whose result has the variant index of its argument) to the local that is
            # assigned the differing variants, as happens when a Result-returning helper was inlined and `?` applied to its value
            for _hop in range(4):
                if entry or len(defs) != 1:
                    break
                (db0, di0, kind0) = next(iter(defs))
                src = None
                if di0 == "term":
                    tt0 = fn.blocks[db0].term
                    if tt0["k"] == "call" and (tt0["fn"].get("trait_method") in ("branch", "clone") or tt0["fn"].get("path", "").split("::")[-1] in ("branch", "clone")) and tt0["args"]:
                        a0 = tt0["args"][0].get("mv") or tt0["args"][0].get("cp")
                        if a0 and not a0.get("p"):
                            src = (a0["l"], (db0, "term"))
                else:
                    rv0 = fn.blocks[db0].stmts[di0]["rv"]
                    if rv0["k"] == "use":
                        a0 = rv0["op"].get("mv") or rv0["op"].get("cp")
                        if a0 and not a0.get("p"):
                            src = (a0["l"], (db0, di0))
                if src is None:
                    break
                defs, entry = ev.reaching(src[0], src[1])
            if entry or len(defs) < 2:
                continue
            cands = []
            for (db, di, kind) in defs:
                if di == "term":
                    tt1 = fn.blocks[db].term
                    if tt1["k"] == "call" and tt1["fn"].get("path", "").split("::")[-1] == "from_residual" and tt1.get("dst") and not tt1["dst"].get("p"):
                        # `?` propagating a failure: the value built is the failure variant (Err = 1 for Result, None = 0 for Option)
                        rty = fn.locals[tt1["dst"]["l"]]["ty"]
                        resid = 1 if "result::Result" in rty.split("<")[0] else (0 if "option::Option" in rty.split("<")[0] else None)
                        if resid is not None and resid != val:
                            continue
                    cands.append((db, di))
                    continue
                rv1 = fn.blocks[db].stmts[di]["rv"]
                vn = variant_of_rvalue(rv1)
                # compare by variant index: after `?` the matched enum is ControlFlow (Continue/Break) while the value was built as Ok/Err
                if vn is None or vn == vname or (rv1.get("variant") == val and vn not in variants.values()):
                    cands.append((db, di))
            if len(cands) == 1:
                db = cands[0][0]
                for f in IN.get(db, frozenset()):
                    if not reads_state_of(f, [("any",)]) and not _reads_any_state(f):
                        out.add(f)
    return out


def _reads_any_state(fact):
    stack = [fact[1]]
    while stack:
        s = stack.pop()
        if not (isinstance(s, tuple) and s):
            continue
        if not isinstance(s[0], str):
            stack.extend(x for x in s if isinstance(x, tuple))
            continue
        if s[0] == "call" or (s[0] == "len" and len(s) == 3):
            continue
        if s[0] in ("index", "idx") or (s[0] == "field" and not _stable_root(s)) or (s[0] == "len" and len(s) == 2 and not _stable_root(s[1])):
            return True
        stack.extend(x for x in s[1:] if isinstance(x, tuple))
    return False


def _stable_root(t):
    # conservative: only plain parameters that are not mutable references are certainly stable; callers that need
    # precision use site-tagged snapshots
    while isinstance(t, tuple) and t and t[0] in ("field", "vfield", "variant"):
        t = t[1]
    # a call result is a value snapshot (a shared borrow handed out by the callee cannot be mutated while it is alive)
    return isinstance(t, tuple) and t and t[0] in ("param", "call")


def path_conditions(fn, ev, IN, b, ef=None):
    """Path conditions under which block b is entered, one per incoming edge (a block entered from several branch edges, as in the lowering
    of `a || b` or of a range pattern, keeps one condition per edge instead of their intersection): [(pred, [relational facts])]."""
    ef = ef if ef is not None else edge_facts(fn, ev)
    out = []
    preds = [p for p in fn.pred(b) if p in IN]
    if len(preds) <= 1:
        return [(preds[0] if preds else None, rel_facts_at(IN, b))]
    for p in preds:
        ms = mutated_bases(fn, ev, p)
        fs = [f for f in IN[p] if not (ms and reads_state_of(f, ms))] + list(ef.get((p, b), ()))
        rels = []
        for f in fs:
            rels.extend(relational(f))
        out.append((p, rels))
    return out


LOG_MARKERS = ("log::max_level", "log::STATIC_MAX_LEVEL", "log::Level", "log::LevelFilter", "__private_api")


def _is_log_term(t):
    return values.contains(t, lambda x: isinstance(x, tuple) and x and ((x[0] == "call" and any(m in x[1] for m in LOG_MARKERS)) or
                                                                         (x[0] in ("agg", "enum", "static") and any(m in str(x[1]) for m in LOG_MARKERS))))


def arm_entry(fn, ev, b):
    """The block at which the branch arm containing b begins: walks back over straight-line code and over the diamonds that `log` macros
    expand to (`if level <= max_level() { .. }`), so that the guard of an arm is the program's own condition and not a logging check."""
    cur = b
    for _ in range(40):
        preds = fn.pred(cur)
        if not preds:
            return cur
        if len(preds) == 1:
            p = preds[0]
            t = fn.blocks[p].term
            if t["k"] == "switch":
                c = ev.op(t["op"], (p, "term"))
                if not _is_log_term(c):
                    return cur
            cur = p
            continue
        d = fn.idom().get(cur)
        if d is None or d == cur:
            return cur
        # is the region between d and cur only logging?
        region = set()
        stack = list(preds)
        ok = True
        while stack:
            n = stack.pop()
            if n == d or n in region:
                continue
            if not fn.dominates(d, n):
                ok = False
                break
            region.add(n)
            stack.extend(fn.pred(n))
        if not ok:
            return cur
        for n in list(region) + [d]:
            t = fn.blocks[n].term
            if t["k"] == "switch" and (n != d or True):
                c = ev.op(t["op"], (n, "term"))
                if n in region or n == d:
                    if not _is_log_term(c) and not (n == d and False):
                        if n == d:
                            # d itself branches on the program's condition: the arm starts right after it
                            return cur if not all(_is_log_term(ev.op(fn.blocks[m].term["op"], (m, "term"))) for m in region if fn.blocks[m].term["k"] == "switch") else cur
                        ok = False
        if not ok:
            return cur
        td = fn.blocks[d].term
        if td["k"] == "switch" and not _is_log_term(ev.op(td["op"], (d, "term"))):
            return cur
        cur = d
    return cur
