"""Program model over the extracted MIR facts: functions, CFG, dominators, loops, call graph."""
import re
from collections import defaultdict, deque


class Block:
    __slots__ = ("idx", "stmts", "term", "cleanup")

    def __init__(self, idx, j):
        self.idx = idx
        self.stmts = j["stmts"]
        self.term = j["term"]
        self.cleanup = bool(j.get("cleanup"))


class Fn:
    def __init__(self, path, j, crate):
        self.path = path
        self.j = j
        self.crate = crate
        self.file = j["file"]
        self.line = j["line"]
        self.line_hi = j.get("line_hi", j["line"])
        self.kind = j["kind"]
        self.parent = j.get("parent")
        self.vis = j.get("vis")
        self.nargs = j["nargs"]
        self.locals = j["locals"]
        self.blocks = [Block(i, b) for i, b in enumerate(j["blocks"])]
        self.impl_self = j.get("impl_self")
        self.impl_trait = j.get("impl_trait")
        self.derived = bool(j.get("derived"))
        self.upvars = j.get("upvars", [])
        self._succ = None
        self._pred = None
        self._idom = None
        self._pidom = None
        self._loops = None
        self._defs = None
        self._reach = None
        self._rel = None

    # ---- variant-aware reachability: paths on which a local known to hold enum variant k is later matched as another variant are infeasible
    def feasible_reach(self, start, targets, removed_edges=(), start_state=None):
        """Is one of `targets` reachable from block `start` along normal edges, not using `removed_edges`, on a path that is consistent with
        the enum variants / boolean constants assigned on the way?  (See feasible_walk.)"""
        targets = set(targets)
        hit = []
        self.feasible_walk(start, removed_edges, start_state, stop=lambda b, first: (b in targets and not first) and hit.append(b) is None)
        return bool(hit)

    def feasible_walk(self, start=0, removed_edges=(), start_state=None, decide=None, stop=None, untracked=()):
        """Blocks reachable from `start` on paths that are consistent with what the path itself assigned: tracks `local = Variant(..)`
        aggregates and `local = const bool/int` through plain moves and `Try::branch`/clone, and prunes the edges of
        `switch discriminant(local)` / `switch local` that contradict the tracked value (this is what makes an inlined `helper()?` or
        `if !helper()` precise).  decide(block) may force the successor list of a switch (branch folding under an environment)."""
        removed = set(removed_edges)
        init = frozenset((start_state or {}).items())
        seen = {(start, init)}
        stack = [(start, init, True)]
        blocks = set()
        steps = 0
        rel = self._relevant_locals() - set(untracked)
        while stack:
            b, st, first = stack.pop()
            steps += 1
            if steps > 40000:
                return set(range(len(self.blocks)))
            blocks.add(b)
            if stop is not None and stop(b, first):
                return blocks
            known = dict(st)
            dsrc = {}
            for s in self.blocks[b].stmts:
                if s["k"] != "assign":
                    continue
                d = s["dst"]
                rv = s["rv"]
                if d.get("p"):
                    if any(isinstance(x, str) and x == "deref" for x in d["p"]):
                        continue
                    known.pop(d["l"], None)
                    continue
                if rv["k"] == "agg" and rv.get("ak") == "adt" and "variant" in rv:
                    known[d["l"]] = rv["variant"]
                elif rv["k"] == "use" and "c" in rv["op"] and isinstance(rv["op"]["c"].get("int"), int) and not isinstance(rv["op"]["c"].get("int"), bool):
                    known[d["l"]] = rv["op"]["c"]["int"]
                elif rv["k"] == "use" and (rv["op"].get("mv") or rv["op"].get("cp")) and not (rv["op"].get("mv") or rv["op"].get("cp")).get("p"):
                    src = (rv["op"].get("mv") or rv["op"].get("cp"))["l"]
                    if src in known:
                        known[d["l"]] = known[src]
                    else:
                        known.pop(d["l"], None)
                elif rv["k"] == "unop" and rv.get("op") == "Not" and (rv["a"].get("mv") or rv["a"].get("cp")) and not (rv["a"].get("mv") or rv["a"].get("cp")).get("p") \
                        and (rv["a"].get("mv") or rv["a"].get("cp"))["l"] in known and self.locals[d["l"]]["ty"] == "bool":
                    known[d["l"]] = 1 - known[(rv["a"].get("mv") or rv["a"].get("cp"))["l"]]
                elif rv["k"] == "discr" and not rv["place"].get("p"):
                    dsrc[d["l"]] = rv["place"]["l"]
                    known.pop(d["l"], None)
                else:
                    known.pop(d["l"], None)
            t = self.blocks[b].term
            succs = self.succ(b)
            if t["k"] == "call" and t.get("dst") and not t["dst"].get("p"):
                nm = t["fn"].get("trait_method") or t["fn"].get("path", "").split("::")[-1]
                a0 = (t["args"][0].get("mv") or t["args"][0].get("cp")) if t["args"] else None
                if nm in ("branch", "clone") and a0 and not a0.get("p") and a0["l"] in known:
                    known[t["dst"]["l"]] = known[a0["l"]]
                else:
                    known.pop(t["dst"]["l"], None)
            if t["k"] == "switch":
                op = t["op"].get("mv") or t["op"].get("cp")
                v = None
                if op and not op.get("p"):
                    if op["l"] in dsrc and dsrc[op["l"]] in known:
                        v = known[dsrc[op["l"]]]
                    elif op["l"] in known:
                        v = known[op["l"]]
                if v is not None:
                    tg = [c[1] for c in t["cases"] if c[0] == v]
                    succs = tg[:1] if tg else [t["otherwise"]]
                elif decide is not None:
                    forced = decide(b)
                    if forced is not None:
                        succs = forced
            nst = frozenset((k, v2) for k, v2 in known.items() if k in rel)
            for s2 in succs:
                if (b, s2) in removed:
                    continue
                key = (s2, nst)
                if key not in seen:
                    seen.add(key)
                    stack.append((s2, nst, False))
        return blocks

    def _relevant_locals(self):
        """Locals whose tracked value can decide a switch: switch operands, discriminant sources, and what flows into them by plain moves,
        `!x`, `Try::branch` / clone."""
        if getattr(self, "_rel", None) is not None:
            return self._rel
        rel = set()
        flows = []   # (dst, src)
        for bl in self.blocks:
            for s in bl.stmts:
                if s["k"] != "assign" or s["dst"].get("p"):
                    continue
                rv = s["rv"]
                d = s["dst"]["l"]
                if rv["k"] == "discr" and not rv["place"].get("p"):
                    flows.append((d, rv["place"]["l"]))
                elif rv["k"] == "use":
                    o = rv["op"].get("mv") or rv["op"].get("cp")
                    if o and not o.get("p"):
                        flows.append((d, o["l"]))
                elif rv["k"] == "unop" and rv.get("op") == "Not":
                    o = rv["a"].get("mv") or rv["a"].get("cp")
                    if o and not o.get("p"):
                        flows.append((d, o["l"]))
            t = bl.term
            if t["k"] == "switch":
                o = t["op"].get("mv") or t["op"].get("cp")
                if o and not o.get("p"):
                    rel.add(o["l"])
            if t["k"] == "call" and t.get("dst") and not t["dst"].get("p") and t["args"]:
                nm = t["fn"].get("trait_method") or t["fn"].get("path", "").split("::")[-1]
                o = t["args"][0].get("mv") or t["args"][0].get("cp")
                if nm in ("branch", "clone") and o and not o.get("p"):
                    flows.append((t["dst"]["l"], o["l"]))
        changed = True
        while changed:
            changed = False
            for d, s0 in flows:
                if d in rel and s0 not in rel:
                    rel.add(s0)
                    changed = True
        self._rel = rel
        return rel

    def return_locals(self):
        """Locals whose value becomes the return value by plain moves (`_0 = move _x`), including _0 itself: where a helper was inlined, its own
        return place is such a local."""
        if getattr(self, "_retl", None) is None:
            r = {0}
            changed = True
            while changed:
                changed = False
                for bl in self.blocks:
                    for st in bl.stmts:
                        if st["k"] == "assign" and not st["dst"].get("p") and st["dst"]["l"] in r and st["rv"]["k"] == "use":
                            o = st["rv"]["op"].get("mv") or st["rv"]["op"].get("cp")
                            if o and not o.get("p") and o["l"] not in r and self.locals[o["l"]]["ty"] == self.locals[0]["ty"]:
                                r.add(o["l"])
                                changed = True
            self._retl = r
        return self._retl

    def is_return_assign(self, st, vname):
        """statement `ret = Variant(..)` where ret is the return place or a local moved into it"""
        return st["k"] == "assign" and not st["dst"].get("p") and st["dst"]["l"] in self.return_locals() and st["rv"]["k"] == "agg" and st["rv"].get("vname") == vname

    # ---- names
    def local_name(self, l):
        return self.locals[l].get("name")

    def local_ty(self, l):
        return self.locals[l]["ty"]

    def local_by_name(self, name):
        return [i for i, l in enumerate(self.locals) if l.get("name") == name]

    @property
    def short(self):
        return self.path

    # ---- CFG (normal edges only unless unwind=True)
    def term_targets(self, t, unwind=False):
        k = t["k"]
        out = []
        if k == "goto":
            out = [t["tgt"]]
        elif k == "switch":
            out = [c[1] for c in t["cases"]] + [t["otherwise"]]
        elif k in ("drop", "assert"):
            out = [t["tgt"]]
        elif k == "call":
            if t["tgt"] is not None:
                out = [t["tgt"]]
        if unwind and k in ("drop", "assert", "call") and isinstance(t.get("unw"), int):
            out.append(t["unw"])
        return out

    def succ(self, b, unwind=False):
        if unwind:
            return self.term_targets(self.blocks[b].term, True)
        if self._succ is None:
            self._succ = [list(dict.fromkeys(self.term_targets(bl.term))) for bl in self.blocks]
        return self._succ[b]

    def pred(self, b):
        if self._pred is None:
            self._pred = [[] for _ in self.blocks]
            live = self.reachable()
            for bl in self.blocks:
                if bl.idx not in live:
                    continue        # blocks cut off by constant / infallible-arm pruning are nobody's predecessor
                for s in self.succ(bl.idx):
                    self._pred[s].append(bl.idx)
        return self._pred[b]

    def reachable(self):
        """Blocks reachable from entry along normal edges."""
        if self._reach is None:
            seen = {0}
            dq = deque([0])
            while dq:
                b = dq.popleft()
                for s in self.succ(b):
                    if s not in seen:
                        seen.add(s)
                        dq.append(s)
            self._reach = seen
        return self._reach

    def rpo(self):
        seen = set()
        order = []

        def dfs(b):
            stack = [(b, iter(self.succ(b)))]
            seen.add(b)
            while stack:
                n, it = stack[-1]
                adv = False
                for s in it:
                    if s not in seen:
                        seen.add(s)
                        stack.append((s, iter(self.succ(s))))
                        adv = True
                        break
                if not adv:
                    order.append(n)
                    stack.pop()

        dfs(0)
        order.reverse()
        return order

    def idom(self):
        if self._idom is None:
            order = self.rpo()
            pos = {b: i for i, b in enumerate(order)}
            idom = {0: 0}
            changed = True
            while changed:
                changed = False
                for b in order[1:]:
                    ps = [p for p in self.pred(b) if p in idom]
                    if not ps:
                        continue
                    new = ps[0]
                    for p in ps[1:]:
                        a, c = new, p
                        while a != c:
                            while pos[a] > pos[c]:
                                a = idom[a]
                            while pos[c] > pos[a]:
                                c = idom[c]
                        new = a
                    if idom.get(b) != new:
                        idom[b] = new
                        changed = True
            self._idom = idom
        return self._idom

    def dominates(self, a, b):
        """a dominates b (reflexive) on the normal CFG."""
        idom = self.idom()
        if b not in idom or a not in idom:
            return False
        while True:
            if a == b:
                return True
            if b == 0:
                return False
            b = idom[b]

    def exits(self):
        return [bl.idx for bl in self.blocks if bl.term["k"] == "return" and bl.idx in self.reachable()]

    def diverging(self):
        """Blocks (reachable) from which no `return` is reachable along normal edges."""
        can = set(self.exits())
        dq = deque(can)
        while dq:
            b = dq.popleft()
            for p in self.pred(b):
                if p not in can:
                    can.add(p)
                    dq.append(p)
        return {b for b in self.reachable() if b not in can}

    def postdominates(self, a, b):
        """a post-dominates b: every normal path from b to a return passes through a (paths into diverging
        regions are ignored)."""
        if a == b:
            return True
        # remove a and see whether a return is reachable from b
        seen = {b}
        dq = deque([b])
        while dq:
            n = dq.popleft()
            if self.blocks[n].term["k"] == "return":
                return False
            for s in self.succ(n):
                if s != a and s not in seen:
                    seen.add(s)
                    dq.append(s)
        return True

    def counted_loop(self, L):
        """A loop driven by an integer counter: returns dict(counter, step (+1/-1), init (block, stmt index of the one definition outside the
        loop), test (block of the exit test), cmp (op with the counter on the left), bound (operand dict or None), update (block)) when
        * one exit of the loop is a switch, in a block that every iteration passes, on `counter <cmp> bound` with bound a constant or a place that is
          not a local assigned in the loop,
        * the counter has exactly one definition outside the loop, which dominates the header, and inside the loop only `counter = counter +- 1`
          (checked arithmetic included), in one block that every iteration passes and that is in no inner loop.
        None otherwise."""
        body, h = L["body"], L["header"]
        back = [s for (s, d) in L["backedges"]]
        defs = self.defs()
        SWAP = {"Lt": "Gt", "Le": "Ge", "Gt": "Lt", "Ge": "Le", "Ne": "Ne", "Eq": "Eq"}

        def copy_src(b, l, depth=0):
            """local l in block b is a plain copy of another local (within the same block): return the source local"""
            for st in reversed(self.blocks[b].stmts):
                if st["k"] == "assign" and st["dst"]["l"] == l and not st["dst"].get("p"):
                    rv = st["rv"]
                    if rv["k"] == "use":
                        o = rv["op"].get("cp") or rv["op"].get("mv")
                        if o and not o.get("p") and depth < 4:
                            return copy_src(b, o["l"], depth + 1)
                    return l
            return l

        for (s, d) in L["exits"]:
            t = self.blocks[s].term
            if t["k"] != "switch" or not all(self.dominates(s, x) for x in back):
                continue
            o = t["op"].get("mv") or t["op"].get("cp")
            if not o or o.get("p"):
                continue
            cmpst = [st for st in self.blocks[s].stmts if st["k"] == "assign" and st["dst"]["l"] == o["l"] and st["rv"]["k"] == "binop" and st["rv"]["op"] in SWAP]
            if not cmpst:
                continue
            rv = cmpst[-1]["rv"]
            for side, other, op in (("a", "b", rv["op"]), ("b", "a", SWAP[rv["op"]])):
                co = rv[side].get("cp") or rv[side].get("mv")
                if not co or co.get("p"):
                    continue
                c = copy_src(s, co["l"])
                ds = [x for x in defs.get(c, []) if x[0] in self.reachable()]
                outside = [x for x in ds if x[0] not in body]
                inside = [x for x in ds if x[0] in body]
                if len(outside) != 1 or not inside or any(k != "whole" or i == "term" for (b, i, k) in ds) or not self.dominates(outside[0][0], h):
                    continue
                step = None
                upd = None
                ok = True
                for (b, i, k) in inside:
                    r2 = self.blocks[b].stmts[i]["rv"]
                    st_ = None
                    if r2["k"] == "binop" and r2["op"] in ("Add", "Sub"):
                        src, cst, opn = r2["a"], r2["b"], r2["op"]
                    elif r2["k"] == "use" and (r2["op"].get("mv") or r2["op"].get("cp")) and (r2["op"].get("mv") or r2["op"].get("cp")).get("p"):
                        o2 = r2["op"].get("mv") or r2["op"].get("cp")
                        pj = o2["p"]
                        tds = [x for x in defs.get(o2["l"], []) if x[0] in self.reachable()]
                        if len(pj) != 1 or not isinstance(pj[0], dict) or pj[0].get("f") != 0 or len(tds) != 1 or tds[0][1] == "term":
                            ok = False
                            break
                        r3 = self.blocks[tds[0][0]].stmts[tds[0][1]]["rv"]
                        if r3["k"] != "binop" or r3["op"] not in ("AddWithOverflow", "SubWithOverflow"):
                            ok = False
                            break
                        src, cst, opn = r3["a"], r3["b"], r3["op"].replace("WithOverflow", "")
                    else:
                        ok = False
                        break
                    so = src.get("cp") or src.get("mv")
                    if not so or so.get("p") or copy_src(b, so["l"]) != c or cst.get("c", {}).get("int") != 1:
                        ok = False
                        break
                    st_ = 1 if opn == "Add" else -1
                    if step not in (None, st_) or upd not in (None, b):
                        ok = False
                        break
                    step, upd = st_, b
                if not ok or step is None or not all(self.dominates(upd, x) for x in back) or any(upd in L2["body"] and L2["header"] != h and L2["body"] < body for L2 in self.loops()):
                    continue
                bo = rv[other]
                bl_ = bo.get("cp") or bo.get("mv")
                if "c" not in bo:
                    if not bl_:
                        continue
                    root = copy_src(s, bl_["l"]) if not bl_.get("p") else bl_["l"]
                    if any(x[0] in body for x in defs.get(root, [])) and not (not bl_.get("p") and root != bl_["l"]):
                        # the bound is re-read each time round (a copy of a field): fine as long as it is a copy made in the test block
                        if any(x[0] in body and x[0] != s for x in defs.get(root, [])):
                            continue
                stay = [x for x in self.succ(s) if x in body]
                if not stay:
                    continue
                nz = t["otherwise"] if all(cv == 0 for cv, _ in t["cases"]) else None
                if nz is None:
                    continue
                return {"counter": c, "step": step, "init": (outside[0][0], outside[0][1]), "test": s, "cmp": op, "bound": bo, "update": upd, "exit": d,
                        "stay_when_true": nz in body}
        return None

    def control_deps(self, b):
        """Switch blocks that `b` is control-dependent on: one arm always leads to b, another can reach a return without it."""
        out = []
        div = self.diverging()
        for s in sorted(self.reachable()):
            if self.blocks[s].term["k"] != "switch" or s in div:
                continue
            succ = [x for x in self.succ(s) if x not in div]
            if len(succ) < 2:
                continue
            pd = [self.postdominates(b, x) for x in succ]
            if any(pd) and not all(pd):
                out.append(s)
        return out

    def loops(self):
        """Natural loops: list of dict(header, body(set), backedges[(src,header)], exits[(src,dst)])."""
        if self._loops is None:
            loops = {}
            for b in self.reachable():
                for s in self.succ(b):
                    if self.dominates(s, b):
                        body = loops.setdefault(s, {"header": s, "body": {s}, "backedges": []})
                        body["backedges"].append((b, s))
                        stack = [b]
                        while stack:
                            n = stack.pop()
                            if n not in body["body"]:
                                body["body"].add(n)
                                stack.extend(self.pred(n))
            out = []
            for h, l in loops.items():
                ex = []
                for n in l["body"]:
                    for s in self.succ(n):
                        if s not in l["body"] and self.blocks[s].term["k"] != "unreachable":
                            ex.append((n, s))
                l["exits"] = ex
                out.append(l)
            self._loops = out
        return self._loops

    def in_loop(self, b):
        return [l for l in self.loops() if b in l["body"]]

    def reaches(self, a, b, avoid=()):
        """Is b reachable from a (a != b needs at least one edge; a == b needs a cycle) on normal edges."""
        seen = set()
        dq = deque(self.succ(a))
        while dq:
            n = dq.popleft()
            if n in avoid or n in seen:
                continue
            if n == b:
                return True
            seen.add(n)
            dq.extend(self.succ(n))
        return False

    # ---- statements / definitions
    def calls(self, reachable_only=True):
        for bl in self.blocks:
            if reachable_only and bl.idx not in self.reachable():
                continue
            if bl.term["k"] == "call":
                yield bl.idx, bl.term

    def all_calls_incl_cleanup(self):
        for bl in self.blocks:
            if bl.term["k"] == "call":
                yield bl.idx, bl.term

    def defs(self):
        """local -> list of (bb, idx|'term', kind) where kind in whole|partial|borrow_mut|call|callarg_mut"""
        if self._defs is None:
            d = defaultdict(list)
            for bl in self.blocks:
                for i, st in enumerate(bl.stmts):
                    if st["k"] == "assign":
                        dst = st["dst"]
                        if not dst.get("p"):
                            d[dst["l"]].append((bl.idx, i, "whole"))
                        elif "deref" not in dst["p"]:
                            d[dst["l"]].append((bl.idx, i, "partial"))
                        rv = st["rv"]
                        if rv["k"] == "ref" and rv.get("mut") and "deref" not in rv["place"].get("p", []):
                            d[rv["place"]["l"]].append((bl.idx, i, "borrow_mut"))
                        if rv["k"] == "rawptr" and "deref" not in rv["place"].get("p", []):
                            d[rv["place"]["l"]].append((bl.idx, i, "borrow_mut"))
                    elif st["k"] == "setdiscr" and "deref" not in st["dst"].get("p", []):
                        d[st["dst"]["l"]].append((bl.idx, i, "partial"))
                t = bl.term
                if t["k"] == "call":
                    dst = t["dst"]
                    if not dst.get("p"):
                        d[dst["l"]].append((bl.idx, "term", "whole"))
                    elif "deref" not in dst["p"]:
                        d[dst["l"]].append((bl.idx, "term", "partial"))
            self._defs = d
        return self._defs

    def is_object(self, l):
        """Local whose own storage is mutated in place (field writes or &mut borrows)."""
        return any(k in ("partial", "borrow_mut") for (_, _, k) in self.defs().get(l, []))

    def loc(self, bb, idx=None):
        bl = self.blocks[bb]
        if idx is None or idx == "term":
            return "%s:%d" % (self.file, bl.term.get("line", self.line))
        return "%s:%d" % (self.file, bl.stmts[idx].get("line", self.line))


def callee_path(t):
    f = t["fn"]
    return f.get("path") or f.get("orig") or "<indirect>"


def strip_generics(p):
    """std::vec::Vec::<T>::push -> std::vec::Vec::push (for table lookups)."""
    out = []
    depth = 0
    i = 0
    while i < len(p):
        c = p[i]
        if c == "<" and i >= 2 and p[i - 2:i] == "::":
            # turbofish-like generic args `::<...>`
            depth += 1
            out = out[:-2]
        elif c == "<" and depth > 0:
            depth += 1
        elif c == ">" and depth > 0:
            depth -= 1
        elif depth == 0:
            out.append(c)
        i += 1
    return "".join(out)


def load_reference_functions():
    import json
    import os
    p = os.path.join(os.path.dirname(os.path.dirname(os.path.abspath(__file__))), "reference_functions.json")
    if not os.path.exists(p):
        return None
    with open(p) as fh:
        return set(json.load(fh)["functions"])


def _remap(x, lo):
    """Deep copy of a statement/terminator/operand with every local number shifted by lo."""
    if isinstance(x, dict):
        out = {}
        for k, v in x.items():
            if k in ("l", "idx") and isinstance(v, int) and not isinstance(v, bool):
                out[k] = v + lo
            else:
                out[k] = _remap(v, lo)
        return out
    if isinstance(x, list):
        return [_remap(v, lo) for v in x]
    return x


def inline_call(fj, b, cj, cpath=None):
    """Return a copy of function json fj in which the call terminating block b is replaced by the body of callee json cj.  Every copied block
    keeps where it came from (`origin` on its terminator: helper path, block number in the helper), so that the copies of one helper site in several
    callers can be recognised as the same site."""
    import copy
    nj = dict(fj)
    blocks = [dict(x) for x in fj["blocks"]]
    locals_ = list(fj["locals"])
    lo = len(locals_)
    bo = len(blocks)
    call = blocks[b]["term"]
    tgt = call.get("tgt")
    unw = call.get("unw")
    for i, l in enumerate(cj["locals"]):
        l2 = dict(l)
        if l2.get("name") and i <= cj["nargs"]:
            l2["name"] = None if i == 0 else l2.get("name")
        l2["inlined_from"] = cj.get("path_hint", True)
        locals_.append(l2)
    # bind arguments
    stmts = list(blocks[b]["stmts"])
    for i, a in enumerate(call["args"]):
        if i + 1 > cj["nargs"]:
            break
        stmts.append({"k": "assign", "dst": {"l": lo + 1 + i}, "rv": {"k": "use", "op": copy.deepcopy(a)}, "line": call.get("line"), "inline_bind": True})
    blocks[b] = {"stmts": stmts, "term": {"k": "goto", "tgt": bo, "line": call.get("line")}}
    if fj["blocks"][b].get("cleanup"):
        blocks[b]["cleanup"] = True
    for cb in cj["blocks"]:
        nb = {"stmts": [_remap(s, lo) for s in cb["stmts"]]}
        if cb.get("cleanup"):
            nb["cleanup"] = True
        t = _remap(cb["term"], lo)
        k = t["k"]
        if k == "goto":
            t["tgt"] += bo
        elif k == "switch":
            t["cases"] = [[c[0], c[1] + bo] for c in t["cases"]]
            t["otherwise"] += bo
        elif k in ("drop", "assert", "call"):
            if t.get("tgt") is not None:
                t["tgt"] += bo
        if k in ("drop", "assert", "call"):
            if isinstance(t.get("unw"), int) and not isinstance(t.get("unw"), bool):
                t["unw"] += bo
            elif t.get("unw") == "continue" and isinstance(unw, int):
                t["unw"] = unw
        if k == "return":
            if tgt is None:
                t = {"k": "unreachable", "line": t.get("line")}
            else:
                nb["stmts"].append({"k": "assign", "dst": copy.deepcopy(call["dst"]), "rv": {"k": "use", "op": {"mv": {"l": lo}}}, "line": call.get("line"), "inline_ret": True})
                t = {"k": "goto", "tgt": tgt, "line": t.get("line")}
        elif k == "resume" and isinstance(unw, int):
            t = {"k": "goto", "tgt": unw, "line": t.get("line")}
        if cpath is not None and "origin" not in t:
            t["origin"] = [cpath, len(blocks) - bo]
        nb["term"] = t
        blocks.append(nb)
    nj["blocks"] = blocks
    nj["locals"] = locals_
    if cpath is not None:
        sites = list(fj.get("inline_sites", []))
        sites.append({"helper": cpath, "call_block": b, "first_block": bo, "nblocks": len(cj["blocks"]), "local_offset": lo, "nargs": cj["nargs"]})
        nj["inline_sites"] = sites
    return nj


class Program:
    def __init__(self, facts, include=("roughenough-lib", "roughenough_client-bin", "roughenough_kms-bin",
                                        "roughenough_server-bin"), known=None):
        self.facts = facts
        self.fns = {}
        self.adts = {}
        self.items = {}
        self.impls = []
        self.traits = {}
        self.features = []
        for key, f in facts.items():
            if include is not None and key not in include:
                continue
            crate = f["crate"]
            self.features = f.get("features", self.features)
            for p, j in f["fns"].items():
                fn = Fn(p, j, crate)
                self.fns[p] = fn
            self.adts.update(f["adts"])
            for p, it in f["items"].items():
                it = dict(it)
                it["crate"] = crate
                self.items[p] = it
            for im in f["impls"]:
                im = dict(im)
                im["crate"] = crate
                self.impls.append(im)
            self.traits.update(f.get("traits", {}))
        self._trait_impls = defaultdict(list)
        for im in self.impls:
            if im.get("trait"):
                for name, mp in im["methods"].items():
                    self._trait_impls[(im["trait"], name)].append(mp)
        self._callees = {}
        self._callers = None
        # crate-local newtypes `struct N(T);`: values of such a type are treated as their single field
        self.newtypes = {a for a, d in self.adts.items() if d.get("kind") == "struct" and a.startswith("roughenough") and len(d["variants"]) == 1 and
                         len(d["variants"][0]["fields"]) == 1 and d["variants"][0]["fields"][0]["name"] == "0"}
        self.inlined = {}
        self.helper_fns = {}
        if known is None and include is not None:
            known = load_reference_functions()
        if known:
            self.inline_new_helpers(known)
            self._callees = {}
            self._callers = None
        if include is not None:
            self.unroll_array_loops()
            self._callees = {}
            self._callers = None
        if include is not None:
            self.prune_infallible_arms()
            self._callees = {}
            self._callers = None

    # ---- helper functions that did not exist on the reference tree are inlined into their callers, so that rules anchored on the
    #      functions of the reference tree keep seeing the same code after an "extract function" refactoring
    def unroll_array_loops(self, max_len=8, max_body=60):
        """`for x in [a, b, c] { body }` (and `let mut it = [..].into_iter(); while let Some(x) = it.next() { .. }`): the loop over a literal array is
        replaced by its body once per element, in order - what the compiler's own unrolling would produce.  Rules about call sequences
        (update(prefix); update(bytes); sign / add_field in tag order) then see straight-line code again.  Only loops whose iterator is an
        array::IntoIter created from an array literal built in the same function, used for nothing but that loop, are touched."""
        import copy
        self.unrolled = []
        for path in list(self.fns):
            fn = self.fns[path]
            if fn.derived or not any(bl.term["k"] == "call" and ("array::iter" in str(bl.term["fn"].get("path", "")) or "slice::iter::Iter<" in str(bl.term["fn"].get("path", "")))
                                     for bl in fn.blocks) or not fn.loops():
                continue
            for _round in range(6):
                fn = self.fns[path]
                done = False
                defs = fn.defs()
                for L in sorted(fn.loops(), key=lambda l: len(l["body"])):
                    h = L["header"]
                    body = L["body"]
                    t = fn.blocks[h].term
                    npath = str(t["fn"].get("path", "")) if t["k"] == "call" else ""
                    by_ref = "slice::iter::Iter<" in npath
                    if len(body) > max_body or t["k"] != "call" or not npath.endswith("::next") or not ("array::iter::IntoIter" in npath or by_ref):
                        continue
                    if any(l2 is not L and l2["body"] < body for l2 in fn.loops()):
                        continue        # innermost loops first; an outer one is looked at again in the next round

                    def one_def(l):
                        ds = [d for d in defs.get(l, []) if d[0] in fn.reachable() and d[2] == "whole"]
                        return ds[0] if len(ds) == 1 and len([d for d in defs.get(l, []) if d[0] in fn.reachable()]) == 1 else None

                    def ref_target(l, depth=0):
                        """local l holds `&mut X` / `&mut *r`: the local X"""
                        d = one_def(l) if depth == 0 else None
                        ds = [x for x in defs.get(l, []) if x[0] in fn.reachable() and x[2] == "whole" and x[1] != "term"]
                        if not ds or depth > 3:
                            return None
                        outs = set()
                        for (b, i, k) in ds:
                            rv = fn.blocks[b].stmts[i]["rv"]
                            if rv["k"] != "ref":
                                return None
                            pl = rv["place"]
                            pj = [e for e in pl.get("p", [])]
                            if not pj:
                                outs.add(pl["l"])
                            elif pj == ["deref"]:
                                r = ref_target(pl["l"], depth + 1)
                                if r is None:
                                    return None
                                outs.add(r)
                            else:
                                return None
                        return outs.pop() if len(outs) == 1 else None
                    a0 = (t["args"][0].get("mv") or t["args"][0].get("cp")) if t.get("args") else None
                    if not a0 or a0.get("p") or not t.get("dst") or t["dst"].get("p"):
                        continue
                    it = ref_target(a0["l"])
                    if it is None:
                        continue
                    # the iterator: one definition outside the loop, `it = move tmp` / tmp = into_iter(move arr)
                    src = it
                    arr = None
                    for _ in range(4):
                        ds = [d for d in defs.get(src, []) if d[0] in fn.reachable() and not (d[2] == "borrow_mut" and d[0] == h)]
                        if len(ds) != 1 or ds[0][2] != "whole" or ds[0][0] in body:
                            break
                        b0, i0, _k = ds[0]
                        if i0 == "term":
                            ct = fn.blocks[b0].term
                            if ct["k"] == "call" and "array::iter" in str(ct["fn"].get("path", "")) and str(ct["fn"].get("path", "")).endswith("into_iter") and ct.get("args") and not by_ref:
                                o = ct["args"][0].get("mv") or ct["args"][0].get("cp")
                                if o and not o.get("p"):
                                    arr = o["l"]
                            elif ct["k"] == "call" and by_ref and strip_generics(str(ct["fn"].get("path", ""))).endswith("::iter") and "slice" in str(ct["fn"].get("path", "")) and ct.get("args"):
                                # `arr.iter()`: the argument is `&arr` (unsized), arr a local that is never borrowed mutably or partially assigned
                                o = ct["args"][0].get("mv") or ct["args"][0].get("cp")
                                for _h in range(4):
                                    if not o or o.get("p"):
                                        break
                                    d2 = [d for d in defs.get(o["l"], []) if d[0] in fn.reachable()]
                                    if len(d2) != 1 or d2[0][1] == "term":
                                        break
                                    rv2 = fn.blocks[d2[0][0]].stmts[d2[0][1]]["rv"]
                                    if rv2["k"] == "ref" and not rv2.get("mut") and not rv2["place"].get("p"):
                                        a_l = rv2["place"]["l"]
                                        if all(d[2] == "whole" for d in defs.get(a_l, [])):
                                            arr = a_l
                                        break
                                    o = (rv2["op"].get("mv") or rv2["op"].get("cp")) if rv2["k"] in ("use", "cast") else None
                            break
                        rv = fn.blocks[b0].stmts[i0]["rv"]
                        o = (rv["op"].get("mv") or rv["op"].get("cp")) if rv["k"] == "use" else None
                        if not o or o.get("p"):
                            break
                        src = o["l"]
                    if arr is None:
                        continue
                    elems = None
                    for _ in range(3):
                        ds = [d for d in defs.get(arr, []) if d[0] in fn.reachable()]
                        if len(ds) != 1 or ds[0][2] != "whole" or ds[0][1] == "term":
                            break
                        rv = fn.blocks[ds[0][0]].stmts[ds[0][1]]["rv"]
                        if rv["k"] == "agg" and not rv.get("adt") and fn.locals[arr]["ty"].lstrip("&").startswith("["):
                            elems = rv["ops"]
                            break
                        o = (rv["op"].get("mv") or rv["op"].get("cp")) if rv["k"] == "use" else None
                        if not o or o.get("p"):
                            break
                        arr = o["l"]
                    if elems is None or not (1 <= len(elems) <= max_len):
                        continue
                    # every element is a constant or a local that is assigned exactly once (the array is a snapshot taken before the loop)
                    if not all("c" in e or ((e.get("mv") or e.get("cp")) and not (e.get("mv") or e.get("cp")).get("p") and one_def((e.get("mv") or e.get("cp"))["l"])) for e in elems):
                        continue
                    # the iterator is used for nothing else: every mention of `it` is its definition, the borrow for next(), or a drop / storage marker
                    uses_ok = True
                    for bl in fn.blocks:
                        if bl.idx not in fn.reachable():
                            continue
                        for st in bl.stmts:
                            if st["k"] != "assign":
                                continue
                            rv = st["rv"]
                            if rv["k"] == "ref" and rv["place"]["l"] == it and not (bl.idx == h or bl.idx in body):
                                uses_ok = False
                            if rv["k"] == "use" and (rv["op"].get("mv") or rv["op"].get("cp") or {}).get("l") == it:
                                uses_ok = False
                        tt = bl.term
                        if tt["k"] == "call" and any((a.get("mv") or a.get("cp") or {}).get("l") == it for a in tt.get("args", [])):
                            uses_ok = False
                    nexts = [b for b in body if fn.blocks[b].term["k"] == "call" and str(fn.blocks[b].term["fn"].get("path", "")) == npath]
                    sw = t.get("tgt")
                    if not uses_ok or nexts != [h] or sw is None or fn.blocks[sw].term["k"] != "switch" or sw not in body:
                        continue
                    st_ = fn.blocks[sw].term
                    cases = {c[0]: c[1] for c in st_["cases"]}
                    some_t = cases.get(1, st_["otherwise"] if 0 in cases else None)
                    none_t = cases.get(0, st_["otherwise"] if 1 in cases else None)
                    if some_t is None or none_t is None or some_t not in body or none_t in body:
                        continue
                    if any(d not in (none_t,) and fn.blocks[d].term["k"] != "unreachable" and d not in fn.diverging() for (s0, d) in L["exits"] if s0 != sw) and False:
                        continue
                    # ---- rewrite
                    j = copy.deepcopy(fn.j)
                    blocks = j["blocks"]
                    order = sorted(body)
                    k = len(elems)
                    maps = []
                    for i in range(k + 1):
                        if i == 0:
                            maps.append({b: b for b in order})
                        elif i < k:
                            m = {}
                            for b in order:
                                m[b] = len(blocks)
                                blocks.append(copy.deepcopy(fn.j["blocks"][b]))
                            maps.append(m)
                        else:
                            m = {h: len(blocks)}
                            blocks.append({"stmts": [], "term": {"k": "goto", "tgt": none_t, "line": t.get("line")}})
                            maps.append(m)

                    def retarget(term, m, nxt):
                        def tg(x):
                            if x == h:
                                return nxt
                            return m.get(x, x)
                        kk = term["k"]
                        if kk == "goto":
                            term["tgt"] = tg(term["tgt"])
                        elif kk == "switch":
                            term["cases"] = [[c[0], tg(c[1])] for c in term["cases"]]
                            term["otherwise"] = tg(term["otherwise"])
                        elif kk in ("drop", "assert", "call"):
                            if term.get("tgt") is not None:
                                term["tgt"] = tg(term["tgt"])
                            if isinstance(term.get("unw"), int) and not isinstance(term.get("unw"), bool):
                                term["unw"] = m.get(term["unw"], term["unw"])
                    arr_final = arr
                    for i in range(k):
                        m = maps[i]
                        nxt = maps[i + 1][h]
                        for b in order:
                            nb = blocks[m[b]]
                            if b == h:
                                line = nb["term"].get("line")
                                pre = []
                                if by_ref:
                                    # Some(&arr[i]): a fresh reference local
                                    ety = fn.locals[arr_final]["ty"]
                                    ety = ety[1:ety.rindex(";")].strip() if ety.startswith("[") and ";" in ety else "?"
                                    j["locals"].append({"ty": "&" + ety, "name": None, "unrolled_elem": True})
                                    tl = len(j["locals"]) - 1
                                    pre = [{"k": "assign", "dst": {"l": tl}, "line": line, "unrolled": i,
                                            "rv": {"k": "ref", "mut": False, "place": {"l": arr_final, "p": [{"cidx": i, "ty": ety}], "ty": ety}}}]
                                    elems = list(elems)
                                    elems[i] = {"mv": {"l": tl}}
                                nb["stmts"] = list(nb["stmts"]) + pre + [{"k": "assign", "dst": copy.deepcopy(t["dst"]), "line": line, "unrolled": i,
                                                                    "rv": {"k": "agg", "ak": "adt", "adt": "core::option::Option", "variant": 1, "vname": "Some", "fields": ["0"],
                                                                           "ops": [copy.deepcopy(elems[i])]}}]
                                nb["term"] = {"k": "goto", "tgt": m[sw], "line": line, "unrolled": [h, i]}
                            elif b == sw:
                                nb["term"] = {"k": "goto", "tgt": m[some_t], "line": nb["term"].get("line"), "unrolled": [sw, i]}
                            else:
                                retarget(nb["term"], m, nxt)
                                if i > 0:
                                    nb["term"]["unrolled"] = [b, i]
                    self.fns[path] = Fn(path, j, fn.crate)
                    self.unrolled.append((path, h, k))
                    done = True
                    break
                if not done:
                    break

    def inline_new_helpers(self, known, max_rounds=5):
        def is_new(p):
            f = self.fns.get(p)
            return f is not None and p not in known and f.kind not in ("closure", "Closure") and "{closure" not in p and not f.derived

        def new_calls(fn):
            out = []
            for bl in fn.blocks:
                t = bl.term
                if t["k"] != "call" or t.get("tgt") is None and False:
                    continue
                tg = self.call_targets(t)
                if len(tg) == 1 and is_new(tg[0]) and tg[0] != fn.path and not t["fn"].get("virtual") and not t["fn"].get("unresolved"):
                    out.append((bl.idx, tg[0]))
            return out

        def reaches_self(p, seen=None):
            # recursion among new helpers: do not inline
            seen = set()
            stack = [p]
            while stack:
                q = stack.pop()
                f = self.fns.get(q)
                if f is None:
                    continue
                for bl in f.blocks:
                    if bl.term["k"] == "call":
                        for tg in self.call_targets(bl.term):
                            if tg == p:
                                return True
                            if tg in self.fns and tg not in seen and is_new(tg):
                                seen.add(tg)
                                stack.append(tg)
            return False

        recursive = {p for p in self.fns if is_new(p) and reaches_self(p)}
        for _ in range(max_rounds):
            changed = False
            for path in list(self.fns):
                fn = self.fns[path]
                sites = [(b, c) for (b, c) in new_calls(fn) if c not in recursive and not new_calls(self.fns[c])]
                if not sites:
                    continue
                j = fn.j
                for (b, c) in sites:
                    j = inline_call(j, b, self.fns[c].j, c)
                    self.inlined.setdefault(path, []).append(c)
                self.fns[path] = Fn(path, j, fn.crate)
                changed = True
            if not changed:
                break
        # helpers that are no longer called anywhere live on only inside their callers
        still = set()
        for f in self.fns.values():
            for bl in f.blocks:
                if bl.term["k"] == "call":
                    still.update(self.call_targets(bl.term))
                    for c in bl.term.get("closures", []) or []:
                        still.add(c[3:] if c.startswith("fn:") else c)
        self.helper_fns = {}
        used = {c for cs in self.inlined.values() for c in cs}
        for p in list(self.fns):
            if p in used and p not in still and is_new(p):
                self.helper_fns[p] = self.fns.pop(p)

    def fn(self, path):
        return self.fns.get(path)

    def closure_sites(self, cpath):
        """Call sites (Fn, block) that receive the closure `cpath` as an argument (after helper inlining the textual owner may be gone)."""
        if getattr(self, "_closure_sites", None) is None:
            self._closure_sites = {}
            for f in self.fns.values():
                for bl in f.blocks:
                    if bl.term["k"] == "call":
                        for c in (bl.term.get("closures") or []):
                            self._closure_sites.setdefault(c, []).append((f, bl.idx))
        return self._closure_sites.get(cpath, [])

    def find_fns(self, regex):
        r = re.compile(regex)
        return [f for p, f in self.fns.items() if r.search(p)]

    def one_fn(self, path):
        f = self.fns.get(path)
        if f is None:
            raise AnchorMissing("function " + path)
        return f

    def trait_impl_methods(self, trait, method):
        return list(self._trait_impls.get((trait, method), []))

    def prune_infallible_arms(self):
        """`match f() { Ok(v) => .., Err(e) => .. }` (and `f()?`) where the crate function f provably never returns Err (never_err): the Err
        arm is removed from the control-flow graph, as rustc's own SimplifyCfg would after inlining.  All rules then see the same paths
        whether the caller unwraps the result or handles an error that cannot occur."""
        import values as _v
        self.pruned_arms = []
        # (0) `if cfg!(debug_assertions) { .. }` and the like: a switch on a local that the same block sets to a literal
        for path, fn in list(self.fns.items()):
            j = None
            for bl in fn.blocks:
                t = bl.term
                if t["k"] != "switch":
                    continue
                o = t["op"].get("mv") or t["op"].get("cp")
                c = t["op"].get("c")
                if c is None and o and not o.get("p"):
                    ds = [st for st in bl.stmts if st["k"] == "assign" and st["dst"]["l"] == o["l"] and not st["dst"].get("p")]
                    if ds and ds[-1]["rv"]["k"] == "use":
                        c = ds[-1]["rv"]["op"].get("c")
                if isinstance(c, dict) and isinstance(c.get("int"), int) and not isinstance(c.get("int"), bool) and c.get("ty") in ("bool",):
                    val = c["int"]
                    tgt = next((cs[1] for cs in t["cases"] if cs[0] == val), t["otherwise"])
                    if j is None:
                        import copy
                        j = copy.deepcopy(fn.j)
                    j["blocks"][bl.idx]["term"] = {"k": "goto", "tgt": tgt, "span": t.get("span"), "mac": t.get("mac"), "line": t.get("line")}
                    self.pruned_arms.append((path, bl.idx, "const %s" % val))
            if j is not None:
                self.fns[path] = Fn(path, j, fn.crate)
        cands = [p for p, fn in self.fns.items() if not fn.derived and any(bl.term["k"] == "switch" for bl in fn.blocks)]
        for path in cands:
            fn = self.fns[path]
            # quick filter: calls a crate function returning Result
            if not any(t["k"] == "call" and any(x in self.fns and self.fns[x].locals and "Result<" in self.fns[x].locals[0]["ty"] for x in self.call_targets(t))
                       for t in (bl.term for bl in fn.blocks)):
                continue
            ev = None
            j = None
            for bl in fn.blocks:
                t = bl.term
                if t["k"] != "switch" or bl.idx not in fn.reachable():
                    continue
                o = t["op"].get("mv") or t["op"].get("cp")
                if not o or o.get("p"):
                    continue
                dsc = [st for st in bl.stmts if st["k"] == "assign" and st["dst"]["l"] == o["l"] and not st["dst"].get("p") and st["rv"]["k"] == "discr"]
                if not dsc:
                    continue
                if ev is None:
                    ev = _v.Ev(self, fn)
                rv = dsc[-1]["rv"]
                a = ev.place(rv["place"], (bl.idx, len(bl.stmts)))
                if not isinstance(a, tuple) or a[0] == "agg":
                    continue
                kv = ev.known_variant(a)
                if kv is None:
                    continue
                if "ControlFlow" in str(rv.get("adt", "")) and kv in ("Ok", "Some"):
                    kv = "Continue"      # the evaluator looks through Try::branch
                val = next((v for v, name in rv.get("variants", []) if name == kv), None)
                if val is None:
                    continue
                tgt = next((c[1] for c in t["cases"] if c[0] == val), t["otherwise"])
                if j is None:
                    import copy
                    j = copy.deepcopy(fn.j)
                j["blocks"][bl.idx]["term"] = {"k": "goto", "tgt": tgt, "span": t.get("span"), "mac": t.get("mac"), "line": t.get("line")}
                self.pruned_arms.append((path, bl.idx, kv))
            if j is not None:
                self.fns[path] = Fn(path, j, fn.crate)
        self.__dict__.pop("_never_err", None)

    INFALLIBLE_ON_VEC = ("write_all", "write", "flush", "write_u8", "write_u16", "write_u32", "write_u64", "write_i8", "write_i16", "write_i32",
                         "write_i64", "write_u128", "write_fmt")

    def never_err(self, path):
        """True when the crate-local function `path` returns a Result and provably never returns Err: it builds no Err value and every `?`
        in it propagates from an io::Write call on a Vec<u8> (std: writing to a Vec always succeeds) or from another such function."""
        memo = self.__dict__.setdefault("_never_err", {})
        if path in memo:
            return memo[path]
        fn = self.fns.get(path)
        memo[path] = False      # cycles: not proved
        if fn is None or not fn.locals or "Result<" not in fn.locals[0]["ty"]:
            return False
        import values as _v
        ev = _v.Ev(self, fn)
        ok = True

        def callee_never_err(t):
            tg = self.call_targets(t)
            return bool(tg) and all(x in self.fns and self.never_err(x) for x in tg)

        def result_local_ok(l, depth=0):
            """every definition of Result-typed local l is Ok(..), a never-failing crate call, a `?` residual (judged below) or a copy of such"""
            if depth > 4:
                return False
            n = 0
            for bl in fn.blocks:
                if bl.idx not in fn.reachable():
                    continue
                for st in bl.stmts:
                    if st["k"] == "assign" and st["dst"]["l"] == l:
                        n += 1
                        if st["dst"].get("p"):
                            return False
                        rv = st["rv"]
                        if rv["k"] == "agg" and rv.get("vname") == "Ok":
                            continue
                        if rv["k"] == "use":
                            o = rv["op"].get("mv") or rv["op"].get("cp")
                            if o and not o.get("p") and result_local_ok(o["l"], depth + 1):
                                continue
                        return False
                t = bl.term
                if t["k"] == "call" and t.get("dst") and t["dst"]["l"] == l:
                    n += 1
                    if t["dst"].get("p"):
                        return False
                    if strip_generics(t["fn"].get("path", "")).split("::")[-1] == "from_residual":
                        continue
                    if not callee_never_err(t):
                        return False
            return n > 0

        if not result_local_ok(0):
            ok = False
        for bl in fn.blocks:
            if bl.idx not in fn.reachable() or not ok:
                continue
            for st in bl.stmts:
                if st["k"] == "assign" and st["rv"]["k"] == "agg" and st["rv"].get("vname") == "Err" and "Result" in str(st["rv"].get("adt", "")):
                    ok = False
            t = bl.term
            if t["k"] == "call" and strip_generics(t["fn"].get("path", "")).split("::")[-1] == "from_residual":
                src = _v.strip_payload(ev.call_args(bl.idx)[0])
                while isinstance(src, tuple) and src and src[0] in ("vfield", "field", "variant"):
                    src = src[1]
                if isinstance(src, tuple) and src and src[0] == "call" and strip_generics(src[1]).split("::")[-1] == "branch" and src[2]:
                    src = _v.strip_payload(src[2][0])
                good = False
                if isinstance(src, tuple) and src and src[0] == "call":
                    nm = strip_generics(src[1]).split("::")[-1]
                    site = src[3] if len(src) > 3 else None
                    if site and site[0] in self.fns:
                        ct = self.fns[site[0]].blocks[site[1]].term
                        tys = ct.get("arg_tys") or []
                        if nm in self.INFALLIBLE_ON_VEC and tys and tys[0].replace("alloc::", "std::") in ("&mut std::vec::Vec<u8>",):
                            good = True
                        else:
                            tg = self.call_targets(ct)
                            if tg and all(x in self.fns and self.never_err(x) for x in tg):
                                good = True
                if not good:
                    ok = False
            if not ok:
                break
        memo[path] = ok
        return ok

    def call_targets(self, t):
        """Resolved local/external target paths of a call terminator (virtual calls expand to all in-crate impls)."""
        f = t["fn"]
        if f.get("indirect"):
            return []
        out = []
        p = f.get("path")
        if f.get("virtual") or f.get("unresolved") or (f.get("trait") and p == f.get("orig")):
            impls = self.trait_impl_methods(f.get("trait"), f.get("trait_method"))
            out.extend(impls)
            # default method bodies
            if p in self.fns:
                out.append(p)
            if not impls and p:
                out.append(p)
        elif p:
            out.append(p)
        # formatting machinery: `{}` / `{:?}` of a crate-local type runs that type's Display / Debug implementation
        if p and "fmt::rt::Argument" in p and f.get("substs"):
            tr = {"new_display": "core::fmt::Display", "new_debug": "core::fmt::Debug", "new_lower_hex": "core::fmt::LowerHex",
                  "new_upper_hex": "core::fmt::UpperHex"}.get(p.split("::")[-1])
            ty = f["substs"][0].lstrip("&").replace("mut ", "").strip()
            if tr:
                cand = "<%s as %s>::fmt" % (ty, tr)
                if cand in self.fns:
                    out.append(cand)
        # `x.to_string()` of a crate-local type goes through the blanket `impl<T: Display> ToString for T`: it runs that type's Display implementation
        if f.get("trait") == "alloc::string::ToString" and f.get("trait_method") == "to_string" and f.get("self_ty"):
            ty = f["self_ty"].lstrip("&").replace("mut ", "").strip()
            cand = "<%s as core::fmt::Display>::fmt" % ty
            if cand in self.fns:
                out.append(cand)
        return list(dict.fromkeys(out))

    def callees(self, fn, with_closures=True):
        key = (fn.path, with_closures)
        if key not in self._callees:
            out = []
            for bb, t in fn.calls():
                for p in self.call_targets(t):
                    out.append((p, bb))
                if with_closures:
                    for c in t.get("closures", []):
                        if c.startswith("fn:"):
                            out.append((c[3:], bb))
                        else:
                            out.append((c, bb))
            # closures constructed in the body (aggregate) -- treat as potentially called
            if with_closures:
                for bl in fn.blocks:
                    if bl.idx not in fn.reachable():
                        continue
                    for st in bl.stmts:
                        if st["k"] == "assign" and st["rv"]["k"] == "agg" and st["rv"].get("ak") == "closure":
                            out.append((st["rv"]["closure"], bl.idx))
                        if st["k"] == "assign" and st["rv"]["k"] == "cast":
                            for c in st["rv"].get("closures", []):
                                out.append((c[3:] if c.startswith("fn:") else c, bl.idx))
            self._callees[key] = out
        return self._callees[key]

    def callers(self, path):
        if self._callers is None:
            self._callers = defaultdict(list)
            for f in self.fns.values():
                for p, bb in self.callees(f):
                    self._callers[p].append((f.path, bb))
        return self._callers.get(path, [])

    def reach(self, entries, stop=()):
        """Transitive closure over local functions (and external callee names as leaves).
        Returns (local fn paths set, external callee paths set, parent map for path reconstruction)."""
        seen = set()
        ext = set()
        parent = {}
        dq = deque()
        for e in entries:
            if e in self.fns and e not in seen:
                seen.add(e)
                dq.append(e)
        while dq:
            p = dq.popleft()
            if p in stop:
                continue
            for q, bb in self.callees(self.fns[p]):
                if q in self.fns:
                    if q not in seen:
                        seen.add(q)
                        parent[q] = (p, bb)
                        dq.append(q)
                else:
                    if q not in ext:
                        parent.setdefault(q, (p, bb))
                    ext.add(q)
        return seen, ext, parent

    def chain(self, parent, target):
        out = [target]
        while target in parent:
            target = parent[target][0]
            out.append(target)
        return list(reversed(out))

    def item_value(self, path):
        it = self.items.get(path)
        if it is None:
            raise AnchorMissing("item " + path)
        return it.get("val")


class AnchorMissing(Exception):
    pass
