#!/usr/bin/env python3
"""./check driver: loads facts of /repo's current tree, runs the rule module of one property, matches violations
against known_findings.json, writes evidence/<id>.json, prints VIOLATION / KNOWN-FINDING lines."""
import argparse
import importlib
import json
import os
import sys
import time
import traceback

HERE = os.path.dirname(os.path.abspath(__file__))
VERIF = os.path.dirname(HERE)
sys.path.insert(0, HERE)

import facts  # noqa: E402
import mir  # noqa: E402
from framework import Ctx, Broken  # noqa: E402


def load_known():
    p = os.path.join(VERIF, "known_findings.json")
    if not os.path.exists(p):
        return []
    with open(p) as fh:
        return json.load(fh).get("findings", [])


def mutant_selftest(pid, mod, repo):
    """Thorough tier: apply every stored mutant patch of this property (and every seeded change) to a scratch copy of the tree
    (outside /repo and /verif), re-run the rules on the copy and record whether a violation is reported.  Never changes the verdict."""
    import glob
    import shutil
    import subprocess
    import tempfile
    patches = sorted(glob.glob(os.path.join(VERIF, "mutants", pid + "-*.patch")))
    for meta in sorted(glob.glob(os.path.join(VERIF, "seeded", "*", "meta.json"))):
        try:
            with open(meta) as fh:
                m = json.load(fh)
            if pid in (m.get("property"), ) or pid in m.get("caught_by", []):
                patches.append(os.path.join(os.path.dirname(meta), "patch.diff"))
        except Exception:
            pass
    rep = {"applied": 0, "killed": 0, "skipped": 0, "survivors": [], "results": []}
    for pf in patches:
        d = tempfile.mkdtemp(prefix="rt-mut-")
        try:
            subprocess.run(["rsync", "-a", "--exclude", "target", "--exclude", ".git", repo.rstrip("/") + "/", d + "/"], check=True)
            r = subprocess.run(["patch", "-p1", "-s", "-i", pf], cwd=d, capture_output=True, text=True)
            if r.returncode != 0:
                rep["skipped"] += 1
                rep["results"].append({"patch": os.path.relpath(pf, VERIF), "result": "skipped (does not apply to the current tree)"})
                continue
            try:
                fx = facts.extract(d, "default")
            except SystemExit as e:
                rep["skipped"] += 1
                rep["results"].append({"patch": os.path.relpath(pf, VERIF), "result": "skipped (%s)" % e})
                continue
            prog = mir.Program(fx)
            c = Ctx(pid, prog, d, "quick", "default")
            try:
                mod.run(c)
            except mir.AnchorMissing as e:
                c.violation("anchor-missing", str(e), "anchor-missing: " + str(e))
            except Exception as e:  # a crash on a mutant is reported, not hidden
                c.violation("rule-crashed", "crash", "rule crashed on the mutant: %r" % (e,))
            v = [i for i in c.instances if not i["ok"]]
            rep["applied"] += 1
            if v:
                rep["killed"] += 1
                rep["results"].append({"patch": os.path.relpath(pf, VERIF), "result": "killed", "first_violation": v[0]["key"]})
            else:
                rep["survivors"].append(os.path.relpath(pf, VERIF))
                rep["results"].append({"patch": os.path.relpath(pf, VERIF), "result": "SURVIVED"})
        finally:
            shutil.rmtree(d, ignore_errors=True)
    return rep


def main():
    ap = argparse.ArgumentParser()
    ap.add_argument("prop")
    ap.add_argument("--tier", default=os.environ.get("VERIF_TIER", "quick"))
    ap.add_argument("--repo", default="/repo")
    ap.add_argument("--explain", default=None)
    ap.add_argument("--no-evidence", action="store_true")
    ap.add_argument("--no-fixture", action="store_true")
    ap.add_argument("--list", action="store_true", help="print every instance")
    args = ap.parse_args()
    pid = args.prop
    tier = args.tier if args.tier in ("quick", "thorough") else "quick"
    seed = int(os.environ.get("VERIF_SEED", "0") or 0)
    t0 = time.time()

    if args.explain:
        with open(args.explain) as fh:
            print(json.dumps(json.load(fh), indent=2))
        return 0

    features = ["default"] if tier == "quick" else ["default", "fuzzing", "awskms", "gcpkms"]
    if os.environ.get("VERIF_FEATURES"):
        features = os.environ["VERIF_FEATURES"].split(",")
    try:
        mod = importlib.import_module("rules." + pid)
    except ImportError as e:
        print("no rule module for %s: %s" % (pid, e))
        return 2

    all_instances = []
    ctxs = []
    broken = None
    for feat in features:
        fx = facts.extract(args.repo, feat)
        prog = mir.Program(fx)
        ctx = Ctx(pid, prog, args.repo, tier, feat)
        try:
            mod.run(ctx)
        except mir.AnchorMissing as e:
            ctx.violation("anchor-missing", str(e), "anchor-missing: " + str(e))
        except Broken as e:
            broken = str(e)
            break
        except Exception:
            traceback.print_exc()
            broken = "rule crashed"
            break
        ctxs.append(ctx)
        all_instances.extend(ctx.instances)
    if broken is None and not args.no_fixture and hasattr(mod, "fixture"):
        try:
            fxf = facts.extract_crate(os.path.join(VERIF, "fixtures", "positive"))
            fprog = mir.Program(fxf, include=None)
            fctx = Ctx(pid, fprog, os.path.join(VERIF, "fixtures", "positive"), tier, "fixture")
            missing = mod.fixture(fctx)
            if missing:
                broken = "positive fixture not detected: %s" % ", ".join(missing)
        except Broken as e:
            broken = str(e)
        except Exception:
            traceback.print_exc()
            broken = "fixture crashed"
    if broken is not None:
        print("BROKEN property=%s %s" % (pid, broken))
        return 2

    # de-duplicate instances across feature sets (same key, same verdict)
    seen = {}
    for inst in all_instances:
        k = (inst["key"], inst["ok"])
        if k not in seen:
            seen[k] = inst
        else:
            seen[k].setdefault("features", [seen[k].get("feature")])
            if inst.get("feature") not in seen[k]["features"]:
                seen[k]["features"].append(inst.get("feature"))
    instances = list(seen.values())
    violations = [i for i in instances if not i["ok"]]

    known = [k for k in load_known() if k.get("property") == pid and k.get("status") == "known"]
    known_keys = {k["key"]: k for k in known}
    new_viol = []
    known_hit = []
    for v in violations:
        if v["key"] in known_keys:
            known_hit.append(v)
        else:
            new_viol.append(v)

    replay_dir = os.path.join(VERIF, "evidence", "replay", pid)
    lines = []
    for v in known_hit:
        lines.append("KNOWN-FINDING: property=%s %s (%s)" % (pid, known_keys[v["key"]].get("what", v["detail"]), v["key"]))
    for v in new_viol:
        os.makedirs(replay_dir, exist_ok=True)
        fname = "".join(c if c.isalnum() or c in "-_." else "_" for c in v["key"])[:180] + ".json"
        rp = os.path.join(replay_dir, fname)
        with open(rp, "w") as fh:
            json.dump(v, fh, indent=2, default=str)
        print("  rule=%s at %s: %s" % (v["rule"], v.get("loc", "?"), v["detail"]))
        lines.append("VIOLATION property=%s replay=%s" % (pid, rp))

    mutant_report = None
    if tier == "thorough" and not os.environ.get("VERIF_NO_MUTANTS"):
        mutant_report = mutant_selftest(pid, mod, args.repo)
    wall = time.time() - t0
    nontrivial = {i["key"] for i in instances if i.get("nontrivial", True)}
    samples = []
    for i in instances[:400]:
        samples.append({"key": i["key"], "rule": i["rule"], "loc": i.get("loc"), "verdict": "ok" if i["ok"] else "VIOLATION",
                        "detail": i["detail"]})
    ev = {
        "property_id": pid,
        "tier": tier,
        "seed": seed,
        "level": "other",
        "coverage": {
            "explanation": getattr(mod, "EXPLANATION", "").strip() or "static rules over MIR facts",
            "evaluations": len(all_instances),
            "distinct_nontrivial": len(nontrivial),
            "rule": "one evaluation = one rule instance (call site, path, table entry or panic site) decided on the MIR of "
                    "/repo's current tree; distinct = distinct instance keys; non-trivial = the rule had at least one "
                    "obligation at that instance",
            "obligations": len(instances),
            "discharged": len([i for i in instances if i["ok"]]),
            "samples": samples[:60],
            "checker_cmd": "./check %s%s" % (pid, " --tier thorough" if tier == "thorough" else ""),
            "trusted_base": getattr(mod, "TRUSTED", []) + ["rustc nightly MIR construction, trait resolution and const evaluation",
                                                             "spec_tables.json (hand-written oracle)"],
            "feature_sets": features,
            "functions_analysed": sorted(set().union(*[c.touched for c in ctxs])) if ctxs else [],
            "rules": sorted({i["rule"] for i in instances}),
            "instances_per_rule": {r: len([i for i in instances if i["rule"] == r]) for r in sorted({i["rule"] for i in instances})},
            "known_findings_matched": [v["key"] for v in known_hit],
            "exhaustive": bool(getattr(mod, "EXHAUSTIVE", False)),
            "not_decided": getattr(mod, "NOT_DECIDED", ""),
        },
        "assumptions": getattr(mod, "ASSUMPTIONS", []),
        "wall_s": round(wall, 3),
        "violations": len(new_viol),
    }
    for c in ctxs:
        for k, v in c.extra.items():
            ev["coverage"].setdefault(k, v)
    if mutant_report is not None:
        ev["coverage"]["sensitivity_selftest"] = mutant_report
    if not args.no_evidence:
        os.makedirs(os.path.join(VERIF, "evidence"), exist_ok=True)
        with open(os.path.join(VERIF, "evidence", pid + ".json"), "w") as fh:
            json.dump(ev, fh, indent=1, default=str)
    if args.list:
        for i in instances:
            print("%-9s %s  [%s] %s" % ("ok" if i["ok"] else "VIOLATION", i["key"], i.get("loc"), i["detail"]))
    print("%s: %d instances over %d rules, %d violations (%d known), %.1fs, features=%s" % (
        pid, len(instances), len({i["rule"] for i in instances}), len(violations), len(known_hit), wall, ",".join(features)))
    for l in lines:
        print(l)
    return 1 if new_viol else 0


if __name__ == "__main__":
    sys.exit(main())
