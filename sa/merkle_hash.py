"""Rules about how the Merkle tree hashes: shared by C02 (responses verify under a spec-derived verifier) and C04 (proofs complete and binding)."""
import values
from framework import spec
from lib import is_call, callee_name, iter_elem
from values import fmt

MERKLE = "roughenough::merkle::MerkleTree"


def check_hashing(ctx, W, rule):
    sp = spec()
    lt = ctx.item_bytes("roughenough::TREE_LEAF_TWEAK")
    nt = ctx.item_bytes("roughenough::TREE_NODE_TWEAK")
    ctx.check(rule, "constants", lt == bytes(sp["common"]["leaf_tweak"]) and nt == bytes(sp["common"]["node_tweak"]),
              "leaf tweak 0x00, node tweak 0x01", "tweak constants are leaf=%r node=%r" % (lt, nt))
    for name, tweak, nargs in (("hash_leaf", lt, 1), ("hash_nodes", nt, 2)):
        fn = ctx.fn(MERKLE + "::" + name)
        ev = W.ev(fn.path)
        r = ev.ret()
        okh = False
        det = fmt(r)
        if is_call(r, "MerkleTree::hash"):
            arr = r[2][1]
            if arr[0] == "agg" and arr[1] == "array":
                elems = arr[2]
                want = [("bytes", tweak)] + [("param", fn.path, i + 2) for i in range(nargs)]
                okh = list(elems) == want
                det = "hash([%s])" % ", ".join(fmt(e) for e in elems)
        ctx.check(rule, "%s/input-order" % name, okh, "%s = %s" % (name, det),
                  "%s hashes %s; expected [tweak %r, %s]" % (name, det, tweak, "leaf" if nargs == 1 else "left, right"), ctx.loc(fn))

    # MerkleTree::hash itself: every input slice goes into the digest whole, in order, under self.algorithm; the output is the first hash_len() bytes
    hf = ctx.fn(MERKLE + "::hash")
    hev = W.ev(hf.path)
    from lib import iter_elem, byte_pieces
    r = values.strip_payload(hev.ret())
    take = None
    for _ in range(8):
        if is_call(r) and callee_name(r[1]) in values.VIEW_NAMES + ("to_vec", "to_owned", "into", "from") and r[2]:
            r = values.strip_payload(r[2][0])
        elif isinstance(r, tuple) and r and r[0] == "index" and r[2][0] == "agg" and str(r[2][1]).endswith("RangeTo::RangeTo"):
            take = r[2][2][0]
            r = values.strip_payload(r[1])
        elif isinstance(r, tuple) and r and r[0] == "index" and r[2][0] == "agg" and str(r[2][1]).endswith("Range::Range") and r[2][2][0] == ("int", 0):
            take = r[2][2][1]
            r = values.strip_payload(r[1])
        else:
            break
    PIECES = ("param", hf.path, 2)
    alg = None
    whole = False
    hdet = fmt(r)
    if is_call(r) and callee_name(r[1]) == "finish" and r[2] and r[2][0][0] == "obj":
        cobj = r[2][0]
        init = W.obj_init(cobj)
        alg = init[2][0] if is_call(init, "Context::new") else None
        ups = [(b, hev.call_args(b)) for (b, callee, argi, ap) in W.obj_events(cobj) if callee_name(callee) == "update" and argi == 0]
        others = [callee_name(callee) for (b, callee, argi, ap) in W.obj_events(cobj) if argi == 0 and callee_name(callee) not in ("update", "finish", "clone")
                  and hf.blocks[b].term["arg_tys"][0].startswith("&mut")]
        if len(ups) == 1 and not others:
            ie = iter_elem(W, W.expand(ups[0][1][1]))
            loops = hf.in_loop(ups[0][0])
            # the update is on every iteration of a loop that is left only when the iterator is exhausted
            if ie is not None and ie["container"] == PIECES and ie["what"] == "elem" and not ie["fields"] and len(loops) == 1:
                lp = loops[0]
                exits = [e for e in lp["exits"] if e[1] not in hf.diverging()]
                nb = ie["site"][1]
                some_succ = None
                dsw = hf.blocks[hf.blocks[nb].term["tgt"]].term
                if dsw["k"] == "switch":
                    some_succ = next((tg for v_, tg in dsw["cases"] if v_ == 1), None)
                    if some_succ is None and len(dsw["cases"]) == 1 and dsw["cases"][0][0] == 0:
                        some_succ = dsw["otherwise"]
                whole = len(exits) == 1 and exits[0][0] == hf.blocks[nb].term["tgt"] and some_succ is not None and \
                    values.must_pass(hf, [ups[0][0]], from_block=some_succ, to_blocks={lp["header"]})
        if not ups and not others:
            # `pieces.iter().for_each(|p| ctx.update(p))`: the closure's whole effect is one update of the captured context with its argument,
            # and for_each runs it for every element in order
            for bb, t in hf.calls():
                if callee_name(t["fn"].get("path", "")) != "for_each" or not hf.dominates(bb, r[3][1] if len(r) > 3 and r[3] else bb):
                    continue
                a = hev.call_args(bb)
                src = W.expand(a[0])
                while isinstance(src, tuple) and src and (src[0] == "reader" or (is_call(src) and callee_name(src[1]) in ("iter", "into_iter", "copied", "cloned") and src[2])):
                    src = src[1] if src[0] == "reader" else W.expand(src[2][0])
                clo = a[1] if len(a) > 1 else None
                if src != PIECES or not (isinstance(clo, tuple) and clo and clo[0] == "closure" and clo[1] in ctx.prog.fns and cobj in clo[2]):
                    continue
                cf = ctx.prog.fns[clo[1]]
                cev = W.ev(cf.path)
                ccalls = [(b2, t2) for b2, t2 in cf.calls()]
                envi = list(clo[2]).index(cobj)
                if len(ccalls) == 1 and callee_name(ccalls[0][1]["fn"].get("path", "")) == "update" and not cf.loops() and \
                        values.must_pass(cf, [ccalls[0][0]], from_block=0):
                    ca = cev.call_args(ccalls[0][0])
                    if ca[0] == ("field", ("param", cf.path, 1), str(envi)) and W.expand(ca[1]) == ("param", cf.path, 2):
                        whole = True
                        ups = [(bb, a)]
        hdet = "streaming digest: %d update site(s), other context mutations %s" % (len(ups), others)
    elif is_call(r) and callee_name(r[1]) == "digest" and "ring::digest" in r[1] and len(r[2]) == 2:
        alg = r[2][0]
        data = W.expand(r[2][1])
        for _ in range(4):
            if is_call(data) and callee_name(data[1]) in values.VIEW_NAMES and data[2]:
                data = W.expand(data[2][0])
        whole = is_call(data) and callee_name(data[1]) == "concat" and data[2] and values.strip_payload(W.expand(data[2][0])) == PIECES
        hdet = "one-shot digest of %s" % fmt(data)[:120]
    okalg = alg == ("field", ("param", hf.path, 1), "algorithm")
    # the output is truncated to the tree's node width: the truncation length evaluates, for every protocol version, to the width the protocol
    # prescribes (`self.hash_len()`, a cached `self.hash_len` field, or a constant per version alike)
    from lib import intval, VERSION, VERSIONS
    oktake = take is not None
    for v in VERSIONS:
        assume = {("field", ("param", f.path, 1), "version"): ("enum", VERSION, v) for f in ctx.prog.fns.values() if f.impl_self == MERKLE}
        evv = values.Ev(ctx.prog, hf, assume=assume)
        evv.live()
        if take is None or intval(W, evv, take) != sp["versions"][v]["node_width"]:
            oktake = False
    ctx.check(rule, "hash/every-input-slice-whole-in-order", whole and okalg and oktake,
              "hash(pieces) = digest(self.algorithm, piece_0 || piece_1 || ..)[..hash_len()]",
              "MerkleTree::hash does not digest every input slice whole, in order, under self.algorithm, truncated to hash_len(): %s (algorithm ok=%s, truncation ok=%s)" % (hdet, okalg, oktake),
              ctx.loc(hf))

