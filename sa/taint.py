"""A6: interprocedural taint over provenance terms (field-sensitive by field name, declassifiers, parameter binding through all
call sites)."""
import values
from lib import is_call, callee_name
from mir import strip_generics


class Taint:
    def __init__(self, W, source_calls, source_fields, declassifiers, scope=lambda p: True):
        self.W = W
        self.P = W.prog
        self.source_calls = source_calls          # predicates on call terms
        self.source_fields = set(source_fields)   # field names whose reads are secret
        self.declass = declassifiers              # predicate(call term) -> bool
        self.scope = scope
        self.memo = {}
        self.inprog = set()
        self._field_writes = None

    # ---- where is each field (by name) written
    def field_writes(self):
        if self._field_writes is None:
            fw = {}
            for fn in self.P.fns.values():
                if not self.scope(fn.path):
                    continue
                ev = None
                for bl in fn.blocks:
                    if bl.idx not in fn.reachable():
                        continue
                    for i, st in enumerate(bl.stmts):
                        if st["k"] != "assign":
                            continue
                        rv = st["rv"]
                        if rv["k"] == "agg" and rv.get("ak") == "adt" and rv.get("fields"):
                            ev = ev or self.W.ev(fn.path)
                            for name, op in zip(rv["fields"], rv["ops"]):
                                fw.setdefault((rv["adt"], name), []).append((fn.path, ev.op(op, (bl.idx, i))))
                        flds = [e for e in st["dst"].get("p", []) if isinstance(e, dict) and "f" in e]
                        if flds and flds[-1].get("name") and flds[-1].get("adt"):
                            ev = ev or self.W.ev(fn.path)
                            fw.setdefault((flds[-1]["adt"], flds[-1]["name"]), []).append((fn.path, ev.rvalue(rv, (bl.idx, i))))
                    t = bl.term
                    if t["k"] == "call":
                        flds = [e for e in t["dst"].get("p", []) if isinstance(e, dict) and "f" in e]
                        if flds and flds[-1].get("name") and flds[-1].get("adt"):
                            ev = ev or self.W.ev(fn.path)
                            fw.setdefault((flds[-1]["adt"], flds[-1]["name"]), []).append((fn.path, ev.call_term(bl.idx)))
            self._field_writes = fw
        return self._field_writes

    def adt_of(self, t, depth=0):
        """Path of the struct type a place term denotes (through references), or None."""
        P = self.P
        if not isinstance(t, tuple) or not t or depth > 6:
            return None
        ty = None
        if t[0] == "param":
            fn = P.fns.get(t[1])
            ty = fn.locals[t[2]]["ty"] if fn else None
        elif t[0] == "obj":
            fn = P.fns.get(t[1])
            ty = fn.locals[t[2]]["ty"] if fn else None
        elif t[0] == "field":
            a = self.adt_of(t[1], depth + 1)
            if a and a in P.adts:
                for v in P.adts[a]["variants"]:
                    for f in v["fields"]:
                        if f["name"] == t[2]:
                            ty = f["ty"]
        elif t[0] in ("vfield", "reader"):
            return self.adt_of(t[1], depth + 1)
        if ty is None:
            return None
        ty = ty.replace("&mut ", "").replace("&", "").strip()
        for w in ("alloc::boxed::Box<", "alloc::sync::Arc<", "core::option::Option<"):
            if ty.startswith(w):
                ty = ty[len(w):-1]
        base = ty.split("<")[0]
        return base if base in P.adts else None

    def taint(self, t, depth=0):
        """Set of reasons (strings) why term t may carry secret bytes; empty set = clean."""
        if not isinstance(t, tuple) or not t or depth > 40:
            return set()
        k = t[0]
        if k in ("int", "str", "bytes", "enum", "zst", "static", "fnref", "top", "opaque", "loopvar", "arr", "aff"):
            return set()
        key = t
        if key in self.memo:
            return self.memo[key]
        if key in self.inprog:
            return set()
        self.inprog.add(key)
        try:
            r = self._taint(t, depth)
        finally:
            self.inprog.discard(key)
        self.memo[key] = r
        return r

    def _union(self, terms, depth):
        out = set()
        for x in terms:
            if isinstance(x, tuple):
                out |= self.taint(x, depth + 1)
        return out

    def _taint(self, t, depth):
        k = t[0]
        P = self.P
        if k == "len":
            return set()
        if k == "call":
            for name, pred in self.source_calls:
                if pred(t):
                    return {name}
            if self.declass(t):
                return set()
            path = t[1]
            args = t[2]
            if path in P.fns and self.scope(path):
                callee = P.fns[path]
                ev = self.W.ev(path)
                r = ev.ret()
                out = set()
                # intrinsic + parameter dependent parts: substitute by evaluating taint of the return term with
                # parameters standing for the actual arguments
                bound = self.W.bind_params(r, path, list(args))
                return self.taint(bound, depth + 1)
            clos = [a for a in args if isinstance(a, tuple) and a and a[0] == "closure" and a[1] in P.fns]
            if clos and depth < 6:
                # an adaptor given a closure (`map_err(|e| format!(.., seed.len(), e))`): what comes out is what goes in plus what the closure
                # returns - not everything the closure captured (a captured secret of which only the length is used stays inside)
                rest = [a for a in args if a not in clos]
                out = self._union(rest, depth)
                for c in clos:
                    r = self.W.ev(c[1]).ret()
                    if r == ("never",):
                        continue
                    bound = self.W.bind_params(r, c[1], [c] + rest[:1])
                    out |= self.taint(bound, depth + 1)
                return out
            return self._union(args, depth)
        if k == "field":
            name = t[2]
            if name in self.source_fields:
                return {"field:" + name}
            base = t[1]
            out = set()
            if name.isdigit():
                # tuple / closure-environment field
                if isinstance(base, tuple) and base[0] == "param" and base[2] == 1:
                    fn = P.fns.get(base[1])
                    if fn is not None and fn.kind == "closure":
                        parent = P.fns.get(fn.parent)
                        if parent is not None:
                            pev = self.W.ev(parent.path)
                            for bl in parent.blocks:
                                for j, st in enumerate(bl.stmts):
                                    if st["k"] == "assign" and st["rv"]["k"] == "agg" and st["rv"].get("closure") == base[1]:
                                        ops = st["rv"]["ops"]
                                        if int(name) < len(ops):
                                            out |= self.taint(pev.op(ops[int(name)], (bl.idx, j)), depth + 1)
                            return out
                if isinstance(base, tuple) and base[0] == "agg" and int(name) < len(base[2]):
                    return self.taint(base[2][int(name)], depth + 1)
                return self.taint(base, depth + 1)
            # field-sensitive: what has been stored into this field of this type
            adt = self.adt_of(base)
            fw = self.field_writes()
            if adt is not None:
                for (fp, val) in fw.get((adt, name), []):
                    out |= self.taint(val, depth + 1)
                return out
            cands = [k for k in fw if k[1] == name]
            if cands:
                for k2 in cands:
                    for (fp, val) in fw[k2]:
                        out |= self.taint(val, depth + 1)
                return out
            return self.taint(base, depth + 1)
        if k == "param":
            fp, i = t[1], t[2]
            out = set()
            for (cp, cbb) in P.callers(fp):
                if not self.scope(cp):
                    continue
                cf = P.fns[cp]
                tt = cf.blocks[cbb].term
                if tt["k"] != "call" or fp not in P.call_targets(tt):
                    continue
                a = self.W.ev(cp).call_args(cbb)
                if len(a) >= i:
                    out |= self.taint(a[i - 1], depth + 1)
            fn = P.fns.get(fp)
            if fn is not None and fn.kind == "closure" and i >= 2:
                # an argument the closure is called with by the adaptor it was handed to (`r.unwrap_or_else(|e| ..)`, `r.map_err(|e| ..)`,
                # `o.map(|v| ..)`): derived from the adaptor's other operands - unless its type is one that carries no data
                pty = fn.locals[i]["ty"] if i < len(fn.locals) else ""
                if not any(d in pty for d in getattr(self, "data_free_types", ())):
                    parent = P.fns.get(fn.parent)
                    if parent is not None and self.scope(parent.path):
                        pev = self.W.ev(parent.path)
                        for cbb, tt in parent.calls():
                            if fp in [c[3:] if c.startswith("fn:") else c for c in (tt.get("closures") or [])]:
                                ops_ = [a for a in pev.call_args(cbb) if not (isinstance(a, tuple) and a and a[0] == "closure")]
                                adaptor_ = tt["fn"].get("path", "")
                                raw_ = any(x in pty for x in ("Vec<u8>", "[u8", "String", "str", "Box<[u8]>"))
                                hook_ = getattr(self, "err_payloads_fn", None)
                                if not raw_ and hook_ is not None and "result::Result" in adaptor_ and adaptor_.split("::")[-1].split("<")[0] in ("unwrap_or_else", "map_err", "or_else", "inspect_err"):
                                    # the error side of a Result of a structured (crate-local) error type: what can be inside that error, variant-sensitively
                                    # (the error of a call that *produces* the secret carries none of it)
                                    ops_ = [e for a in ops_ for e in hook_(a)]
                                out |= self._union(ops_, depth)
            # closures: captured variables
            if fn is not None and fn.kind == "closure" and i == 1:
                parent = P.fns.get(fn.parent)
                if parent is not None:
                    pev = self.W.ev(parent.path)
                    for bl in parent.blocks:
                        for j, st in enumerate(bl.stmts):
                            if st["k"] == "assign" and st["rv"]["k"] == "agg" and st["rv"].get("closure") == fp:
                                out |= self._union([pev.op(o, (bl.idx, j)) for o in st["rv"]["ops"]], depth)
            return out
        if k == "obj":
            out = set()
            init = self.W.obj_init(t)
            if init is not None:
                out |= self.taint(init, depth + 1)
            else:
                ev = self.W.ev(t[1])
                for (b, it) in ev.obj_init(t[2]):
                    out |= self.taint(it, depth + 1)
            ev = self.W.ev(t[1])
            fn = ev.fn
            for (b, callee, argi, ap) in ev.events_on(t[2]):
                tt = fn.blocks[b].term
                if tt["arg_tys"][argi].startswith("&mut"):
                    args = ev.call_args(b)
                    ct = ("call", tt["fn"].get("path", ""), tuple(args), (fn.path, b))
                    if self.declass(ct):
                        continue
                    out |= self._union([a for j, a in enumerate(args) if j != argi], depth)
            # partial assignments into the object
            for (b, i, kind) in fn.defs().get(t[2], []):
                if kind == "partial" and i != "term":
                    st = fn.blocks[b].stmts[i]
                    fields = [e.get("name") for e in st.get("dst", {}).get("p", []) if isinstance(e, dict) and "f" in e]
                    if fields and fields[-1] in self.source_fields:
                        # stored into a field that is secret by declaration (`cfg.seed = ..`): every read of that field is a source already;
                        # the rest of the object does not become secret by it
                        continue
                    out |= self.taint(ev.rvalue(st["rv"], (b, i)), depth + 1)
            return out
        if k == "closure":
            return self._union(t[2], depth)
        if k in ("agg",):
            return self._union(t[2], depth)
        if k == "phi":
            return self._union(t[1], depth)
        return self._union([x for x in t[1:] if isinstance(x, tuple)], depth)
