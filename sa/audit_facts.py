"""Machine-checked facts that audited panic-site entries depend on.  Each requirement is a named predicate over the
current program; when it stops holding, the audited site is re-opened."""
import flow
import values
from lib import World, is_call, callee_name
from mir import strip_generics


class Checker:
    def __init__(self, ctx, W):
        self.ctx = ctx
        self.W = W
        self.P = ctx.prog
        self.cache = {}

    def check(self, name):
        if name not in self.cache:
            fn = getattr(self, "req_" + name.replace("-", "_").replace(".", "_"), None)
            if fn is None:
                self.cache[name] = (False, "unknown requirement")
            else:
                try:
                    self.cache[name] = fn()
                except Exception as e:  # fail closed
                    self.cache[name] = (False, "requirement check failed: %r" % (e,))
        return self.cache[name]


RESP = "roughenough::responder::Responder"
MERKLE = "roughenough::merkle::MerkleTree"
MSG = "roughenough::message::RtMessage"
SERVER = "roughenough::server::Server"


def _all_exits_dominated(fn, bb):
    return all(fn.dominates(bb, e) for e in fn.exits()) and not fn.in_loop(bb)


class _Reqs:
    # ---------------------------------------------------------------- C09.1
    def req_every_accepted_request_queued(self):
        """C09: the adders queue the request (and its leaf) on every path, no silent drop."""
        return self.req_paired_pushes(strict=True)

    def req_paired_pushes(self, strict=False):
        P, W = self.P, self.W
        adders = []
        for name in ("add_classic_request", "add_ietf_request"):
            fn = P.fns.get(RESP + "::" + name)
            if fn is None:
                return False, "missing " + name
            ev = W.ev(fn.path)
            leaf = [bb for bb, t in fn.calls() if strip_generics(t["fn"].get("path", "")).endswith("MerkleTree::push_leaf")
                    and ev.call_args(bb)[0] == ("field", ("param", fn.path, 1), "merkle")]
            req = [bb for bb, t in fn.calls() if callee_name(t["fn"].get("path", "")) == "push"
                   and ev.call_args(bb)[0] == ("field", ("param", fn.path, 1), "requests")]
            if len(leaf) != 1 or len(req) != 1:
                return False, "%s performs %d push_leaf and %d requests.push" % (name, len(leaf), len(req))
            # balance: a path performs both pushes or neither (an early return before both keeps leaves and queue in step)
            first, second = (leaf[0], req[0]) if fn.dominates(leaf[0], req[0]) else (req[0], leaf[0])
            balanced = fn.dominates(first, second) and not fn.in_loop(first) and not fn.in_loop(second) and \
                values.must_pass(fn, [second], from_block=fn.succ(first)[0]) if fn.succ(first) else False
            if not balanced:
                return False, "%s can push a leaf without queueing the request (or the reverse)" % name
            if strict and not (_all_exits_dominated(fn, leaf[0]) and _all_exits_dominated(fn, req[0])):
                return False, "%s does not push both on every path" % name
            adders.append(fn.path)
        # nobody else pushes onto Responder.requests / calls push_leaf
        for fn in P.fns.values():
            if fn.path in adders:
                continue
            ev = None
            for bb, t in fn.calls():
                p = strip_generics(t["fn"].get("path", ""))
                if p.endswith("MerkleTree::push_leaf") and fn.impl_self != MERKLE and not fn.path.startswith("roughenough_") :
                    return False, "%s also calls push_leaf" % fn.path
                if callee_name(p) in ("push", "insert", "extend") and fn.impl_self == RESP:
                    ev = ev or W.ev(fn.path)
                    a = ev.call_args(bb)
                    if a and a[0] == ("field", ("param", fn.path, 1), "requests"):
                        return False, "%s also pushes onto requests" % fn.path
        return True, ("add_classic_request/add_ietf_request push one leaf and one request on every path; nobody else does" if strict else
                      "add_classic_request/add_ietf_request push a leaf exactly when they queue the request; nobody else does")

    def req_merkle_nonempty_before_compute_root(self):
        P, W = self.P, self.W
        ok, why = self.check("paired_pushes")
        if not ok:
            return False, why
        ie = P.fns.get(RESP + "::is_empty")
        if ie is None:
            return False, "Responder::is_empty missing"
        r = W.ev(ie.path).ret()
        if not (is_call(r) and callee_name(r[1]) == "is_empty" and r[2][0] == ("field", ("param", ie.path, 1), "requests")):
            return False, "Responder::is_empty is not requests.is_empty()"
        n = 0
        for fn in P.fns.values():
            if fn.path.startswith("roughenough_") or fn.impl_self == MERKLE:
                continue
            ev = None
            for bb, t in fn.calls():
                if strip_generics(t["fn"].get("path", "")).endswith("MerkleTree::compute_root"):
                    ev = ev or W.ev(fn.path)
                    IN = flow.must_facts(fn, ev)
                    rels = flow.rel_facts_at(IN, bb)
                    if not any(r[0] == "NotPred" and r[1] == "is_empty" and r[2] == ("param", fn.path, 1) for r in rels):
                        return False, "compute_root in %s is not guarded by !is_empty()" % fn.path
                    n += 1
        rs = P.fns.get(RESP + "::reset")
        if rs is None:
            return False, "Responder::reset missing"
        return (n >= 1), "%d compute_root call(s), each under !Responder::is_empty()" % n

    def req_merkle_level_structure(self):
        import importlib
        from framework import Ctx
        mod = importlib.import_module("rules.C04")
        c = Ctx("C04", self.P, self.ctx.repo, "quick", self.ctx.feature)
        c.extra["structure_rules_only"] = True      # C04's own "completes" rule includes C08, which requires this fact: no cycle
        mod.run(c)
        bad = [i for i in c.instances if not i["ok"] and i["rule"] in ("index-algebra", "padding", "reset")]
        if bad:
            return False, "C04 structure rules fail: " + bad[0]["detail"]
        return True, "C04 index-algebra, padding and reset rules hold"

    def req_audited_assertions_unchanged(self):
        """The three assertions whose panic sites are audited assert what the audit says they assert: compute_root starts with
        `!levels[0].is_empty()` and ends with `levels[top].len() == 1`; encode ends with `out.len() == self.encoded_size()`.  (Audited sites are
        matched by shape, and an assertion with another condition has the same shape.)"""
        P, W = self.P, self.W
        def panics(path):
            fn = P.fns.get(path)
            if fn is None:
                return None, None, []
            ev = W.ev(path)
            IN = flow.must_facts(fn, ev)
            out = []
            for bb, t in fn.calls():
                q = strip_generics(t["fn"].get("path", ""))
                if q.startswith("core::panicking::") or q.endswith("begin_panic"):
                    out.append((bb, t.get("mac"), flow.rel_facts_at(IN, bb)))
            return fn, ev, out
        fn, ev, ps = panics(MERKLE + "::compute_root")
        if fn is None:
            return False, "compute_root missing"
        lv = ("field", ("param", fn.path, 1), "levels")

        def own_is_empty():
            # `self.is_empty()` where MerkleTree::is_empty returns levels[0].is_empty() (or levels[0].len() == 0)
            q = MERKLE + "::is_empty"
            if q not in P.fns:
                return False
            from lib import ret_as_predicate
            r = ret_as_predicate(W, q)
            l0 = ("index", ("field", ("param", q, 1), "levels"), ("int", 0))
            if isinstance(r, tuple) and r and r[0] == "call" and r[1].split("::")[-1] == "is_empty" and r[2] and r[2][0] == l0:
                return True
            return isinstance(r, tuple) and r and r[0] == "bin" and r[1] == "Eq" and ("len", l0) == tuple(r[2][:2]) and r[3] == ("int", 0)
        for (bb, mac, rels) in ps:
            if mac == "assert":
                if not any((r[0] == "Pred" and r[1] == "is_empty" and r[2] == ("param", fn.path, 1) and own_is_empty()) or (r[0] == "Pred" and r[1] == "is_empty" and r[2] == ("index", lv, ("int", 0))) or
                           (r[0] == "Eq" and isinstance(r[1], tuple) and r[1][:2] == ("len", ("index", lv, ("int", 0))) and r[2] == ("int", 0)) for r in rels):
                    return False, "the assert! in compute_root is no longer `!self.levels[0].is_empty()`"
            elif mac == "assert_eq":
                if not any(r[0] == "Ne" and isinstance(r[1], tuple) and r[1][0] == "len" and isinstance(r[1][1], tuple) and r[1][1][:2] == ("index", lv) and r[2] == ("int", 1) for r in rels):
                    return False, "the assert_eq! in compute_root is no longer `levels[top].len() == 1`"
        fn2, ev2, ps2 = panics(MSG + "::encode")
        if fn2 is None:
            return False, "encode missing"
        for (bb, mac, rels) in ps2:
            if mac in ("assert_eq", "assert"):
                def is_size(x):
                    return isinstance(x, tuple) and x and x[0] == "call" and x[1].endswith("RtMessage::encoded_size") and x[2] and x[2][0] == ("param", fn2.path, 1)
                def is_outlen(x):
                    return isinstance(x, tuple) and x and x[0] == "len" and isinstance(x[1], tuple) and x[1][0] == "obj"
                if not any(r[0] == "Ne" and ((is_outlen(r[1]) and is_size(r[2])) or (is_outlen(r[2]) and is_size(r[1]))) for r in rels):
                    return False, "the length assertion in encode is no longer `out.len() == self.encoded_size()`"
        return True, "compute_root asserts non-empty leaves and a single root node; encode asserts len == encoded_size()"

    def req_path_depth_assert_covers_u8_batches(self):
        """Every assertion in get_paths about the walked depth allows at least the 8 levels a batch of 255 leaves has (`level <= K`, K >= 8)."""
        P, W = self.P, self.W
        fn = P.fns.get(MERKLE + "::get_paths")
        if fn is None:
            return False, "MerkleTree::get_paths missing"
        ev = W.ev(fn.path)
        IN = flow.must_facts(fn, ev)
        n = 0
        for bb, t in fn.calls():
            p = strip_generics(t["fn"].get("path", ""))
            if not (p.startswith("core::panicking::") or p.endswith("begin_panic")):
                continue
            n += 1
            ok = False
            for r in flow.rel_facts_at(IN, bb):
                # the panic is reached when the depth exceeds K: K < depth (or K <= depth)
                if r[0] in ("Lt", "Le") and isinstance(r[1], tuple) and r[1][0] == "int":
                    k = r[1][1] + (0 if r[0] == "Lt" else -1)
                    if k >= 8:
                        ok = True
                    else:
                        return False, "get_paths asserts a depth of at most %d, a batch of 255 requests has 8 levels" % k
            if not ok:
                return False, "an assertion in get_paths is not a depth bound of at least 8 levels"
        return True, "%d depth assertion(s) in get_paths allow >= 8 levels" % n

    def req_batch_size_is_u8(self):
        P, W = self.P, self.W
        adt = P.adts.get(SERVER)
        f = [x for x in adt["variants"][0]["fields"] if x["name"] == "batch_size"] if adt else []
        if not f or f[0]["ty"] != "u8":
            return False, "Server.batch_size is not a u8"
        fn = P.fns.get(SERVER + "::collect_requests")
        ev = W.ev(fn.path)
        for bb, t in fn.calls():
            p = strip_generics(t["fn"].get("path", ""))
            if p.startswith(RESP + "::add_"):
                loops = fn.in_loop(bb)
                if not loops:
                    return False, "request is queued outside the bounded batch loop"
                okr = False
                for b2, t2 in fn.calls():
                    if callee_name(t2["fn"].get("path", "")) == "next" and "Range" in t2["fn"]["path"] and any(b2 in l["body"] for l in loops):
                        src = W.expand(ev.call_args(b2)[0])
                        while isinstance(src, tuple) and src[0] == "reader":
                            src = src[1]
                        if src[0] == "agg" and str(src[1]).endswith("Range::Range") and src[2][1] == ("field", ("param", fn.path, 1), "batch_size"):
                            okr = True
                if not okr:
                    # a counter loop with the same trip count: `while i < self.batch_size { ..; i += 1 }`, `let mut left = self.batch_size; while left > 0 { left -= 1; .. }`
                    from lib import counted_trips
                    bs = ("field", ("param", fn.path, 1), "batch_size")
                    for l in loops:
                        ct = counted_trips(W, ev, fn, l)
                        if ct is not None:
                            vals = [ct["count"](lambda t, n=n: n if t == bs else (t[1] if isinstance(t, tuple) and t and t[0] == "int" else None)) for n in (1, 7, 255)]
                            if vals == [1, 7, 255]:
                                okr = True
                if not okr:
                    return False, "batch loop is not `0..self.batch_size`"
        pe = P.fns.get(SERVER + "::process_events")
        pev = W.ev(pe.path)
        coll = [bb for bb, t in pe.calls() if strip_generics(t["fn"].get("path", "")).endswith("Server::collect_requests")]
        resets = [bb for bb, t in pe.calls() if strip_generics(t["fn"].get("path", "")).endswith("Responder::reset")]
        if len(coll) != 1 or len(resets) != 2 or not all(pe.dominates(r, coll[0]) and set(map(id, pe.in_loop(r))) == set(map(id, pe.in_loop(coll[0]))) for r in resets):
            return False, "both responders are not reset before every collect_requests"
        return True, "at most u8::MAX requests are queued between two resets"

    def req_merkle_hash_width_ge_32(self):
        from lib import bytelen, VERSION, VERSIONS
        from values import Ev
        P, W = self.P, self.W
        hf = P.fns.get(MERKLE + "::hash")
        for v in VERSIONS:
            assume = {("field", ("param", f.path, 1), "version"): ("enum", VERSION, v) for f in P.fns.values() if f.impl_self == MERKLE}
            ev = Ev(P, hf, assume=assume)
            ev.live()
            n = bytelen(W, ev, ev.ret())
            if n is None or n < 32:
                return False, "hash() width for %s is %s" % (v, n)
        callers = {c[0] for c in P.callers(MERKLE + "::finalize_output")}
        if not all(c.startswith(MERKLE + "::") for c in callers):
            return False, "finalize_output has callers outside MerkleTree: %s" % sorted(callers)
        return True, "every tree hash is >= 32 bytes"

    def req_rtmessage_parallel_vectors(self):
        P, W = self.P, self.W
        af = P.fns.get(MSG + "::add_field")
        ev = W.ev(af.path)
        pt = [bb for bb, t in af.calls() if callee_name(t["fn"].get("path", "")) == "push" and ev.call_args(bb)[0] == ("field", ("param", af.path, 1), "tags")]
        pv = [bb for bb, t in af.calls() if callee_name(t["fn"].get("path", "")) == "push" and ev.call_args(bb)[0] == ("field", ("param", af.path, 1), "values")]
        if len(pt) != 1 or len(pv) != 1 or not af.dominates(pt[0], pv[0]):
            return False, "add_field does not push tag and value together"
        # no return between the two pushes
        if not values.must_pass(af, [pv[0]], from_block=af.succ(pt[0])[0]):
            return False, "add_field can return after pushing only the tag"
        cl = P.fns.get(MSG + "::clear")
        cev = W.ev(cl.path)
        cleared = {cev.call_args(bb)[0][2] for bb, t in cl.calls() if callee_name(t["fn"].get("path", "")) == "clear" and _all_exits_dominated(cl, bb)
                   and cev.call_args(bb)[0][0] == "field"}
        if cleared != {"tags", "values"}:
            return False, "clear() clears %s" % sorted(cleared)
        for (fn, bb, idx, fields) in W.ctor_fields(MSG):
            if fn.path == MSG + "::new_deliberately_invalid" or fn.derived:
                continue
            a, b = fields.get("tags"), fields.get("values")
            if not (is_call(a, "with_capacity") and is_call(b, "with_capacity")):
                return False, "%s constructs tags=%s values=%s" % (fn.path, values.fmt(a), values.fmt(b))
        # the escape hatch: callers build both vectors with one push each per loop iteration
        for (cp, cbb) in P.callers(MSG + "::new_deliberately_invalid"):
            cf = P.fns[cp]
            cev2 = W.ev(cp)
            a = cev2.call_args(cbb)
            if a[0][0] != "obj" or a[1][0] != "obj":
                return False, "new_deliberately_invalid called with %s" % [values.fmt(x) for x in a]
            counts = []
            for o in a[:2]:
                ps = [b for (b, callee, argi, ap) in W.obj_events(o) if callee_name(callee) == "push"]
                others = [callee_name(callee) for (b, callee, argi, ap) in W.obj_events(o) if argi == 0 and cf.blocks[b].term["arg_tys"][0].startswith("&mut") and callee_name(callee) != "push"]
                if others:
                    return False, "vector passed to new_deliberately_invalid is also modified by %s" % others
                counts.append(ps)
            if len(counts[0]) != 1 or len(counts[1]) != 1:
                return False, "unequal number of pushes"
            l0, l1 = cf.in_loop(counts[0][0]), cf.in_loop(counts[1][0])
            if [id(x) for x in l0] != [id(x) for x in l1] or not cf.dominates(counts[0][0], counts[1][0]):
                return False, "tag and value pushes are not in the same loop iteration"
        return True, "tags/values are pushed, cleared and constructed pairwise"

    def req_rtmessage_tags_bounded(self):
        import importlib
        from framework import Ctx
        mod = importlib.import_module("rules.C05")
        c = Ctx("C05", self.P, self.ctx.repo, "quick", self.ctx.feature)
        mod.run(c)
        bad = [i for i in c.instances if not i["ok"] and i["rule"] in ("ascending-enforced",)]
        if bad:
            return False, "C05 ascending-enforced fails: " + bad[0]["detail"]
        n = len(self.P.adts["roughenough::tag::Tag"]["variants"])
        return n <= 64, "strictly ascending tags over a %d-variant enum" % n

    def req_index_sample_full_permutation(self):
        P, W = self.P, self.W
        fn = P.fns.get("roughenough::grease::Grease::randomly_order_tags")
        if fn is None:
            return False, "randomly_order_tags missing"
        ev = W.ev(fn.path)
        samples = [bb for bb, t in fn.calls() if strip_generics(t["fn"].get("path", "")).endswith("seq::index::sample")]
        if len(samples) != 1:
            return False, "expected one index::sample call"
        a = ev.call_args(samples[0])
        n = a[1]
        from lib import uncast
        if a[1] != a[2] or not (is_call(uncast(n), "RtMessage::num_fields") and uncast(n)[2][0] == ("param", fn.path, 2)):
            return False, "sample(rng, %s, %s) is not over num_fields() of the source message" % (values.fmt(a[1]), values.fmt(a[2]))
        for bb, t in fn.calls():
            if callee_name(t["fn"].get("path", "")) == "get" and "slice" in t["fn"]["path"]:
                g = [W.expand(x) for x in ev.call_args(bb)]
                base = g[0]
                if not (is_call(base) and callee_name(base[1]) in ("tags", "values") and base[2][0] == ("param", fn.path, 2)):
                    return False, "get() on %s" % values.fmt(base)
                if not values.contains(g[1], lambda s: is_call(s) and strip_generics(s[1]).endswith("seq::index::sample")):
                    return False, "index %s does not come from the sample" % values.fmt(g[1])
        nf = P.fns.get(MSG + "::num_fields")
        r = W.ev(nf.path).ret()
        if not (uncast(r) == ("len", ("field", ("param", nf.path, 1), "tags"))):
            return False, "num_fields is %s" % values.fmt(r)
        return True, "indices are drawn from 0..num_fields() of the same message"

    def req_epoch_constant(self):
        P, W = self.P, self.W
        n = 0
        # every conversion of the clock in OnlineKey (in the two midpoint helpers, or hoisted into make_srep) is `now.duration_since(UNIX_EPOCH)`
        for fn in [f for f in P.fns.values() if f.impl_self == "roughenough::key::online::OnlineKey" and not f.derived]:
            name = fn.path.split("::")[-1]
            ev = W.ev(fn.path)
            for bb, t in fn.calls():
                if callee_name(t["fn"].get("path", "")) == "duration_since":
                    a = ev.call_args(bb)
                    zero = all(s[1] == 0 for s in values.subterms(a[1]) if isinstance(s, tuple) and s and s[0] == "int")
                    recv_is_time_param = isinstance(a[0], tuple) and a[0] and a[0][0] == "param" and a[0][1] == fn.path and "SystemTime" in fn.locals[a[0][2]]["ty"]
                    if not recv_is_time_param or not zero or "SystemTime" not in str(a[1]):
                        return False, "%s computes duration_since(%s)" % (name, values.fmt(a[1]))
                    n += 1
        return n >= 1, "the midpoint is computed from now.duration_since(UNIX_EPOCH) (%d conversion site(s))" % n

    def req_server_thread_named(self):
        P, W = self.P, self.W
        adt = P.adts.get(SERVER)
        dyn = [f for f in adt["variants"][0]["fields"] if "dyn roughenough::stats::ServerStats" in f["ty"]]
        if not dyn or any("Send" in f["ty"] for f in dyn):
            return False, "Server has no !Send field (Box<dyn ServerStats>)"
        fn = P.fns.get(SERVER + "::new")
        ev = W.ev(fn.path)
        ok = False
        for bb, t in fn.calls():
            if callee_name(t["fn"].get("path", "")) in ("unwrap", "expect"):
                x = values.strip_payload(ev.call_args(bb)[0])
                if is_call(x, "Thread::name") and _all_exits_dominated(fn, bb):
                    ok = True
        if not ok:
            return False, "Server::new does not unwrap the thread name on every path"
        # Responders are only constructed inside Server::new
        cs = {c[0] for c in P.callers(RESP + "::new")}
        if cs != {SERVER + "::new"}:
            return False, "Responder::new is called from %s" % sorted(cs)
        return True, "Server::new unwraps thread::current().name(); Server is !Send; Responders exist only inside a Server"

    def req_compute_delay_guard(self):
        from prover import Bounds
        P, W = self.P, self.W
        fn = P.fns.get(SERVER + "::compute_delay")
        ev = W.ev(fn.path)
        IN = flow.must_facts(fn, ev)
        B = Bounds(W, fn, ev, IN)
        n = 0
        for bb, t in fn.calls():
            f = t["fn"]
            if f.get("trait") == "core::ops::arith::Sub" and "Duration" in (f.get("self_ty") or ""):
                a = ev.call_args(bb)
                rels = flow.rel_facts_at(IN, bb)
                g = any(r[0] == "Le" and r[1] == ("int", 1) and is_call(r[2], "Duration::as_secs") and r[2][2][0] == a[0] for r in rels)
                if not g:
                    return False, "subtraction is not guarded by as_secs() >= 1"
                sub = a[1]
                if not (is_call(sub, "Duration::from_millis") and B.upper(sub[2][0], bb) <= 999):
                    return False, "subtrahend %s is not below one second" % values.fmt(sub)
                n += 1
        return n >= 1, "base >= 1 s and the subtrahend < 1 s"

    def req_health_token_only_when_listener(self):
        P, W = self.P, self.W
        fn = P.fns.get(SERVER + "::new")
        ev = W.ev(fn.path)
        IN = flow.must_facts(fn, ev)
        tok = P.items.get("roughenough::server::EVT_HEALTH_CHECK", {}).get("val", {}).get("int")
        regs = []
        for bb, t in fn.calls():
            if callee_name(t["fn"].get("path", "")) == "register" and "Poll" in t["fn"]["path"]:
                a = ev.call_args(bb)
                tk = [s[1] for s in values.subterms(a[2]) if isinstance(s, tuple) and s and s[0] == "int"] if a[2][0] != "int" else [a[2][1]]
                if tok in tk:
                    regs.append((bb, a))
        if not regs:
            # functional form: `health_listener = config.health_check_port().map(|port| { bind; poll.register(&l, EVT_HEALTH_CHECK, ..); l })`:
            # the closure runs exactly when a port is configured and what it returns becomes the Some(listener) that is stored
            kregs = []
            for b0, t0 in fn.calls():
                if callee_name(t0["fn"].get("path", "")) != "map" or "option::Option" not in t0["fn"].get("path", ""):
                    continue
                a0 = ev.call_args(b0)
                if not (is_call(values.strip_payload(a0[0])) and "health_check_port" in values.strip_payload(a0[0])[1]):
                    continue
                for kp in (t0.get("closures") or []):
                    K = P.fns.get(kp)
                    if K is None:
                        continue
                    kev = W.ev(kp)
                    for b1, t1 in K.calls():
                        if callee_name(t1["fn"].get("path", "")) == "register" and "Poll" in t1["fn"]["path"]:
                            a1 = kev.call_args(b1)
                            tk = [s_[1] for s_ in values.subterms(a1[2]) if isinstance(s_, tuple) and s_ and s_[0] == "int"] if a1[2][0] != "int" else [a1[2][1]]
                            if tok in tk:
                                kregs.append((K, kev, b1, a1, b0))
            if len(kregs) == 1:
                K, kev, b1, a1, b0 = kregs[0]
                (cfn, cbb, cidx, fields) = W.ctor_fields(SERVER)[0]
                hl = values.strip_payload(fields.get("health_listener"))
                same = values.strip_payload(kev.ret()) == values.strip_payload(a1[1]) and all(K.dominates(b1, x) for x in K.exits())
                stored = hl == values.strip_payload(ev.call_term(b0)) or hl == values.strip_payload(kev.ret())
                if not (same and stored):
                    return False, "the listener registered in the health_check_port().map(..) closure is not the one stored in health_listener"
                regs = "functional"
        if regs != "functional" and len(regs) != 1:
            return False, "expected exactly one registration of EVT_HEALTH_CHECK, found %d" % len(regs)
        if regs == "functional":
            pe = P.fns.get(SERVER + "::process_events")
            pev = W.ev(pe.path)
            PIN = flow.must_facts(pe, pev)
            for b2, t2 in pe.calls():
                if strip_generics(t2["fn"].get("path", "")).endswith("Server::handle_health_check"):
                    rr = flow.rel_facts_at(PIN, b2)
                    if not any(r[0] == "Eq" and r[2] == ("int", tok) for r in rr):
                        return False, "handle_health_check is called without matching the token"
            callers = {c[0] for c in P.callers(SERVER + "::handle_health_check")}
            if callers != {SERVER + "::process_events"}:
                return False, "handle_health_check has other callers: %s" % sorted(callers)
            return True, "token %s registered only inside health_check_port().map(..), whose result is the stored listener; handler only under that token" % tok
        bb, a = regs[0]
        (cfn, cbb, cidx, fields) = W.ctor_fields(SERVER)[0]
        hl = fields.get("health_listener")
        alts = hl[1] if hl[0] == "phi" else (hl,)
        some = [x for x in alts if x[0] == "agg" and str(x[1]).endswith("Option::Some")]
        if len(some) != 1 or not (some[0][2][0] == a[1] or values.strip_payload(a[1]) == some[0][2][0]):
            return False, "the registered listener is not the one stored in health_listener (%s vs %s)" % (values.fmt(a[1]), values.fmt(hl))
        rels = flow.rel_facts_at(IN, bb)
        if not any(isinstance(r[1], tuple) and r[1][0] == "discr" and is_call(r[1][1]) and "health_check_port" in r[1][1][1] for r in rels):
            return False, "registration is not inside the `if let Some(port) = config.health_check_port()` branch"
        # the handler is only called under the token match
        pe = P.fns.get(SERVER + "::process_events")
        pev = W.ev(pe.path)
        PIN = flow.must_facts(pe, pev)
        for b2, t2 in pe.calls():
            if strip_generics(t2["fn"].get("path", "")).endswith("Server::handle_health_check"):
                rr = flow.rel_facts_at(PIN, b2)
                if not any(r[0] == "Eq" and r[2] == ("int", tok) for r in rr):
                    return False, "handle_health_check is called without matching the token"
        callers = {c[0] for c in P.callers(SERVER + "::handle_health_check")}
        if callers != {SERVER + "::process_events"}:
            return False, "handle_health_check has other callers: %s" % sorted(callers)
        return True, "token %s registered only with Some(listener); handler only under that token" % tok

    def req_registered_tokens_subset_of_matched(self):
        P, W = self.P, self.W
        fn = P.fns.get(SERVER + "::new")
        ev = W.ev(fn.path)
        regd = set()
        for f in P.fns.values():
            e2 = None
            for bb, t in f.calls():
                if callee_name(t["fn"].get("path", "")) in ("register", "reregister") and "Poll" in t["fn"]["path"]:
                    e2 = e2 or W.ev(f.path)
                    a = e2.call_args(bb)
                    if not f.path.startswith(SERVER):
                        return False, "%s registers with a Poll" % f.path
                    if a[0] != ("obj", fn.path, a[0][2]) and a[0][0] != "obj":
                        pass
                    tk = a[2]
                    if tk[0] == "int":
                        regd.add(tk[1])
                    else:
                        ints = [s[1] for s in values.subterms(tk) if isinstance(s, tuple) and s and s[0] == "int"]
                        if len(ints) != 1:
                            return False, "non-constant token %s" % values.fmt(tk)
                        regd.add(ints[0])
        pe = P.fns.get(SERVER + "::process_events")
        pev = W.ev(pe.path)
        matched = set()
        for bl in pe.blocks:
            t = bl.term
            if t["k"] == "switch":
                term = pev.op(t["op"], (bl.idx, "term"))
                if values.contains(term, lambda s: is_call(s) and callee_name(s[1]) == "token"):
                    for v, tgt in t["cases"]:
                        matched.add(v)
        if not regd or not regd <= matched:
            return False, "registered tokens %s, matched tokens %s" % (sorted(regd), sorted(matched))
        # the poll in process_events is the one created in Server::new (self.poll); Server.poll is private
        adt = P.adts.get(SERVER)
        if any(f["name"] == "poll" and f["vis"] == "pub" for f in adt["variants"][0]["fields"]):
            return False, "Server.poll is public"
        return True, "registered %s subset of matched %s" % (sorted(regd), sorted(matched))


for _n in dir(_Reqs):
    if _n.startswith("req_"):
        setattr(Checker, _n, getattr(_Reqs, _n))


class _Reqs2:
    def _valid_before_spawn(self):
        """workers are spawned only on the is_valid_config() == true edge"""
        P, W = self.P, self.W
        main = P.fns.get("roughenough_server::main")
        if main is None:
            return False, "server main missing"
        mev = W.ev(main.path)
        MIN = flow.must_facts(main, mev)
        n = 0
        for bb, t in main.calls():
            if callee_name(t["fn"].get("path", "")) == "spawn" and "thread" in t["fn"].get("path", ""):
                n += 1
                rels = flow.rel_facts_at(MIN, bb)
                if not any(r[0] == "True" and is_call(r[1], "is_valid_config") for r in rels):
                    return False, "a thread is spawned without is_valid_config() being true"
        # Server::new is only reachable from the spawned closure(s)
        cs = {c[0] for c in P.callers(SERVER + "::new") if not c[0].startswith("roughenough::")}
        return n >= 1, "threads are spawned only after is_valid_config() returned true"

    def _range_ok(self, key):
        import importlib
        from framework import Ctx
        mod = importlib.import_module("rules.C16")
        if not hasattr(self, "_c16"):
            c = Ctx("C16", self.P, self.ctx.repo, "quick", self.ctx.feature)
            mod.run(c)
            self._c16 = c
        bad = [i for i in self._c16.instances if not i["ok"] and i["rule"] == "range-checks" and key in i["key"]]
        return (not bad), (bad[0]["detail"] if bad else "C16 range check for %s holds" % key)

    def req_fault_percentage_validated(self):
        ok, why = self._valid_before_spawn()
        if not ok:
            return ok, why
        ok, why = self._range_ok("fault_percentage")
        if not ok:
            return ok, why
        P, W = self.P, self.W
        for (cp, cbb) in P.callers("roughenough::grease::Grease::new"):
            a = W.expand(W.ev(cp).call_args(cbb)[0])
            # the percentage read from the configuration here, or passed in by the (only) caller(s) who read it there
            cur, cfn_ = a, cp
            for _ in range(3):
                if isinstance(cur, tuple) and cur and cur[0] == "param" and cur[1] == cfn_:
                    cs2 = P.callers(cfn_)
                    vals2 = {W.expand(W.ev(c2).call_args(b2)[cur[2] - 1]) for (c2, b2) in cs2 if len(W.ev(c2).call_args(b2)) >= cur[2]}
                    if len(vals2) == 1 and cs2:
                        cfn_ = cs2[0][0]
                        cur = next(iter(vals2))
                        continue
                break
            a = values.strip_payload(cur) if isinstance(cur, tuple) else cur
            if not (is_call(a) and a[1].endswith("ServerConfig::fault_percentage")):
                return False, "Grease::new is called with %s" % values.fmt(a)
        return True, "fault_percentage <= 50 validated before spawn; Grease::new(config.fault_percentage())"

    def req_worker_threads_named(self):
        P, W = self.P, self.W
        main = P.fns.get("roughenough_server::main")
        mev = W.ev(main.path)
        ok = False
        for bb, t in main.calls():
            if callee_name(t["fn"].get("path", "")) == "spawn" and "Builder" in t["fn"].get("path", ""):
                b = mev.call_args(bb)[0]
                named = values.contains(b, lambda s: is_call(s) and strip_generics(s[1]).endswith("Builder::name")) or (is_call(b) and strip_generics(b[1]).endswith("Builder::name"))
                if not named:
                    return False, "a worker thread is spawned without a name"
                ok = True
        callers = {c[0] for c in P.callers(SERVER + "::new")}
        if not all(c.startswith("roughenough_server::") for c in callers):
            return False, "Server::new has callers outside the server binary's worker entry: %s" % sorted(callers)
        # std::thread::spawn (unnamed) must not be used for workers
        for bb, t in main.calls():
            if strip_generics(t["fn"].get("path", "")) == "std::thread::spawn":
                return False, "an unnamed thread is spawned"
        return ok, "every thread is created with thread::Builder::name(..)"

    def req_interface_parse_validated(self):
        P, W = self.P, self.W
        ok, why = self._valid_before_spawn()
        if not ok:
            return ok, why
        iv = P.fns.get("roughenough::config::is_valid_config")
        ev = W.ev(iv.path)
        IN = flow.must_facts(iv, ev)
        called = [bb for bb, t in iv.calls() if t["fn"].get("trait_method") == "udp_socket_addr" or strip_generics(t["fn"].get("path", "")).endswith("udp_socket_addr")]
        if not called:
            return False, "is_valid_config does not try udp_socket_addr()"
        # its Err arm clears the flag: there is a `flag = false` block under discr(udp_socket_addr()) == Err
        found = False
        for bl in iv.blocks:
            for i, st in enumerate(bl.stmts):
                if st["k"] == "assign" and st["rv"]["k"] == "use" and "c" in st["rv"]["op"] and values.const_term(st["rv"]["op"]["c"]) == ("int", 0) and iv.locals[st["dst"]["l"]]["ty"] == "bool":
                    rels = flow.rel_facts_at(IN, bl.idx)
                    if any(isinstance(r[1], tuple) and r[1][0] == "discr" and is_call(r[1][1]) and "udp_socket_addr" in r[1][1][1] for r in rels):
                        found = True
        if not found:
            return False, "a failing udp_socket_addr() does not invalidate the configuration"
        return True, "is_valid_config rejects configurations whose interface:port does not parse"

    def req_health_listener_reuse_port(self):
        P, W = self.P, self.W
        fn = P.fns.get(SERVER + "::bind_health_check_listener")
        if fn is None:
            return False, "bind_health_check_listener missing"
        ev = W.ev(fn.path)
        for bb, t in fn.calls():
            if callee_name(t["fn"].get("path", "")) == "bind":
                recv = ev.call_args(bb)[0]
                rp = [s for s in values.subterms(recv) if is_call(s) and callee_name(s[1]) == "reuse_port"]
                if rp and all(s[2][1] == ("int", 1) for s in rp):
                    return True, "health check listener is bound with reuse_port(true)"
        return False, "health check listener is bound without reuse_port(true)"

    def req_load_seed_plaintext_ok(self):
        P, W = self.P, self.W
        ls = P.fns.get("roughenough::kms::load_seed")
        ev = W.ev(ls.path)
        IN = flow.must_facts(ls, ev)
        for bl in ls.blocks:
            for i, st in enumerate(bl.stmts):
                if ls.is_return_assign(st, "Ok"):
                    t = ev.rvalue(st["rv"], (bl.idx, i))
                    if is_call(t[2][0]) and t[2][0][1].endswith("ServerConfig::seed"):
                        return True, "the plaintext arm returns Ok(config.seed())"
        return False, "load_seed has no Ok(config.seed()) arm"

    def req_seed_length_validated(self):
        ok, why = self._valid_before_spawn()
        if not ok:
            return ok, why
        ok, why = self._range_ok("seed")
        if not ok:
            return ok, why
        return self.check("load_seed_plaintext_ok")

    def req_config_getters_pure(self):
        P, W = self.P, self.W
        n = 0
        for im in P.impls:
            if im.get("trait") == "roughenough::config::ServerConfig":
                for name, p in im["methods"].items():
                    fn = P.fns.get(p)
                    if fn is None or name == "udp_socket_addr":
                        continue
                    n += 1
                    for bb, t in fn.calls():
                        q = strip_generics(t["fn"].get("path", ""))
                        # Option / NonZero combinators over the field with std function references only (`self.port.map_or(0, NonZeroU16::get)`)
                        std_comb = (q.startswith(("core::option::Option::", "core::num::")) and callee_name(q) in ("map_or", "unwrap_or", "unwrap_or_default", "map", "copied", "cloned", "get", "as_deref", "as_ref", "is_some", "is_none")
                                    and all(c.startswith("fn:core::") or c.startswith("fn:std::") for c in t.get("closures", [])))
                        if not (std_comb or values.is_transparent(t["fn"].get("path", ""), t["fn"].get("trait"), t["fn"].get("trait_method")) or callee_name(q) in ("clone", "as_ref", "deref", "to_owned")):
                            return False, "%s calls %s" % (p, q)
                    if fn.locals[1]["ty"].startswith("&mut"):
                        return False, "%s takes &mut self" % p
        return n >= 20, "%d getters are plain field reads" % n


for _n in dir(_Reqs2):
    if _n.startswith("req_") or _n.startswith("_valid") or _n.startswith("_range"):
        setattr(Checker, _n, getattr(_Reqs2, _n))
