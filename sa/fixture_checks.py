"""E4: positive-fixture self-checks shared by the rule modules.  Each function returns the list of seeded instances the engine
failed to report (empty list = engine alive)."""
import values
from lib import World, enforced
from nopanic import NoPanic


def nopanic_alive(fctx):
    W = World(fctx)
    roots = ["rt_fixture::index_unchecked", "rt_fixture::slice_unchecked", "rt_fixture::unwrap_unchecked", "rt_fixture::add_unchecked", "rt_fixture::index_guarded"]
    eng = NoPanic(fctx, W, roots)
    eng.audited = {}
    recs = eng.run()
    by = {}
    for r in recs:
        by.setdefault(r["fn"], []).append(r)
    missing = []
    for f in roots[:4]:
        if not any(r["status"] == "open" for r in by.get(f, [])):
            missing.append("no-panic: " + f)
    if any(r["status"] == "open" for r in by.get("rt_fixture::index_guarded", [])) or not by.get("rt_fixture::index_guarded"):
        missing.append("no-panic control: guarded index is not proved")
    return missing


def recursion_alive(fctx, depth_guarded):
    W = World(fctx)
    missing = []
    ok, why = depth_guarded(fctx, W, {"rt_fixture::recurse"})
    if ok:
        missing.append("bounded-recursion: unbounded recursion not reported")
    ok, why = depth_guarded(fctx, W, {"rt_fixture::recurse_bounded"})
    if not ok:
        missing.append("bounded-recursion control: bounded recursion not recognised (%s)" % why)
    return missing


def diverge_alive(fctx):
    W = World(fctx)
    P = fctx.prog
    missing = []
    for name, want in (("rt_fixture::unchecked_verify", "unchecked"), ("rt_fixture::checked_verify", "diverge")):
        fn = P.fns[name]
        ev = W.ev(name)
        sites = [bb for bb, t in fn.calls() if "rt_fixture::verify" in P.call_targets(t)]
        v = enforced(fn, ev, sites[0])[0] if sites else "none"
        if v != want:
            missing.append("checked-result: %s gives %s, expected %s" % (name, v, want))
    return missing


def taint_alive(fctx, make_taint, sinks_of):
    W = World(fctx)
    P = fctx.prog
    T = make_taint(W)
    T.scope = lambda p: True
    missing = []
    for name, want in (("rt_fixture::leak", True), ("rt_fixture::no_leak", False)):
        fn = P.fns[name]
        ev = W.ev(name)
        hit = False
        for (bb, kind, terms) in sinks_of(P, fn, ev):
            for x in terms:
                if T.taint(W.expand(x)) or T.taint(x):
                    hit = True
        if hit != want:
            missing.append("taint: %s %s" % (name, "not reported" if want else "falsely reported"))
    return missing


def lossy_cast_alive(fctx):
    from prover import value_preserving_cast
    fn = fctx.prog.fns["rt_fixture::lossy"]
    found = False
    for bl in fn.blocks:
        for st in bl.stmts:
            if st["k"] == "assign" and st["rv"]["k"] == "cast" and st["rv"]["ck"].startswith("IntToInt") and not value_preserving_cast(st["rv"]["from"], st["rv"]["to"]):
                found = True
    return [] if found else ["lossless-conversion: i64 -> u16 cast not reported"]


def dropped_result_alive(fctx, mentions):
    fn = fctx.prog.fns["rt_fixture::dropped"]
    for bb, t in fn.calls():
        dl = t["dst"]["l"]
        if fn.locals[dl]["ty"].startswith("core::result::Result<"):
            real = False
            for bl in fn.blocks:
                for st in bl.stmts:
                    if mentions(st, dl):
                        real = True
                tt = bl.term
                if tt["k"] != "drop" and mentions({k: v for k, v in tt.items() if k != "dst"}, dl):
                    real = True
            if not real:
                return []
    return ["error-discipline: dropped Result not reported"]
