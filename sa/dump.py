#!/usr/bin/env python3
"""Debug helper: pretty-print the MIR facts of a function.  usage: dump.py <fn path regex> [feature]"""
import sys, os, re
sys.path.insert(0, os.path.dirname(os.path.abspath(__file__)))
import facts, mir, values

def pl(p):
    s = "_%d" % p["l"]
    for e in p.get("p", []):
        if e == "deref": s = "(*%s)" % s
        elif "f" in e: s += "." + e.get("name", str(e["f"]))
        elif "dc" in e: s = "(%s as %s)" % (s, e.get("name"))
        elif "idx" in e: s += "[_%d]" % e["idx"]
        elif "cidx" in e: s += "[%s%d of %d]" % ("-" if e.get("end") else "", e["cidx"], e["min"])
        elif "sub" in e: s += "[%d..%s%d]" % (e["sub"][0], "-" if e.get("end") else "", e["sub"][1])
        else: s += "?%s" % e
    return s
def op(o):
    if "c" in o: return values.fmt(values.const_term(o["c"]))
    if "cp" in o: return pl(o["cp"])
    if "mv" in o: return "move " + pl(o["mv"])
    return "?"
def rv(r):
    k = r["k"]
    if k == "use": return op(r["op"])
    if k == "ref": return ("&mut " if r["mut"] else "&") + pl(r["place"])
    if k == "rawptr": return "&raw " + pl(r["place"])
    if k == "cast": return "%s as %s (%s)" % (op(r["op"]), r["to"], r["ck"])
    if k == "binop": return "%s(%s, %s)" % (r["op"], op(r["a"]), op(r["b"]))
    if k == "unop": return "%s(%s)" % (r["op"], op(r["a"]))
    if k == "discr": return "discriminant(%s)" % pl(r["place"])
    if k == "agg": return "%s{%s}" % (r.get("adt", r.get("closure", r["ak"])) + ("::" + r["vname"] if "vname" in r else ""), ", ".join(op(o) for o in r["ops"]))
    if k == "repeat": return "[%s; %s]" % (op(r["op"]), r.get("n"))
    return str(r)
def dump(fn):
    print("fn %s  (%s:%d)  nargs=%d" % (fn.path, fn.file, fn.line, fn.nargs))
    for i, l in enumerate(fn.locals):
        if l.get("name"): print("   _%d: %s = %s" % (i, l["ty"], l["name"]))
    for bl in fn.blocks:
        print(" bb%d%s:" % (bl.idx, " (cleanup)" if bl.cleanup else ""))
        for st in bl.stmts:
            if st["k"] == "assign": print("    %s = %s   // L%s %s" % (pl(st["dst"]), rv(st["rv"]), st.get("line"), st.get("mac", "")))
            else: print("    ", st)
        t = bl.term; k = t["k"]
        if k == "call":
            f = t["fn"]
            print("    %s = %s(%s) -> bb%s unw %s   // L%s %s%s" % (pl(t["dst"]), f.get("path", f.get("ty")), ", ".join(op(a) for a in t["args"]), t["tgt"], t["unw"], t.get("line"), t.get("mac", ""), " VIRTUAL" if f.get("virtual") else ""))
        elif k == "switch": print("    switch %s: %s otherwise bb%d" % (op(t["op"]), ", ".join("%d->bb%d" % (v, b) for v, b in t["cases"]), t["otherwise"]))
        elif k == "assert": print("    assert(%s == %s) %s [%s] -> bb%d" % (op(t["cond"]), t["expected"], t["akind"], ", ".join(op(o) for o in t["aops"]), t["tgt"]))
        elif k == "drop": print("    drop(%s) -> bb%d" % (pl(t["place"]), t["tgt"]))
        elif k == "goto": print("    goto bb%d" % t["tgt"])
        else: print("    " + k)
if __name__ == "__main__":
    P = mir.Program(facts.extract(os.environ.get("REPO", "/repo"), sys.argv[2] if len(sys.argv) > 2 else "default"))
    for f in P.find_fns(sys.argv[1]):
        dump(f)
