import re
"""T-nopanic: inventory of every potential panic site in the crate-local functions reachable from a set of entries,
each discharged by the prover, by a typed rule, or by an audited entry whose required facts are re-checked."""
import json
import os
from collections import defaultdict, deque

import flow
import values
from lib import (World, is_call, callee_name, tag_of, message_events, straight_line, le_written, TAG, intval, bytelen)
from mir import strip_generics
from prover import Bounds, ty_range, array_len, INF, ISIZE_MAX
from values import fmt

VERIF = os.path.dirname(os.path.dirname(os.path.abspath(__file__)))

# ---- dependency callees with panicking preconditions (everything else external is assumed not to panic)
PANICKING_CALLS = {
    "unwrap": "Option/Result::unwrap", "expect": "Option/Result::expect", "unwrap_err": "Result::unwrap_err",
    "expect_err": "Result::expect_err", "unwrap_unchecked": "unsafe unwrap",
}
PANIC_FNS = ("core::panicking::panic_fmt", "core::panicking::panic", "core::panicking::assert_failed",
             "core::panicking::panic_display", "core::panicking::unreachable_display", "core::panicking::panic_explicit",
             "core::panicking::panic_nounwind", "std::rt::begin_panic", "core::option::expect_failed",
             "core::result::unwrap_failed", "core::panicking::panic_bounds_check", "std::process::abort")
# external callees known not to fail (their Result/Option is always Ok/Some) under the stated condition
STATS_ADTS = ("roughenough::stats::ClientStats", "roughenough::stats::aggregated::AggregatedStats",
              "roughenough::stats::per_client::PerClientStats")


def describe(prog, t, depth=0):
    """Position-free and name-free textual descriptor of a term: locals appear by type, parameters by position, so that
    renaming a variable does not change a site key."""
    if not isinstance(t, tuple) or not t:
        return str(t)
    if depth > 4:
        return ".."
    k = t[0]
    if k in ("obj", "loopvar"):
        fn = prog.fns.get(t[1])
        if fn is not None:
            ty = fn.locals[t[2]]["ty"]
            return "<%s>" % short_ty(ty)
        return "<?>"
    if k == "int":
        return str(t[1])
    if k == "param":
        return "arg%d" % t[2]
    if k == "call":
        if depth >= 1:
            # nested calls: only crate-local callees are named (dependency helper calls such as option
            # constructors are elided so that swapping one does not rename the site)
            return "%s(..)" % callee_name(t[1]) if t[1] in prog.fns else "_"
        return "%s(%s)" % (callee_name(t[1]), ",".join(describe(prog, a, depth + 1) for a in t[2]))
    if k == "field":
        return "%s.%s" % (describe(prog, t[1], depth + 1), t[2])
    if k == "vfield":
        return describe(prog, t[1], depth)
    if k == "len":
        return "len(%s)" % describe(prog, t[1], depth + 1)
    if k == "index":
        return "%s[%s]" % (describe(prog, t[1], depth + 1), describe(prog, t[2], depth + 1))
    if k == "bin":
        return "(%s %s %s)" % (describe(prog, t[2], depth + 1), t[1].replace("WithOverflow", ""), describe(prog, t[3], depth + 1))
    if k == "cast":
        return describe(prog, t[3], depth)
    if k == "agg":
        lab = str(t[1]).split("::")[-1]
        return "%s{%s}" % (lab, ",".join(describe(prog, a, depth + 1) for a in t[2]))
    if k == "phi":
        return "phi(%s)" % ",".join(sorted(describe(prog, a, depth + 1) for a in t[1]))
    if k == "enum":
        return "%s::%s" % (t[1].split("::")[-1], t[2])
    if k == "bytes":
        return "b%r" % (t[1][:16],)
    if k == "str":
        return repr(t[1][:24])
    if k == "reader":
        return describe(prog, t[1], depth)
    return k


def pool_key(key):
    """Key under which audited entries and open sites are matched: no ordinal, no parameter positions, and for arithmetic overflow only the
    function and the operation (the operands of a sum can be regrouped freely without changing what may overflow)."""
    k = re.sub(r"#\d+$", "", key)
    k = re.sub(r"\barg\d+", "arg", k)
    k = re.sub(r"/(overflow:[A-Za-z]+)\(.*\)$", r"/\1", k)
    # `c[i]` and `c[a..b]` on the same container are the same kind of obligation (position within the container's length)
    k = re.sub(r"/slice-index\(", "/index(", k)
    # a site inside a closure belongs to the function the closure is written in; a captured `self.f` is the same place as `self.f`
    k = re.sub(r"::\{closure#\d+\}", "", k)
    k = re.sub(r"\barg(\.\d+)+\.", "arg.", k)
    return k


def coarse(prog, t, depth=0):
    """Coarse, expression-independent descriptor used in site keys: access path of the operand (indices elided),
    producer name for call results, type for locals."""
    if not isinstance(t, tuple) or not t:
        return str(t)
    if depth > 4:
        return "_"
    k = t[0]
    if k == "param":
        return "arg%d" % t[2]
    if k in ("obj", "loopvar"):
        fn = prog.fns.get(t[1])
        return "<%s>" % short_ty(fn.locals[t[2]]["ty"]) if fn else "<?>"
    if k == "field":
        return "%s.%s" % (coarse(prog, t[1], depth + 1), t[2])
    if k in ("index", "idx"):
        return "%s[]" % coarse(prog, t[1], depth + 1)
    if k in ("vfield", "reader"):
        return coarse(prog, t[1], depth)
    if k == "cast":
        return coarse(prog, t[3], depth)
    if k == "len":
        return "len(%s)" % coarse(prog, t[1], depth + 1)
    if k == "call":
        inner = coarse(prog, t[2][0], depth + 1) if (t[2] and depth < 1) else ""
        return "%s(%s)" % (callee_name(t[1]), inner)
    if k == "int":
        return str(t[1]) if abs(t[1]) < 10 ** 12 else "N"
    if k in ("bin", "phi", "un"):
        return "expr"
    if k == "agg":
        return str(t[1]).split("::")[-1]
    if k == "str":
        return repr(t[1][:24])
    return k


def short_ty(ty):
    ty = ty.replace("&mut ", "&")
    base = ty.split("<")[0].split("::")[-1]
    if "<" in ty:
        inner = ty[ty.index("<") + 1:].rsplit(">", 1)[0]
        inner = ",".join(x.strip().split("<")[0].split("::")[-1] for x in inner.split(",")[:2])
        return "%s<%s>" % (base, inner)
    return base


def load_audited():
    p = os.path.join(VERIF, "audited_sites.json")
    if not os.path.exists(p):
        return {}
    with open(p) as fh:
        return {e["key"]: e for e in json.load(fh)["sites"]}


def B_adt(eng, t):
    """crate type of the value a term denotes (self of a method or a nested field), through a throw-away Bounds"""
    if isinstance(t, tuple) and t and t[0] == "param" and t[1] in eng.P.fns:
        f = eng.P.fns[t[1]]
        if t[2] == 1 and f.impl_self:
            return f.impl_self
    return None


class NoPanic:
    def __init__(self, ctx, W, roots, rule="no-panic", root_pre=None, skip_fns=(), requirement_checker=None, stop=()):
        self.ctx = ctx
        self.W = W
        self.P = ctx.prog
        self.roots = roots
        self.rule = rule
        self.root_pre = root_pre or {}
        self.audited = load_audited()
        self.req_check = requirement_checker
        self.skip = set(skip_fns)
        self.stop = set(stop)
        self.records = []
        self.bounds = {}
        self.pre = {}
        self.ext_callees = set()
        self._never_err = {}
        self._tags_of_fn = {}
        self.used_audits = set()
        self._audit_pool = None
        self.field_invariants = {}
        from lib import field_min_len
        for (adt, field) in (("roughenough::merkle::MerkleTree", "levels"),):
            n, why = field_min_len(W, adt, field)
            if n > 0:
                self.field_invariants[(adt, field)] = n
            ctx.extra.setdefault("container_invariants", {})["%s.%s" % (adt, field)] = "len >= %d: %s" % (n, why)

    def field_max_invariants(self):
        """Upper bounds on private container fields that follow from checked structural facts: an RtMessage holds at most one entry per Tag
        variant because tags are strictly ascending (requirement rtmessage_tags_bounded, i.e. the C05 ascending-enforced rules)."""
        if getattr(self, "_fmax", None) is None:
            self._fmax = {}
            if self.req_check:
                ok, why = self.req_check("rtmessage_tags_bounded")
                if ok:
                    n = len(self.P.adts[TAG]["variants"]) if TAG in self.P.adts else None
                    if n:
                        self._fmax[("roughenough::message::RtMessage", "tags")] = n
                        self._fmax[("roughenough::message::RtMessage", "values")] = n
            self.ctx.extra.setdefault("container_invariants", {})["roughenough::message::RtMessage.tags/values"] = \
                "len <= %s (strictly ascending tags over the Tag enum)" % (self._fmax.get(("roughenough::message::RtMessage", "tags")),)
            # Responder.requests: one push per add_*_request call, those calls only inside the batch loop of at most u8::MAX passes, and the
            # queue emptied by reset() before every batch (requirement batch_size_is_u8)
            if self.req_check:
                RESP_ = "roughenough::responder::Responder"
                okq, whyq = self.req_check("batch_size_is_u8")
                nps = 0
                if okq:
                    for f_ in self.P.fns.values():
                        if f_.derived:
                            continue
                        e_ = None
                        for bb_, t_ in f_.calls():
                            tys_ = t_.get("arg_tys") or [""]
                            if not (tys_[0].startswith("&mut") and callee_name(t_["fn"].get("path", "")) not in self.NONGROWING):
                                continue
                            e_ = e_ or self.W.ev(f_.path)
                            a_ = e_.call_args(bb_)
                            if a_ and isinstance(a_[0], tuple) and a_[0][:1] == ("field",) and a_[0][2] == "requests" and B_adt(self, a_[0][1]) == RESP_:
                                nps += 1
                                if callee_name(t_["fn"].get("path", "")) != "push" or f_.in_loop(bb_) or f_.impl_self != RESP_ or \
                                        not all(c_[0] == "roughenough::server::Server::collect_requests" or self.P.fns[c_[0]].impl_self == RESP_ and not self.P.fns[c_[0]].in_loop(c_[1])
                                                for c_ in self.P.callers(f_.path)):
                                    okq = False
                if okq and nps:
                    self._fmax[(RESP_, "requests")] = 255
                    self.ctx.extra.setdefault("container_invariants", {})[RESP_ + ".requests (upper)"] = "len <= 255: %s; %d push site(s), one per queued request" % (whyq, nps)
            for (adt, field) in (("roughenough::merkle::MerkleTree", "levels"),):
                n, why = self.guarded_growth_bound(adt, field)
                if n is not None:
                    self._fmax[(adt, field)] = n
                self.ctx.extra.setdefault("container_invariants", {})["%s.%s (upper)" % (adt, field)] = "len <= %s: %s" % (n, why)
        return self._fmax

    NONGROWING = ("clear", "truncate", "pop", "iter_mut", "index_mut", "deref_mut", "as_mut_slice", "as_mut", "get_mut", "last_mut", "first_mut", "swap",
                  "sort", "sort_unstable", "sort_by", "sort_by_key", "reverse", "drain", "retain", "remove", "swap_remove", "shrink_to", "shrink_to_fit",
                  "reserve", "reserve_exact", "into_iter", "chunks_mut", "split_at_mut", "fill", "dedup")

    def guarded_growth_bound(self, adt, field):
        """Upper bound on the length of a private Vec field that holds in every state: every constructor starts it with a known number of
        elements, the only growing operation ever applied to the field itself is `push`, and each push site is guarded by facts from which the
        prover bounds the length before the push (`if self.f.len() < e { self.f.push(..) }` with e bounded).  Returns (bound or None, why)."""
        P, W = self.P, self.W
        a = P.adts.get(adt)
        if a is None:
            return None, "unknown type"
        fl = [x for x in a["variants"][0]["fields"] if x["name"] == field]
        if not fl or fl[0]["vis"] == "pub":
            return None, "field is public"
        inits = []
        for (fn, bb, idx, fields) in W.ctor_fields(adt):
            t = fields.get(field)
            n = None
            if is_call(t) and callee_name(t[1]) == "from_elem" and t[2][1][0] == "int":
                n = t[2][1][1]
            elif is_call(t) and callee_name(t[1]) in ("new", "with_capacity", "default") and "Vec" in t[1]:
                n = 0
            elif is_call(t) and callee_name(t[1]) in ("box_assume_init_into_vec_unsafe", "into_vec"):
                m = re.search(r"; (\d+)\]", P.fns[t[3][0]].blocks[t[3][1]].term["arg_tys"][0])
                n = int(m.group(1)) if m else None
            if n is None:
                return None, "a constructor initialises the field with %s" % fmt(t)
            inits.append(n)
        if not inits:
            return None, "no constructor found"
        bound = max(inits)
        npush = 0
        for fn in P.fns.values():
            if fn.derived:
                continue
            ev = None
            for bl in fn.blocks:
                if bl.idx not in fn.reachable():
                    continue
                for st in bl.stmts:
                    if st["k"] != "assign":
                        continue
                    # assignment to the field itself
                    pj = [e for e in st["dst"].get("p", []) if isinstance(e, dict) and "f" in e]
                    if pj and pj[-1].get("name") == field and pj[-1].get("adt") == adt and st["dst"]["p"][-1] is pj[-1]:
                        return None, "%s assigns the field" % fn.path
                    rv = st["rv"]
                    if rv["k"] in ("ref", "rawptr") and (rv.get("mut") or rv["k"] == "rawptr"):
                        pl = rv["place"].get("p", [])
                        if pl and isinstance(pl[-1], dict) and pl[-1].get("name") == field and pl[-1].get("adt") == adt:
                            # `&mut x.field`: where does the borrow go?
                            l = st["dst"]["l"]
                            uses = [(b2, t2) for b2, t2 in fn.calls() if any((o.get("mv") or o.get("cp") or {}).get("l") == l and not (o.get("mv") or o.get("cp") or {}).get("p") for o in t2["args"])]
                            if len(uses) != 1:
                                return None, "%s takes `&mut %s` and uses it %d times" % (fn.path, field, len(uses))
                            b2, t2 = uses[0]
                            nm = callee_name(t2["fn"].get("path", ""))
                            if nm in self.NONGROWING:
                                continue
                            if nm != "push":
                                return None, "%s applies %s to the field" % (fn.path, nm)
                            npush += 1
                            ev = ev or W.ev(fn.path)
                            B = Bounds(W, fn, ev, pre={})
                            self.halving_loops(fn, B)
                            best = None
                            for b3, t3 in fn.calls():
                                if callee_name(t3["fn"].get("path", "")) == "len" and fn.dominates(b3, b2):
                                    lt = ev.call_term(b3)
                                    if isinstance(lt, tuple) and lt[0] == "len" and isinstance(lt[1], tuple) and lt[1][0] == "field" and lt[1][2] == field:
                                        u = B.upper(lt, b2)
                                        if u != INF and (best is None or u < best):
                                            best = u
                            if best is None:
                                # no explicit len(): `if self.f.get(i).is_none() { self.f.push(..) }` bounds the length just as well
                                u = B.upper(("len", ("field", ("param", fn.path, 1), field)), b2)
                                if u != INF:
                                    best = u
                            if best is None:
                                return None, "the push in %s is not guarded by a bounded length test" % fn.path
                            bound = max(bound, best + 1)
        return bound, "every constructor starts with <= %d element(s); the %d push site(s) are guarded by a length test the prover bounds; nothing else grows the field" % (max(inits), npush)

    def closure_param_axioms(self, fn):
        """A closure handed to an iterator adaptor over `slice.chunks_exact(n)` receives slices of exactly n elements (`chunks(n)`:
        between 1 and n): length facts about the closure's item parameter."""
        if "{closure" not in fn.path:
            return []
        P, W = self.P, self.W
        out = []
        sites = P.closure_sites(fn.path)
        if not sites:
            return out
        owner = sites[0][0]
        oev = W.ev(owner.path)
        for bb, t in owner.calls():
            if fn.path not in (t.get("closures") or []):
                continue
            if callee_name(t["fn"].get("path", "")) not in ("map", "for_each", "filter_map", "flat_map", "all", "any", "find_map", "fold", "try_for_each"):
                continue
            src = W.expand(oev.call_args(bb)[0])
            for _ in range(6):
                if is_call(src) and callee_name(src[1]) in ("take", "skip", "rev", "by_ref", "into_iter", "enumerate", "peekable") and src[2]:
                    if callee_name(src[1]) == "enumerate":
                        src = None
                        break
                    src = W.expand(src[2][0])
                    continue
                break
            if is_call(src) and callee_name(src[1]) in ("chunks_exact", "chunks") and len(src[2]) == 2 and src[2][1][0] == "int" and src[2][1][1] > 0:
                item = ("param", fn.path, 2)
                n = src[2][1][1]
                if callee_name(src[1]) == "chunks_exact":
                    out.append(("Eq", ("len", item), ("int", n)))
                else:
                    out.append(("Le", ("int", 1), ("len", item)))
                    out.append(("Le", ("len", item), ("int", n)))
        return out

    # ------------------------------------------------------------------ driver
    def run(self):
        P = self.P
        reach, ext, parent = P.reach(self.roots, stop=self.stop)
        reach -= self.skip
        self.reach = reach
        self.parent = parent
        self.ext_callees = ext
        order = self.topo(reach)
        for p in order:
            fn = P.fns[p]
            pre = self.compute_pre(fn)
            ev = self.W.ev(p)
            B = Bounds(self.W, fn, ev, pre=pre)
            B.field_min_len = self.field_invariants
            B.field_max_len = self.field_max_invariants()
            B.axioms.extend(self.closure_param_axioms(fn))
            self.bounds[p] = B
            self.pre[p] = pre
            self.cursor_model(fn, B)
            self.halving_loops(fn, B)
            self.accumulator_loops(fn, B)
            self.counted_loop_axioms(fn, B)
            if any(q == p for q, bb in P.callees(fn)):
                self.recursive_pre(fn, B)
        # closures that only spell out the panic message of an `unwrap_or_else` are covered by that call site
        covered = set()
        for p in reach:
            for bb, t in P.fns[p].calls():
                if callee_name(t["fn"].get("path", "")) == "unwrap_or_else" and ("option::Option" in t["fn"].get("path", "") or "result::Result" in t["fn"].get("path", "")):
                    for c in (t.get("closures") or []):
                        if c in P.fns and 0 in P.fns[c].diverging():
                            covered.add(c)
        # helpers that only format and panic are judged at each of their call sites (call_site), not on their own
        covered |= {p for p in reach if p not in self.roots and self.panicking_helper(p)}
        for p in sorted(reach):
            if p in covered:
                continue
            self.scan(P.fns[p])
        # a helper that did not exist on the reference tree is inlined into each of its callers: the copies of one helper site are one site.
        # Where one copy is covered by an audited entry (whose justification is a set of program-wide facts, re-checked on this run), the other
        # copies are covered by the same entry.
        by_origin = {}
        for r in self.records:
            if r.get("origin") and r["status"] == "audited":
                by_origin.setdefault(r["origin"], r)
        open_helpers = {r["origin"][0] for r in self.records if r.get("origin") and r["status"] == "open" and r["origin"] not in by_origin}
        if open_helpers:
            # the copy that carries the audited entry may sit in a reference function that is no longer called from the entry points (it became
            # a wrapper that only other code uses): look at every other function the same helper was inlined into
            shadow_fns = [p for p, hs in P.inlined.items() if p not in reach and p in P.fns and open_helpers & set(hs)]
            main_records, self.records = self.records, []
            used0 = set(getattr(self, "used_audits", ()))
            for p in shadow_fns:
                fn = P.fns[p]
                pre = self.compute_pre(fn)
                B = Bounds(self.W, fn, self.W.ev(p), pre=pre)
                B.field_min_len = self.field_invariants
                B.field_max_len = self.field_max_invariants()
                self.bounds[p] = B
                self.pre[p] = pre
                self.cursor_model(fn, B)
                self.halving_loops(fn, B)
                self.accumulator_loops(fn, B)
                self.counted_loop_axioms(fn, B)
                self.scan(fn)
            for r in self.records:
                if r.get("origin") and r["status"] == "audited":
                    by_origin.setdefault(r["origin"], r)
            self.shadow_records = self.records
            self.records = main_records
        for r in self.records:
            if r.get("origin") and r["status"] == "open" and r["origin"] in by_origin:
                a = by_origin[r["origin"]]
                r["status"] = "audited"
                r["detail"] = "same site as %s (%s, a helper inlined into several callers): %s" % (a["key"], r["origin"][0].split("::")[-1], a["detail"])
        # a site that moved between methods of one type (a computation hoisted from a callee into its caller, or pushed down): an audited entry of
        # the same kind and operand shape in that type which no site of its own function claimed covers it (its required facts are re-checked)
        def type_key(k):
            head, _, tail = pool_key(k).partition("/")
            # for unwrap / expect sites only the producer of the Option / Result identifies the site at this level (its arguments may have become
            # parameters or captured values when the code moved)
            m = re.match(r"^(unwrap|expect)\(([A-Za-z_0-9:]+)\(", tail)
            if m:
                tail = "%s(%s)" % (m.group(1), m.group(2))
            return head.rsplit("::", 1)[0] + "/" + tail
        left = {}
        for lst in (self._audit_pool or {}).values():
            for k2 in lst:
                left.setdefault(type_key(k2), []).append(k2)
        for r in self.records:
            if r["status"] != "open" or "required facts no longer hold" in r["detail"]:
                continue
            cands = left.get(type_key(r["key"]), [])
            if not cands:
                continue
            k2 = cands.pop(0)
            a = self.audited.get(k2)
            missing = []
            for req in a.get("requires", []):
                ok, why = (self.req_check(req) if self.req_check else (False, "no requirement checker"))
                if not ok:
                    missing.append("%s: %s" % (req, why))
            if missing:
                r["detail"] += "; audited entry %s exists but its required facts no longer hold: %s" % (k2, "; ".join(missing))
            else:
                r["status"] = "audited"
                r["detail"] = "audited (entry %s; the site moved to another method of the same type): %s (requires %s)" % (k2, a["reason"], a.get("requires", []))
                self.used_audits.add(k2)
        return self.records

    def recursive_pre(self, fn, B):
        """Parameter intervals of a self-recursive function: least fixpoint by bounded iteration, then widening of
        the growing bounds to infinity followed by one narrowing step (the guards at the recursive call bound them)."""
        base = self.compute_pre(fn)                      # from the non-recursive callers only
        cur = dict(base)

        def within(a, b):
            return a[0] >= b[0] and a[1] <= b[1]

        def hull(a, b):
            return (min(a[0], b[0]), max(a[1], b[1]))

        for it in range(8):
            B.pre.update(cur)
            new = self.compute_pre(fn, include_self=True)
            if all(k in cur and within(v, cur[k]) for k, v in new.items()):
                break
            if it < 2:
                cur = {k: hull(cur.get(k, v), v) for k, v in new.items()}
                continue
            wid = {}
            for k, v in new.items():
                c = cur.get(k, v)
                wid[k] = (c[0] if v[0] >= c[0] else -INF, c[1] if v[1] <= c[1] else INF)
            B.pre.update(wid)
            nar = self.compute_pre(fn, include_self=True)
            cur = {k: hull(base.get(k, nar[k]), nar[k]) for k in nar}
        else:
            cur = {k: (-INF, INF) for k in cur}
        B.pre.update(cur)
        B.pre_params = dict(cur)

    def topo(self, reach):
        P = self.P
        callers = defaultdict(set)
        for p in reach:
            for q, bb in P.callees(P.fns[p]):
                if q in reach and q != p:
                    callers[q].add(p)
        order, seen = [], set()
        state = {}

        def visit(p):
            st = [(p, iter(sorted(callers.get(p, ()))))]
            state[p] = 1
            while st:
                n, it = st[-1]
                adv = False
                for c in it:
                    if state.get(c) is None:
                        state[c] = 1
                        st.append((c, iter(sorted(callers.get(c, ())))))
                        adv = True
                        break
                if not adv:
                    state[n] = 2
                    order.append(n)
                    st.pop()
        for p in sorted(reach):
            if state.get(p) is None:
                visit(p)
        self.callers = callers
        return order

    # ------------------------------------------------------------------ preconditions from the reachable call sites
    def compute_pre(self, fn, include_self=False):
        P = self.P
        pre = dict(self.root_pre.get(fn.path, {}))
        if fn.path in self.roots:
            return pre
        sites = []
        cs = set(self.callers.get(fn.path, ()))
        if include_self:
            cs.add(fn.path)
        for c in sorted(cs):
            cf = P.fns[c]
            for bb, t in cf.calls():
                if fn.path in P.call_targets(t):
                    sites.append((cf, bb, t))
        if not sites:
            return pre
        for i in range(1, fn.nargs + 1):
            ty = fn.locals[i]["ty"]
            pterm = ("param", fn.path, i)
            is_int = ty_range(ty) is not None
            is_seq = ty.startswith("&[") or ty.startswith("&alloc::vec::Vec<") or ty.startswith("&mut [") or ty == "&str"
            if not (is_int or is_seq):
                continue
            lo, hi = INF, -INF
            ok = True
            for (cf, bb, t) in sites:
                B = self.bounds.get(cf.path)
                if B is None or t["fn"].get("virtual") or len(t["args"]) < i:
                    ok = False
                    break
                a = B.ev.op(t["args"][i - 1], (bb, "term"))
                if is_int:
                    l2, h2 = B.lower(a, bb), B.upper(a, bb)
                else:
                    n = array_len(t["arg_tys"][i - 1])
                    if n is not None:
                        l2 = h2 = n
                    else:
                        la = ("len", a)
                        l2, h2 = B.lower(la, bb), B.upper(la, bb)
                lo, hi = min(lo, l2), max(hi, h2)
            if ok and lo != INF:
                key = pterm if is_int else ("len", pterm)
                pre[key] = (lo, hi)
        if fn.path in self.bounds:
            self.bounds[fn.path].pre_params = dict(pre)
        return pre

    # ------------------------------------------------------------------ io::Cursor position model
    def cursor_model(self, fn, B):
        """Exact cursor positions (forward data-flow over the calls that advance the cursor) and the axiom
        position(c) <= len(inner) for cursors whose every set_position argument is itself proven in range."""
        P = self.P
        ev = B.ev
        B.pre_params = dict(B.pre)
        cursors = []
        for l, loc in enumerate(fn.locals):
            if "std::io::cursor::Cursor<" in loc["ty"] and (fn.is_object(l) or (1 <= l <= fn.nargs)):
                cursors.append(l)
        if not cursors:
            return
        self.cursor_pos = getattr(self, "cursor_pos", {})
        for l in cursors:
            cterm = ("param", fn.path, l) if 1 <= l <= fn.nargs else ("obj", fn.path, l)
            entry = None
            inner = None
            if cterm[0] == "obj":
                init = ev.obj_init(l)
                if len(init) == 1 and is_call(init[0][1]) and False:
                    pass
                # Cursor::new is transparent: the initial value term is the inner buffer
                if len(init) == 1:
                    inner = init[0][1]
                    entry_block = init[0][0]
                    entry = 0
            else:
                # all callers pass a cursor whose position is known
                vals, inners = [], []
                for c in self.callers.get(fn.path, ()):
                    cf = P.fns[c]
                    cev = self.W.ev(c)
                    for bb, t in cf.calls():
                        if fn.path in P.call_targets(t):
                            a = cev.call_args(bb)[l - 1]
                            vals.append(self.cursor_pos.get((a, c, bb)))
                            ai = self.W.obj_init(a) if a[0] == "obj" else None
                            # map the caller's inner buffer to one of this function's parameters
                            pj = None
                            for j, aj in enumerate(cev.call_args(bb)):
                                if ai is not None and aj == ai:
                                    pj = ("param", fn.path, j + 1)
                            inners.append(pj)
                if vals and all(v is not None and v == vals[0] for v in vals):
                    entry = vals[0]
                if inners and all(i is not None and i == inners[0] for i in inners):
                    inner = inners[0]
            # forward data-flow of the exact position
            pos = {0: entry if cterm[0] == "param" else None}
            order = fn.rpo()
            state_in = {}
            state_out = {}
            TOPV = "top"
            for _ in range(3):
                for b in order:
                    if b == 0:
                        sin = entry if cterm[0] == "param" else TOPV
                    else:
                        ps = [state_out[p] for p in fn.pred(b) if p in state_out]
                        if not ps:
                            continue
                        sin = ps[0] if all(x == ps[0] for x in ps) else TOPV
                    if sin is None:
                        sin = TOPV
                    state_in[b] = sin
                    sout = sin
                    # object initialisation in this block
                    for i, st in enumerate(fn.blocks[b].stmts):
                        if st["k"] == "assign" and st["dst"]["l"] == l and not st["dst"].get("p"):
                            sout = 0
                    t = fn.blocks[b].term
                    if t["k"] == "call":
                        if t["dst"]["l"] == l and not t["dst"].get("p"):
                            sout = 0 if callee_name(t["fn"].get("path", "")) == "new" else TOPV
                        for i, a in enumerate(t["args"]):
                            at = ev.op(a, (b, "term"))
                            if at != cterm:
                                continue
                            self.cursor_pos[(at, fn.path, b)] = sout if sout != TOPV else None
                            if not t["arg_tys"][i].startswith("&mut"):
                                continue
                            name = callee_name(t["fn"].get("path", ""))
                            adv = {"read_u8": 1, "read_u16": 2, "read_u32": 4, "read_u64": 8}.get(name)
                            if adv is not None and i == 0:
                                sout = sout + adv if sout != TOPV else TOPV
                            elif name == "read_exact" and i == 0:
                                n = array_len(t["arg_tys"][1]) or (array_len(fn.locals[ev.op(t["args"][1], (b, "term"))[2]]["ty"]) if ev.op(t["args"][1], (b, "term"))[0] == "obj" else None)
                                sout = sout + n if (sout != TOPV and n is not None) else TOPV
                            elif name == "set_position" and i == 0:
                                v = ev.op(t["args"][1], (b, "term"))
                                lv = B.lin(v)
                                # may itself refer to a known position() value
                                sout = TOPV
                                if lv[0] is None:
                                    sout = lv[1]
                                elif lv[0] in B.pre and B.pre[lv[0]][0] == B.pre[lv[0]][1]:
                                    sout = B.pre[lv[0]][0] + lv[1]
                            elif name == "position":
                                pass
                            else:
                                sout = TOPV
                    state_out[b] = sout
                # exact values for position() calls
                for b, t in fn.calls():
                    if callee_name(t["fn"].get("path", "")) == "position" and t["args"]:
                        at = ev.op(t["args"][0], (b, "term"))
                        if at == cterm:
                            term = ev.call_term(b)
                            s_at = state_in.get(b, TOPV)
                            if s_at != TOPV and s_at is not None:
                                B.pre[term] = (s_at, s_at)
                            else:
                                B.pre.setdefault(term, (0, ISIZE_MAX))
                                if inner is not None:
                                    ax = ("Le", term, ("len", inner))
                                    if ax not in B.axioms:
                                        B.axioms.append(ax)
                    if callee_name(t["fn"].get("path", "")) == "set_position" and t["args"]:
                        at = ev.op(t["args"][0], (b, "term"))
                        if at == cterm:
                            self.pending_setpos = getattr(self, "pending_setpos", [])
                            self.pending_setpos.append((fn.path, b, inner))

    # ------------------------------------------------------------------ recording
    def rec(self, fn, bb, kind, desc, status, detail, trivial=False):
        # unwrap() and expect(..) are the same obligation: rewording a panic message must not rename a site
        base = "%s/%s(%s)" % (fn.path, "unwrap" if kind == "expect" else kind, desc)
        key = base
        n = sum(1 for r in self.records if r["key"] == key or r["key"].startswith(key + "#"))
        if n:
            key = "%s#%d" % (key, n + 1)
        rec = {"key": key, "fn": fn.path, "bb": bb, "kind": kind, "status": status, "detail": detail, "loc": fn.loc(bb), "trivial": trivial}
        og = fn.blocks[bb].term.get("origin")
        if og:
            rec["origin"] = (og[0], og[1], kind)
        if status == "open" and str(fn.blocks[bb].term.get("mac", "")).startswith("debug_assert"):
            # debug_assert!/debug_assert_eq!/.. (and the arithmetic inside their conditions): compiled only under cfg(debug_assertions).  They are
            # the author's statement of an invariant, not behaviour of the shipped (release) server; what could not be proved is assumed and counted.
            rec["status"] = "typed"
            rec["detail"] = "debug-only assertion (cfg(debug_assertions)), not proved: " + detail
            self.ctx.extra["debug_assertions_assumed"] = self.ctx.extra.get("debug_assertions_assumed", 0) + 1
            self.records.append(rec)
            return rec
        if status == "open":
            # audited entries are matched by their base key with multiplicity (k entries cover k open sites of that shape), so that a proved or
            # newly inserted sibling site does not shift the ordinals
            a = None
            akey = None
            if self._audit_pool is None:
                self._audit_pool = {}
                for k2, e2 in self.audited.items():
                    self._audit_pool.setdefault(pool_key(k2), []).append(k2)
                for lst in self._audit_pool.values():
                    lst.sort()
            # parameter positions are not part of a site's identity (dropping an unused `&self` must not rename the site)
            pool = self._audit_pool.get(pool_key(base), [])
            if key in pool:
                akey = key
            elif pool:
                akey = pool[0]
            if akey is not None:
                pool.remove(akey)
                a = self.audited.get(akey)
            if a is not None:
                key_used = akey
                missing = []
                for req in a.get("requires", []):
                    ok, why = (self.req_check(req) if self.req_check else (False, "no requirement checker"))
                    if not ok:
                        missing.append("%s: %s" % (req, why))
                if missing:
                    rec["status"] = "open"
                    rec["detail"] = detail + "; audited entry exists but its required facts no longer hold: " + "; ".join(missing)
                else:
                    rec["status"] = "audited"
                    rec["detail"] = "audited: %s (requires %s)" % (a["reason"], a.get("requires", []))
                    self.used_audits.add(key_used)
        self.records.append(rec)
        return rec

    # ------------------------------------------------------------------ per-function scan
    def scan(self, fn):
        P = self.P
        B = self.bounds[fn.path]
        ev = B.ev
        mac_blocks = {}
        for bl in fn.blocks:
            b = bl.idx
            if b not in fn.reachable() or bl.cleanup:
                continue
            t = bl.term
            if t["k"] == "assert":
                self.assert_site(fn, B, b, t)
            elif t["k"] == "call":
                self.call_site(fn, B, b, t)

    def halving_loops(self, fn, B):
        """Loop-bound lemma.  A loop that is left only when an unsigned n is <= 1 and that, on every path through one iteration, replaces n by
        n/2 (optionally after one n+1) runs at most 65 times (n < 2^64 and n' <= (n+1)/2 < n for n >= 2).  A counter that starts at a
        constant and is incremented at most once per iteration is then bounded by that constant + 65, in and after the loop."""
        from lib import arith_eval, NotArith
        from values import Ev
        P = self.P
        int_locals = [l for l, loc in enumerate(fn.locals) if loc["ty"] in ("usize", "u64", "u32")]
        if not int_locals or not fn.loops():
            return
        defs = fn.defs()
        for L in fn.loops():
            h, body = L["header"], L["body"]
            cand_n = [l for l in int_locals if any(k == "whole" and b in body for (b, i, k) in defs.get(l, []))]
            for n in cand_n:
                if any(k != "whole" for (b, i, k) in defs.get(n, [])):
                    continue
                SYM = ("sym", "n")
                evs = Ev(P, fn, overrides={n: SYM})
                cls = {}
                bad = False
                grid = list(range(1, 14))
                for (b, i, k) in defs[n]:
                    if b not in body or b not in fn.reachable():
                        continue
                    t = evs.call_term(b) if i == "term" else evs.rvalue(fn.blocks[b].stmts[i]["rv"], (b, i))
                    t = self.W.expand(t)
                    try:
                        vals = [arith_eval(t, {SYM: c}) for c in grid]
                    except NotArith:
                        bad = True
                        break
                    if vals == [c + 1 for c in grid]:
                        cls[b] = "inc"
                    elif vals == [c // 2 for c in grid]:
                        cls[b] = "halve"
                    elif vals == [(c + 1) // 2 for c in grid]:
                        cls[b] = "halve-ceil"       # (n + 1) / 2 < n for n >= 2 as well
                    elif vals == grid:
                        pass
                    else:
                        bad = True
                        break
                if bad or not ({"halve", "halve-ceil"} & set(cls.values())):
                    continue
                # (a) the loop is left only where staying requires n >= 2
                ef = flow.edge_facts(fn, evs)
                div = fn.diverging()
                oka = True
                for (s0, d0) in L["exits"]:
                    if d0 in div:
                        continue
                    stay = [x for x in fn.succ(s0) if x in body]
                    if fn.blocks[s0].term["k"] != "switch" or not stay:
                        oka = False
                        break
                    for x in stay:
                        rels = [r for f in ef.get((s0, x), ()) for r in flow.relational(f)]
                        if not any((r[0] == "Lt" and r[1] == ("int", 1) and r[2] == SYM) or (r[0] == "Le" and r[1] == ("int", 2) and r[2] == SYM) for r in rels):
                            oka = False
                if not oka or not [e for e in L["exits"] if e[1] not in div]:
                    continue
                # every non-diverging exit must test n as it is at that point of the iteration: require the test in a block that no def of n in
                # this iteration precedes, i.e. exits come from blocks from which the defs are still ahead (checked by the path walk: state 0)
                exit_srcs = {e[0] for e in L["exits"] if e[1] not in div}

                _odd = []

                def inc_on_odd_only():
                    if not _odd:
                        IN_ = flow.must_facts(fn, evs)
                        okk = True
                        for b_, c_ in cls.items():
                            if c_ != "inc":
                                continue
                            rels_ = flow.rel_facts_at(IN_, b_)
                            if not any((r[0] == "Ne" and isinstance(r[1], tuple) and r[1][0] == "bin" and r[1][1] in ("Rem", "BitAnd") and r[1][2] == SYM and r[2] == ("int", 0)) or
                                       (r[0] == "Eq" and isinstance(r[1], tuple) and r[1][0] == "bin" and r[1][1] in ("Rem", "BitAnd") and r[1][2] == SYM and r[2] == ("int", 1)) for r in rels_):
                                okk = False
                        _odd.append(okk)
                    return _odd[0]

                def walk(defcls, accept, one_only):
                    """all iteration paths h -> h: sequence of classified defs accepted by the automaton"""
                    seen = set()
                    stack = [(h, 0)]
                    first = True
                    while stack:
                        b, st = stack.pop()
                        if (b, st) in seen:
                            continue
                        seen.add((b, st))
                        if b == h and not first:
                            if not accept(st):
                                return False
                            continue
                        first = False
                        c = defcls.get(b)
                        if b in exit_srcs and st != 0 and not one_only:
                            return False
                        if c == "inc":
                            if st != 0:
                                return False
                            st = 1
                        elif c == "halve":
                            if st == 2:
                                return False
                            st = 2
                        elif c == "halve-ceil":
                            if st != 0 and not (st == 1 and inc_on_odd_only()):
                                return False        # n+1 then ceil((n+1)/2) makes no progress at n = 2 unless the +1 happens on odd n only
                            st = 2
                        for x in fn.succ(b):
                            if x in body:
                                stack.append((x, st))
                    return True

                if not walk(cls, lambda st: st == 2, False):
                    continue
                BOUND = 65
                # the halved variable itself never exceeds its initial value (+1 transiently on the odd edge): n' = (n or n+1)/2 <= n for n >= 1
                outs_n = [(b, i) for (b, i, k) in defs[n] if b not in body]
                if len(outs_n) == 1 and fn.dominates(outs_n[0][0], h):
                    b0, i0 = outs_n[0]
                    t0 = B.ev.call_term(b0) if i0 == "term" else B.ev.rvalue(fn.blocks[b0].stmts[i0]["rv"], (b0, i0))
                    hi0 = B.upper(t0, b0)
                    if hi0 != INF:
                        B.__dict__.setdefault("local_ranges", {})[n] = (0, hi0 + 1)
                        for (b, i, k) in defs[n]:
                            if b in body and i != "term":
                                rv = fn.blocks[b].stmts[i]["rv"]
                                o = (rv["op"].get("mv") or rv["op"].get("cp")) if rv["k"] == "use" else None
                                if o and o.get("p") and len(o["p"]) == 1 and isinstance(o["p"][0], dict) and o["p"][0].get("f") == 0:
                                    B.local_ranges[(o["l"], "0")] = (0, hi0 + 1)
                        self.ctx.extra.setdefault("loop_bounds", []).append("%s: local %s in [0, %d] (halved every iteration, starts at most at %d)" % (
                            fn.path.split("::")[-1], fn.locals[n].get("name") or n, hi0 + 1, hi0))
                # (c) counters
                for c in int_locals:
                    if c == n:
                        continue
                    ds = defs.get(c, [])
                    if not ds or any(k != "whole" for (b, i, k) in ds):
                        continue
                    inside = [(b, i) for (b, i, k) in ds if b in body]
                    outside = [(b, i) for (b, i, k) in ds if b not in body]
                    if not inside or len(outside) != 1 or outside[0][1] == "term" or not fn.dominates(outside[0][0], h):
                        continue
                    rv0 = fn.blocks[outside[0][0]].stmts[outside[0][1]]["rv"]
                    k0 = rv0["op"].get("c", {}).get("int") if rv0["k"] == "use" else None
                    if not isinstance(k0, int) or isinstance(k0, bool):
                        continue
                    CS = ("sym", "c")
                    evc = Ev(P, fn, overrides={c: CS})
                    ccls = {}
                    okc = True
                    for (b, i) in inside:
                        t = evc.rvalue(fn.blocks[b].stmts[i]["rv"], (b, i)) if i != "term" else None
                        try:
                            vals = [arith_eval(self.W.expand(t), {CS: v}) for v in grid] if t is not None else None
                        except NotArith:
                            vals = None
                        if vals == [v + 1 for v in grid]:
                            ccls[b] = "inc"
                        elif vals == grid:
                            pass
                        else:
                            okc = False
                    if not okc or not ccls:
                        continue
                    if not walk(ccls, lambda st: True, True):
                        continue
                    # the counter's value at the loop header, as the engine names it
                    lr = B.__dict__.setdefault("local_ranges", {})
                    lr[c] = (k0, k0 + BOUND)
                    for (b, i) in inside:
                        if i != "term" and ccls.get(b) == "inc":
                            rv = fn.blocks[b].stmts[i]["rv"]
                            o = (rv["op"].get("mv") or rv["op"].get("cp")) if rv["k"] == "use" else None
                            if o and o.get("p") and len(o["p"]) == 1 and isinstance(o["p"][0], dict) and o["p"][0].get("f") == 0:
                                lr[(o["l"], "0")] = (k0, k0 + BOUND)     # `c = move (tmp.0)` with tmp = AddWithOverflow(c, 1)
                    ht = B.ev.local(c, (h, 0))
                    if isinstance(ht, tuple) and ht and ht[0] == "phi":
                        B.pre[ht] = (k0, k0 + BOUND)
                        # the engine cuts the cycle of a loop-carried value with a placeholder: the inner phi is the same counter one visit earlier
                        for x in values.subterms(ht):
                            if isinstance(x, tuple) and x and x[0] == "phi" and ("int", k0) in x[1] and values.contains(x, lambda y: isinstance(y, tuple) and y and y[0] == "loopvar"):
                                B.pre[x] = (k0, k0 + BOUND)
                        self.ctx.extra.setdefault("loop_bounds", []).append("%s: local %s in [%d, %d] (halving loop on %s)" % (
                            fn.path.split("::")[-1], fn.locals[c].get("name") or c, k0, k0 + BOUND, fn.locals[n].get("name") or n))

    ITER_PASS = ("iter", "iter_mut", "into_iter", "enumerate", "map", "copied", "cloned", "filter", "filter_map", "take_while", "skip_while", "rev", "skip", "by_ref",
                 "deref", "deref_mut", "as_ref", "as_slice", "as_mut_slice", "as_mut", "into_iter", "peekable", "inspect", "chunks", "chunks_exact", "windows", "step_by", "values", "keys", "drain")

    def trip_bound(self, fn, L, B):
        """Upper bound on the number of iterations of loop L that get past its `next()` call, or None.  Iterators over slices, vectors and
        maps yield at most 2^63 items (allocation limit), a Range{a,b} of usize at most b - a <= 2^64 - 1."""
        h, body = L["header"], L["body"]
        back = [s for (s, d) in L["backedges"]]
        W = self.W
        best = None
        for bl in sorted(body):
            t = fn.blocks[bl].term
            if t["k"] != "call" or callee_name(t["fn"].get("path", "")) != "next" or not all(fn.dominates(bl, s) for s in back):
                continue
            src = W.expand(B.ev.call_args(bl)[0])

            def tb(x, depth=0):
                while isinstance(x, tuple) and x and x[0] == "reader":
                    x = x[1]
                if depth > 8 or not isinstance(x, tuple) or not x:
                    return None
                if x[0] == "agg" and str(x[1]).endswith("Range::Range") and len(x[2]) == 2:
                    hi = B.upper(x[2][1], h)
                    lo = x[2][0][1] if x[2][0][0] == "int" else 0
                    return (2 ** 64 - 1) if hi == INF else max(int(hi) - lo, 0)
                if x[0] in ("arr", "tuple") and len(x) > 1 and isinstance(x[-1], tuple):
                    return len(x[-1]) if all(isinstance(e, tuple) for e in x[-1]) else None
                if x[0] == "bytes":
                    return len(x[1])
                if is_call(x):
                    nm = callee_name(x[1])
                    if nm == "take" and len(x[2]) == 2:
                        a, n = tb(x[2][0], depth + 1), B.upper(x[2][1], h)
                        n = None if n == INF else int(n)
                        return min([v for v in (a, n) if v is not None], default=None)
                    if nm in ("zip", "chain") and len(x[2]) == 2:
                        a, b2 = tb(x[2][0], depth + 1), tb(x[2][1], depth + 1)
                        if nm == "zip":
                            return min([v for v in (a, b2) if v is not None], default=None)
                        return None if a is None or b2 is None else a + b2
                    if nm == "once":
                        return 1
                    if nm in self.ITER_PASS and x[2]:
                        return tb(x[2][0], depth + 1)
                    return None
                if x[0] == "obj" and x[1] == fn.path:
                    # a vector built in this function: its length is at most the number of pushes, each push site bounded by the loops around it
                    n = self.pushes_bound(fn, x, B, depth)
                    if n is not None:
                        return n
                if x[0] in ("param", "field", "obj", "index", "local", "vfield", "phi"):
                    hi = B.upper(("len", x), h)
                    return 2 ** 63 if hi == INF else int(hi)
                return None
            v = tb(src)
            if v is not None:
                best = v if best is None else min(best, v)
        if best is None:
            from lib import counted_trips
            ct = counted_trips(W, B.ev, fn, L)
            if ct is not None:
                def f(t):
                    if isinstance(t, tuple) and t and t[0] == "int":
                        return t[1]
                    # the count is monotone: largest bound, smallest start (and the reverse for a countdown)
                    want_hi = (t == ct["bound"]) == (ct["step"] == 1)
                    v = B.upper(t, h) if want_hi else B.lower(t, h)
                    return None if v in (INF, -INF) else int(v)
                best = ct["count"](f)
        return best

    def counted_loop_axioms(self, fn, B):
        """A counter that only moves by one in one direction stays on that side of its initial value: `left <= n` for `left = n; while left > 0
        { left -= 1; .. }`, `i >= 0` for an up-counter.  (Checked arithmetic: the step itself is a separate obligation, so the counter never wraps.)"""
        from lib import counted_trips
        for L in fn.loops():
            ct = counted_trips(self.W, B.ev, fn, L)
            if ct is None:
                continue
            c = ct["info"]["counter"]
            tb_ = ct["info"]["test"]
            X = B.ev.local(c, (tb_, 0))
            ax = ("Le", X, ct["init"]) if ct["step"] == -1 else ("Le", ct["init"], X)
            if ax not in B.axioms:
                B.axioms.append(ax)

    def pushes_bound(self, fn, obj, B, depth=0):
        """len(obj) <= number of executed `push` calls on it, when nothing else grows it."""
        if depth > 2:
            return None
        total = 0
        for bb, t in fn.calls():
            tys = t.get("arg_tys") or []
            if not tys or not tys[0].startswith("&mut"):
                continue
            a = B.ev.call_args(bb)
            if not a or a[0] != obj:
                continue
            nm = callee_name(t["fn"].get("path", ""))
            if nm in self.NONGROWING or nm in ("clear", "truncate", "pop", "reserve", "reserve_exact", "sort", "sort_unstable", "iter_mut", "as_mut_slice", "deref_mut", "index_mut", "last_mut", "first_mut"):
                continue
            if nm != "push":
                return None
            T = 1
            for L in fn.loops():
                if bb in L["body"]:
                    tc = self.__dict__.setdefault("_tc", {})
                    tb = tc.setdefault((fn.path, L["header"]), "?")
                    if tb == "?":
                        tc[(fn.path, L["header"])] = None      # cycle guard: a loop over the vector it fills
                        tb = self.trip_bound(fn, L, B)
                        tc[(fn.path, L["header"])] = tb
                    if tb is None:
                        return None
                    T *= tb
            total += T
        return total

    def accumulator_loops(self, fn, B):
        """Loop-bound lemma for counters and totals.  A 64-bit local that is set to a constant k before a nest of bounded loops and is only ever
        changed inside them by `c = c + d` is at most k + sum over the update sites of (product of the trip bounds of the loops around the site that do
        not contain the initialisation) * max d: a block runs at most once per iteration of its innermost loop.  The lemma records that range
        for the local when it is below 2^64, which discharges the overflow obligation of the update."""
        from lib import arith_eval, NotArith
        from values import Ev
        P = self.P
        if not fn.loops():
            return
        int_locals = [l for l, loc in enumerate(fn.locals) if loc["ty"] in ("usize", "u64")]
        defs = fn.defs()
        trips = {}
        for c in int_locals:
            ds = [(b, i, k) for (b, i, k) in defs.get(c, []) if b in fn.reachable()]
            if len(ds) < 2 or any(k != "whole" or i == "term" for (b, i, k) in ds):
                continue
            inits = []
            for (b, i, k) in ds:
                rv = fn.blocks[b].stmts[i]["rv"]
                k0 = rv["op"].get("c", {}).get("int") if rv["k"] == "use" and "c" in rv.get("op", {}) else None
                if isinstance(k0, int) and not isinstance(k0, bool):
                    inits.append((b, i, k0))
            if len(inits) != 1:
                continue
            ib, ii, k0 = inits[0]
            CS = ("sym", "acc")
            evc = Ev(P, fn, overrides={c: CS})
            total = k0
            ok = True
            sites = []
            for (b, i, k) in ds:
                if (b, i) == (ib, ii):
                    continue
                if not fn.dominates(ib, b):
                    ok = False
                    break
                t = self.W.expand(evc.rvalue(fn.blocks[b].stmts[i]["rv"], (b, i)))
                if t == CS:
                    continue
                d = None
                if isinstance(t, tuple) and t and t[0] == "bin" and t[1] == "Add":
                    if t[2] == CS and not values.contains(t[3], lambda y: y == CS):
                        d = t[3]
                    elif t[3] == CS and not values.contains(t[2], lambda y: y == CS):
                        d = t[2]
                if d is None:
                    ok = False
                    break
                D = B.upper(d, b)
                if D == INF:
                    ok = False
                    break
                around = [L for L in fn.loops() if b in L["body"] and ib not in L["body"]]
                if not around:
                    ok = False       # a straight-line second assignment: not an accumulator
                    break
                T = 1
                for L in around:
                    key = L["header"]
                    if key not in trips:
                        trips[key] = self.trip_bound(fn, L, B)
                    if trips[key] is None:
                        T = None
                        break
                    T *= trips[key]
                if T is None:
                    ok = False
                    break
                total += T * int(D)
                sites.append((b, i))
            if not ok or not sites or total >= 2 ** 64:
                continue
            lr = B.__dict__.setdefault("local_ranges", {})
            lr[c] = (k0, total)
            for (b, i) in sites:
                rv = fn.blocks[b].stmts[i]["rv"]
                o = (rv["op"].get("mv") or rv["op"].get("cp")) if rv["k"] == "use" else None
                if o and o.get("p") and len(o["p"]) == 1 and isinstance(o["p"][0], dict) and o["p"][0].get("f") == 0:
                    lr[(o["l"], "0")] = (k0, total)
            self.ctx.extra.setdefault("loop_bounds", []).append("%s: local %s in [%d, %d] (accumulator over bounded loops)" % (
                fn.path.split("::")[-1], fn.locals[c].get("name") or c, k0, total))

    def same_assert_before(self, fn, B, b, t, kind, ops):
        """A dominating assert of the same kind on the same operand values: it did not fail on the way here, so this one cannot (terms are
        values; a dominating site lies between the last visit of every enclosing loop header and this site, so loop variables agree)."""
        ev = B.ev
        if any(o[0] == "top" for o in ops if isinstance(o, tuple)):
            return None
        for bl in fn.blocks:
            t1 = bl.term
            if bl.idx == b or t1["k"] != "assert" or t1.get("akind") != kind or bl.idx not in fn.reachable() or not fn.dominates(bl.idx, b):
                continue
            ops1 = [ev.op(o, (bl.idx, "term")) for o in t1["aops"]]
            if ops1 != ops:
                continue
            # operands that are call results / snapshots must not be recomputed in between (same policy as length snapshots)
            btw = B._between(bl.idx, b)
            if btw is None:
                continue
            if self._terms_stable(fn, ops, btw):
                return bl.idx
        return None

    def _terms_stable(self, fn, terms, between):
        for tm in terms:
            for x in values.subterms(tm):
                if isinstance(x, tuple) and x and x[0] in ("call", "len") and isinstance(x[-1], tuple) and len(x[-1]) == 2 and x[-1][0] == fn.path and x[-1][1] in between:
                    return False
                if isinstance(x, tuple) and x and x[0] == "len" and len(x) == 2:
                    return False        # the length of a place, not of a value: may have changed
        return True

    def upper_from_index(self, fn, B, b, term):
        """Upper bound of `term` at block b from a dominating `container[term]` that did not panic (so term < len(container)), when the
        container's length has a known upper bound and term's value cannot have changed in between."""
        ev = B.ev
        best = INF
        if not isinstance(term, tuple) or term[0] == "int":
            return best
        for b1, t1 in fn.calls():
            if b1 == b or t1["fn"].get("trait") not in ("core::ops::index::Index", "core::ops::index::IndexMut") or not fn.dominates(b1, b):
                continue
            if "usize" not in (t1.get("arg_tys") or ["", ""])[1] or "Range" in t1["arg_tys"][1]:
                continue
            a1 = ev.call_args(b1)
            if len(a1) != 2 or a1[1] != term:
                continue
            btw = B._between(b1, b)
            if btw is None or not self._terms_stable(fn, [term], btw):
                continue
            n = array_len(t1["arg_tys"][0])
            u = n if n is not None else B.upper(("len", a1[0]), b1)
            if u != INF:
                best = min(best, u - 1)
        return best

    def reindexed(self, fn, B, b, base, idx):
        """`c[i]` where every path here has already passed `c[i]` with the same index value and c cannot have shrunk since."""
        ev = B.ev
        for b1, t1 in fn.calls():
            if b1 == b or t1["fn"].get("trait") not in ("core::ops::index::Index", "core::ops::index::IndexMut") or not fn.dominates(b1, b):
                continue
            a1 = ev.call_args(b1)
            if len(a1) != 2 or a1[0] != base or a1[1] != idx:
                continue
            btw = B._between(b1, b)
            if btw is None or not self._terms_stable(fn, [idx], btw):
                continue
            ok = True
            for n in btw:
                tn = fn.blocks[n].term
                for m in flow.mutated_bases(fn, ev, n):
                    if tn["k"] != "call" and (m == base or values.contains(base, lambda x, m=m: x == m)):
                        ok = False
                if tn["k"] == "call" and n != b1:
                    nm = callee_name(tn["fn"].get("path", ""))
                    for ao, ty in zip(ev.call_args(n), tn.get("arg_tys", [])):
                        if ty.startswith("&mut") and (ao == base or values.contains(base, lambda x, ao=ao: x == ao)):
                            # a `&mut` to the container itself (or to what holds it): only growth is allowed
                            if not (ao == base and nm in ("push", "extend_from_slice", "extend", "reserve", "reserve_exact", "insert", "append", "resize_with_grow")):
                                ok = False
                if not ok:
                    break
            if ok:
                return b1
        return None

    def live_length_sum(self, B, b, terms):
        """`terms` add up to a sum of the sizes of distinct buffers that exist in memory at the same time plus small constants
        (`4 + a.len() + b.len() + c.len()`): such a sum is below the size of the address space.  Returns the number of buffers, or None."""
        leaves, stack = [], [self.W.expand(x) for x in terms]
        while stack:
            x = stack.pop()
            while isinstance(x, tuple) and x and x[0] == "cast" and x[1] in ("usize", "u64", "u32", "u16", "u8") and x[2] in ("usize", "u64"):
                x = x[3]
            if isinstance(x, tuple) and x and x[0] == "bin" and x[1].replace("WithOverflow", "") == "Add":
                stack += [x[2], x[3]]
            elif isinstance(x, tuple) and x and x[0] == "field" and x[2] == "0" and isinstance(x[1], tuple) and x[1][0] == "bin" and x[1][1].startswith("Add"):
                stack += [x[1][2], x[1][3]]
            elif isinstance(x, tuple) and x and x[0] == "int" and 0 <= x[1] <= 2 ** 32:
                continue
            elif isinstance(x, tuple) and x and x[0] == "len":
                leaves.append(x[1])
            elif B.upper(x, b) <= 2 ** 32 and B.lower(x, b) >= 0:
                continue
            else:
                return None
        if leaves and len(set(leaves)) == len(leaves) and len(leaves) <= 8:
            return len(leaves)
        return None

    def assert_site(self, fn, B, b, t):
        ev = B.ev
        P = self.P
        cond = ev.op(t["cond"], (b, "term"))
        kind = t["akind"]
        ops = [ev.op(o, (b, "term")) for o in t["aops"]]
        desc = ",".join(coarse(P, o) for o in ops)
        if cond[0] == "int" and bool(cond[1]) == t["expected"]:
            return self.rec(fn, b, kind, desc, "proved", "condition is constant", trivial=True)
        if kind.startswith("other:MisalignedPointerDereference") or kind.startswith("other:NullPointerDereference"):
            return self.rec(fn, b, kind.split("{")[0].split("(")[0].strip(), "compiler-inserted", "typed",
                            "debug-build pointer check on a reference/Box the compiler just created (never null or misaligned)", trivial=True)
        if B.infeasible(b):
            return self.rec(fn, b, kind, desc, "proved", "block is infeasible under the branch facts")
        # operand type: from the operand places
        oty = None
        for o in t["aops"]:
            pl = o.get("cp") or o.get("mv")
            if pl is not None and not pl.get("p"):
                oty = fn.locals[pl["l"]]["ty"]
                break
            if "c" in o:
                oty = oty or o["c"].get("ty")
        rng = ty_range(oty) if oty else None
        if kind.startswith("overflow:") and rng and len(ops) == 2:
            op = kind.split(":")[1]
            a, c = ops
            prev = self.same_assert_before(fn, B, b, t, kind, ops)
            if prev is not None:
                return self.rec(fn, b, kind, desc, "proved", "the same checked operation on the same values succeeded at %s, which every path here passes" % fn.loc(prev))
            if self.stats_counter(fn, b, a, c):
                return self.rec(fn, b, kind, desc, "typed", "statistics counter increment (assumption: a counter does not wrap within a window)")
            if op in ("Add", "Mul"):
                # a value that has just been used as an index without panicking is below that container's length
                ia, ic = self.upper_from_index(fn, B, b, a), self.upper_from_index(fn, B, b, c)
                ua, uc = min(B.upper(a, b), ia), min(B.upper(c, b), ic)
                if (ia != INF or ic != INF) and B.lower(a, b) >= 0 and B.lower(c, b) >= 0 and INF not in (ua, uc) and \
                        ((op == "Add" and ua + uc <= rng[1]) or (op == "Mul" and ua * uc <= rng[1])):
                    return self.rec(fn, b, kind, desc, "proved", "an operand was used as an index on every path here, so it is below that container's length: %s %s %s <= %s" % (ua, "+" if op == "Add" else "*", uc, rng[1]))
            if op == "Add":
                ua, uc = B.upper(a, b), B.upper(c, b)
                if ua + uc <= rng[1] and B.lower(a, b) + B.lower(c, b) >= rng[0]:
                    return self.rec(fn, b, kind, desc, "proved", "%s + %s <= %s" % (ua, uc, rng[1]))
                if oty in ("usize", "u64"):
                    nl_ = self.live_length_sum(B, b, [a, c])
                    if nl_:
                        return self.rec(fn, b, kind, desc, "typed", "sum of the lengths of %d distinct live buffers and small constants: below the size of the address space" % nl_)
            elif op == "Sub":
                if rng[0] == 0 and B.le(c, a, 0, b):
                    return self.rec(fn, b, kind, desc, "proved", "subtrahend <= minuend by branch facts")
                if rng[0] < 0 and B.lower(a, b) - B.upper(c, b) >= rng[0] and B.upper(a, b) - B.lower(c, b) <= rng[1]:
                    return self.rec(fn, b, kind, desc, "proved", "difference within range")
            elif op == "Mul":
                ua, uc = B.upper(a, b), B.upper(c, b)
                if B.lower(a, b) >= 0 and B.lower(c, b) >= 0 and INF not in (ua, uc) and ua * uc <= rng[1]:
                    return self.rec(fn, b, kind, desc, "proved", "%s * %s <= %s" % (ua, uc, rng[1]))
            return self.rec(fn, b, kind, desc, "open", "cannot bound %s %s %s within %s" % (describe(P, a), op, describe(P, c), oty))
        if kind in ("div_zero", "rem_zero") and ops:
            d = ops[0]
            # the assert operand is the dividend in MIR; the condition is `divisor == 0`
            c = cond
            if isinstance(c, tuple) and c[0] == "bin" and c[1] == "Eq":
                dv = c[2] if c[3] == ("int", 0) else c[3]
                if B.lower(dv, b) >= 1 or B.upper(dv, b) <= -1:
                    return self.rec(fn, b, kind, coarse(P, dv), "proved", "divisor is non-zero")
            return self.rec(fn, b, kind, desc, "open", "divisor may be zero")
        if kind == "bounds" and len(ops) == 2:
            ln, ix = ops
            if B.le(ix, ln, -1, b) and B.lower(ix, b) >= 0:
                return self.rec(fn, b, kind, desc, "proved", "index < len")
            return self.rec(fn, b, kind, desc, "open", "cannot prove %s < %s" % (describe(P, ix), describe(P, ln)))
        return self.rec(fn, b, kind, desc, "open", "unhandled assert kind")

    def stats_counter(self, fn, b, a, c):
        """`counter += 1` / `bytes_sent += n` on a statistics record."""
        def is_stats_field(t):
            t = values.strip_payload(t)
            if isinstance(t, tuple) and t and t[0] == "field":
                base = t[1]
                # field of self (Aggregated) or of an entry obtained from the clients map
                fnimpl = fn.impl_self or ""
                if fnimpl in STATS_ADTS:
                    return True
            return False
        return (is_stats_field(a) or is_stats_field(c)) and (fn.impl_self or "") in STATS_ADTS

    # ------------------------------------------------------------------ calls
    def call_site(self, fn, B, b, t):
        P = self.P
        ev = B.ev
        f = t["fn"]
        if f.get("indirect"):
            return
        path = f.get("path", "")
        sp = strip_generics(path)
        name = sp.split("::")[-1]
        targets = P.call_targets(t)
        helper_panic = bool(targets) and all(x in P.fns and self.panicking_helper(x) for x in targets)
        if any(x in P.fns for x in targets) and not helper_panic:
            return  # local callee: scanned on its own
        args = [ev.op(a, (b, "term")) for a in t["args"]]
        if helper_panic or sp in PANIC_FNS or sp.startswith("core::panicking::"):
            # (a call of a crate-local `fn fail(..) -> !` that only formats and panics is the panic itself: it is judged here, where the reason
            #  for getting there is known, and not inside the helper)
            if B.infeasible(b):
                return self.rec(fn, b, "panic", self.panic_desc(fn, b, args), "proved", "panic block is infeasible under the branch facts")
            guarded = None
            for r in flow.rel_facts_at(B.IN, b):
                if r[0] in ("Eq", "Ne") and isinstance(r[1], tuple) and r[1][0] == "discr" and r[2][0] == "int":
                    xs = values.strip_payload(r[1][1])
                    ty_ = str(getattr(ev, "discr_adt", {}).get(r[1][1]) or ev.tty.get(r[1][1], "") or ev.tty.get(xs, "") or "")
                    is_opt_ = "option::Option" in ty_.split("<")[0] or (not ty_ and "Option" in str(ev.tty.get(r[1][1], "Option")))
                    is_res_ = "result::Result" in ty_.split("<")[0]
                    # reached only when xs is None / Err
                    if is_opt_:
                        failing = (r[0] == "Eq" and r[2][1] == 0) or (r[0] == "Ne" and r[2][1] == 1)
                    elif is_res_:
                        failing = (r[0] == "Eq" and r[2][1] == 1) or (r[0] == "Ne" and r[2][1] == 0)
                    else:
                        failing = False
                    if failing:
                        why = self.never_fails(fn, B, b, xs)
                        if why:
                            return self.rec(fn, b, "panic", self.panic_desc(fn, b, args), "typed", "only reached when %s is %s, but %s" % (describe(P, xs), "None" if is_opt_ else "Err", why))
                        guarded = (r[1][1], is_opt_)
            if guarded is not None and self.panic_desc(fn, b, args) in ("panic", "unreachable", "call"):
                # `match x { Ok(v) => v, Err(e) => panic!(..) }` / `let Some(v) = x else { fail(..) }` is x.expect(..) spelled out: the same
                # obligation under the same name
                xraw, is_opt_ = guarded
                return self.unwrap_value(fn, B, self.guard_block(fn, B, b, xraw), "unwrap", xraw, is_opt_)
            return self.rec(fn, b, "panic", self.panic_desc(fn, b, args), "open", "explicit panic is reachable")
        if name in PANICKING_CALLS and (sp.startswith("core::option::Option") or sp.startswith("core::result::Result")):
            return self.unwrap_site(fn, B, b, t, args, name)
        if name == "unwrap_or_else" and (sp.startswith("core::option::Option") or sp.startswith("core::result::Result")) and len(t["args"]) == 2:
            # `x.unwrap_or_else(|e| panic!(..))` is expect() with a computed message: one obligation, on x (the closure's panic is this site)
            clos = [c for c in (t.get("closures") or []) if not c.startswith("fn:")]
            if len(clos) == 1 and clos[0] in P.fns and 0 in P.fns[clos[0]].diverging():
                return self.unwrap_site(fn, B, b, t, args, "unwrap")
        if f.get("trait") in ("core::ops::index::Index", "core::ops::index::IndexMut") and len(args) == 2:
            return self.index_site(fn, B, b, t, args)
        if name == "set_position" and "cursor::Cursor" in sp and len(args) == 2:
            inner = None
            for (fp, bb, inn) in getattr(self, "pending_setpos", []):
                if fp == fn.path and bb == b:
                    inner = inn
            v = args[1]
            if inner is not None and B.le(v, ("len", inner), 0, b):
                return self.rec(fn, b, "set_position", coarse(P, v), "proved", "new position <= length of the underlying buffer (keeps position <= len)")
            return self.rec(fn, b, "set_position", coarse(P, v), "open", "cursor position may be set beyond the buffer (invalidates position <= len)")
        if name in ("chunks", "chunks_exact") and len(args) == 2:
            n = intval(self.W, ev, args[1])
            lo = B.lower(args[1], b)
            if (n is not None and n > 0) or lo >= 1:
                return self.rec(fn, b, "chunks", coarse(P, args[1]), "proved", "chunk size is non-zero")
            return self.rec(fn, b, "chunks", coarse(P, args[1]), "open", "chunk size may be zero")
        if sp.endswith("time::Duration as core::ops::arith::Sub>::sub") or (f.get("trait") == "core::ops::arith::Sub" and "Duration" in (f.get("self_ty") or "")):
            return self.rec(fn, b, "duration-sub", ",".join(coarse(P, a) for a in args), "open", "Duration subtraction panics on underflow")
        if f.get("trait") == "core::ops::arith::Add" and "Duration" in (f.get("self_ty") or ""):
            return self.rec(fn, b, "duration-add", ",".join(coarse(P, a) for a in args), "typed",
                            "Duration addition overflows only beyond 2^64 seconds (operands are a configured interval and < 256 ms)")
        if sp.endswith("Bernoulli::from_ratio"):
            n, d = args
            if B.upper(n, b) <= B.lower(d, b) and B.lower(d, b) >= 1:
                return self.rec(fn, b, "from_ratio", coarse(P, n), "proved", "numerator <= denominator")
            return self.rec(fn, b, "from_ratio", coarse(P, n), "open", "Bernoulli::from_ratio panics when numerator > denominator")
        if name == "gen_range" and "rand" in sp and len(args) >= 2:
            # rand 0.7/0.8: gen_range(low, high) / gen_range(low..high) panic on an empty range
            lo_, hi_ = (args[1], args[2]) if len(args) >= 3 else (None, None)
            if lo_ is None and isinstance(args[1], tuple) and args[1][0] == "agg" and str(args[1][1]).endswith("Range::Range") and len(args[1][2]) == 2:
                lo_, hi_ = args[1][2]
            if lo_ is not None and B.le(lo_, hi_, -1, b):
                return self.rec(fn, b, "gen_range", coarse(P, hi_), "proved", "low < high")
            return self.rec(fn, b, "gen_range", ",".join(describe(P, a) for a in args[1:]), "open", "Rng::gen_range panics on an empty range (low >= high)")
        if f.get("trait") == "core::ops::index::Index" and ("HashMap" in (f.get("self_ty") or sp) or "BTreeMap" in (f.get("self_ty") or sp)):
            key_ = args[1] if len(args) > 1 else None
            rels_ = flow.rel_facts_at(B.IN, b)
            if any(r[0] == "True" and is_call(r[1]) and callee_name(r[1][1]) == "contains_key" and r[1][2] and r[1][2][0] == args[0] and r[1][2][1] == key_ for r in rels_):
                return self.rec(fn, b, "map-index", coarse(P, key_), "proved", "dominated by contains_key")
            return self.rec(fn, b, "map-index", describe(P, key_) if key_ else "?", "open", "map[key] panics when the key is absent")
        if sp.endswith("seq::index::sample") and len(args) == 3:
            if B.le(args[2], args[1], 0, b):
                return self.rec(fn, b, "index-sample", coarse(P, args[2]), "proved", "amount <= length")
            return self.rec(fn, b, "index-sample", coarse(P, args[2]), "open", "index::sample panics when amount > length")
        if name == "with_capacity" and (sp.startswith("alloc::vec::Vec") or sp.startswith("alloc::string::String")) and args:
            u = B.upper(args[0], b)
            a0_ = values.strip_payload(args[0])
            if u > ISIZE_MAX // 64 and is_call(a0_) and callee_name(a0_[1]) in ("saturating_mul", "wrapping_mul") and "core::num" in a0_[1] and len(a0_[2]) == 2:
                # a product of two bounded, non-negative factors
                ux_, uy_ = B.upper(a0_[2][0], b), B.upper(a0_[2][1], b)
                if B.lower(a0_[2][0], b) >= 0 and B.lower(a0_[2][1], b) >= 0 and ux_ != INF and uy_ != INF:
                    u = min(u, ux_ * uy_)
            if u <= ISIZE_MAX // 64:
                return self.rec(fn, b, "with_capacity", coarse(P, args[0]), "proved", "capacity <= %s" % u, trivial=(args[0][0] == "int"))
            la = B.lin(args[0])
            at0 = la[0]
            for _ in range(3):
                # through casts and crate-local accessors that return a collection's length
                while isinstance(at0, tuple) and at0 and at0[0] == "cast":
                    at0 = at0[3]
                if isinstance(at0, tuple) and at0 and at0[0] == "call" and callee_name(at0[1]) in ("saturating_sub", "min") and "core::" in at0[1] and at0[2]:
                    at0 = at0[2][0]      # no larger than its first operand
                    continue
                if isinstance(at0, tuple) and at0 and at0[0] == "call" and at0[1] in P.fns:
                    r0 = self.W.ev(at0[1]).ret()
                    at0 = r0
                    continue
                if isinstance(at0, tuple) and at0 and at0[0] == "call" and "::" in at0[1]:
                    # trait method called through a trait object: every implementation must return a length
                    tr, me = strip_generics(at0[1]).rsplit("::", 1)
                    impls = P.trait_impl_methods(tr, me)
                    rets = []
                    for im in impls:
                        r1 = self.W.ev(im).ret() if im in P.fns else None
                        while isinstance(r1, tuple) and r1 and r1[0] == "cast":
                            r1 = r1[3]
                        rets.append(r1)
                    if impls and all(isinstance(r1, tuple) and r1 and (r1[0] == "len" or (r1[0] == "int" and 0 <= r1[1] <= 4096) or (r1[0] == "call" and callee_name(r1[1]) == "len")) for r1 in rets):
                        at0 = ("len", ("dyn", at0[1]))
                break
            if isinstance(at0, tuple) and at0 and at0[0] == "call" and callee_name(at0[1]) == "len":
                at0 = ("len", at0[2][0])
            if isinstance(at0, tuple) and at0 and at0[0] == "len" and 0 <= la[1] <= 4096:
                return self.rec(fn, b, "with_capacity", coarse(P, args[0]), "typed",
                                "capacity = length of a collection that already exists in memory + %d (allocation proportional to memory already held)" % la[1])
            nl_ = self.live_length_sum(B, b, [args[0]])
            if nl_:
                return self.rec(fn, b, "with_capacity", coarse(P, args[0]), "typed",
                                "capacity = sum of the lengths of %d collections that already exist in memory + small constants (allocation proportional to memory already held)" % nl_)
            return self.rec(fn, b, "with_capacity", coarse(P, args[0]), "open", "capacity is not bounded")
        if name == "from_elem" and len(args) == 2:
            u = B.upper(args[1], b)
            n = intval(self.W, ev, args[1])
            rr = int_range(self.W, ev, args[1])
            if u <= ISIZE_MAX // 64 or (n is not None and n <= 4096) or (rr is not None and rr[1] <= 4096):
                return self.rec(fn, b, "vec-alloc", coarse(P, args[1]), "proved", "length bounded")
            return self.rec(fn, b, "vec-alloc", coarse(P, args[1]), "open", "vec![x; n] with unbounded n")
        if name == "repeat" and sp.startswith("alloc::str"):
            u = B.upper(args[1], b)
            if u <= 2 ** 32:
                return self.rec(fn, b, "str-repeat", coarse(P, args[1]), "proved", "count <= %s" % u)
            return self.rec(fn, b, "str-repeat", coarse(P, args[1]), "open", "repeat count unbounded")
        if (t["fn"].get("trait") == "byteorder::ByteOrder" or "as byteorder::ByteOrder>" in sp or "byteorder::ByteOrder::" in sp) and args:
            # LittleEndian::read_u64(buf) / write_u32(buf, n): plain slice accessors that panic when the slice is shorter than the integer
            import re as _re
            m_ = _re.match(r"(read|write)_([ui])(\d+)(_into)?$", name)
            if m_:
                need = int(m_.group(3)) // 8
                if B.le(("int", need), ("len", args[0]), 0, b):
                    return self.rec(fn, b, "byteorder-slice", coarse(P, args[0]), "proved", "the slice holds at least %d bytes" % need)
                return self.rec(fn, b, "byteorder-slice", coarse(P, args[0]), "open", "byteorder::ByteOrder::%s panics on a slice shorter than %d bytes" % (name, need))
        if name in ("chunks", "chunks_exact", "chunks_mut", "chunks_exact_mut", "rchunks", "rchunks_exact", "windows", "step_by") and len(args) == 2 and \
                (sp.startswith("core::slice") or sp.startswith("core::iter")):
            if B.lower(args[1], b) >= 1:
                return self.rec(fn, b, "chunk-size", coarse(P, args[1]), "proved", "size >= 1")
            return self.rec(fn, b, "chunk-size", coarse(P, args[1]), "open", "%s panics when its size argument is 0" % name)
        if name in ("split_off", "copy_within", "rotate_left", "rotate_right", "swap_remove") and len(args) >= 2 and (sp.startswith("core::slice") or sp.startswith("alloc::vec")):
            return self.rec(fn, b, name, ",".join(describe(P, a) for a in args[1:]), "open", "%s has a panicking precondition" % name)
        if name in ("copy_from_slice", "clone_from_slice") and len(args) == 2:
            ld, ls = ("len", args[0]), ("len", args[1])
            if B.le(ld, ls, 0, b) and B.le(ls, ld, 0, b):
                return self.rec(fn, b, name, coarse(P, args[1]), "proved", "source and destination have the same length")
        if name in ("split_at", "split_at_mut") and len(args) == 2:
            if B.le(args[1], ("len", args[0]), 0, b):
                return self.rec(fn, b, name, coarse(P, args[1]), "proved", "mid <= len")
        if name in ("copy_from_slice", "split_at", "split_at_mut", "swap", "remove", "insert", "drain", "truncate_exact", "borrow_mut", "borrow") and not sp.startswith("std::collections"):
            if name in ("insert",) and "hash" in sp:
                return
            return self.rec(fn, b, name, ",".join(describe(P, a) for a in args[1:]), "open", "%s has a panicking precondition" % name)
        if name == "pow" and sp.startswith("core::num"):
            return self.rec(fn, b, "pow", ",".join(describe(P, a) for a in args), "open", "integer pow may overflow")
        return

    def panicking_helper(self, path):
        """A crate-local function that never returns and does nothing but format and panic (`fn wrong_length(..) -> ! { panic!(..) }`): calling
        it is the panic.  No loops; every call in it is a panic entry point or formatting machinery."""
        c = self.__dict__.setdefault("_ph", {})
        if path in c:
            return c[path]
        c[path] = False
        fn = self.P.fns.get(path)
        if fn is None or fn.loops() or 0 not in fn.diverging() or fn.kind == "closure" or "{closure" in path:
            return False
        direct = False
        for bb, t in fn.calls():
            q = strip_generics(t["fn"].get("path", ""))
            if q in PANIC_FNS or q.startswith("core::panicking::"):
                direct = True
            elif "fmt" in q or q.startswith("log::"):
                continue
            else:
                return False
        c[path] = direct
        return direct

    def local_never_fails(self, path, depth=0):
        c = self.__dict__.setdefault("_lnf", {})
        if path in c:
            return c[path]
        c[path] = None
        fn = self.P.fns.get(path)
        B = self.bounds.get(path)
        if fn is None or B is None or depth > 3 or not fn.locals[0]["ty"].startswith(("core::result::Result<", "core::option::Option<")):
            return None
        r = values.strip_payload(B.ev.ret()) if False else B.ev.ret()
        alts = r[1] if isinstance(r, tuple) and r and r[0] == "phi" else (r,)
        whys = []
        nok = 0
        for a in alts:
            if isinstance(a, tuple) and a and a[0] == "agg" and str(a[1]).endswith(("Result::Ok", "Option::Some")):
                nok += 1
                continue
            if is_call(a) and callee_name(a[1]) == "from_residual" and a[2]:
                s0 = values.strip_payload(a[2][0])
                while isinstance(s0, tuple) and s0 and s0[0] in ("vfield", "field", "variant"):
                    s0 = s0[1]
                if is_call(s0) and callee_name(s0[1]) == "branch" and s0[2]:
                    s0 = values.strip_payload(s0[2][0])
                sb = s0[3][1] if is_call(s0) and len(s0) > 3 and s0[3] and s0[3][0] == path else None
                if sb is None:
                    return None
                w0 = self.never_fails(fn, B, sb, s0)
                if not w0:
                    return None
                whys.append(w0)
                continue
            return None
        if not nok:
            return None
        c[path] = "%s never fails: %s" % (path.split("::")[-1], "; ".join(sorted(set(whys))) if whys else "it only builds Ok/Some")
        return c[path]

    def guard_block(self, fn, B, b, xraw):
        """The block that branches on the discriminant of xraw and dominates b: the obligation `xraw is Some/Ok` is judged there (at b itself
        the branch fact says it is None/Err)."""
        ev = B.ev
        d = b
        seen = set()
        while d is not None and d not in seen:
            seen.add(d)
            tt = fn.blocks[d].term
            if tt["k"] == "switch":
                c = ev.op(tt["op"], (d, "term"))
                if isinstance(c, tuple) and c and c[0] == "discr" and c[1] == xraw:
                    return d
            d = fn.idom().get(d) if d != 0 else None
        return b

    def panic_desc(self, fn, b, args):
        # the macro that expands to this panic (assert, assert_eq, unreachable, panic, ...): rewording the message must not rename the site
        t = fn.blocks[b].term
        return t.get("mac", "panic")

    def unwrap_site(self, fn, B, b, t, args, name):
        P = self.P
        ev = B.ev
        W = self.W
        x = args[0]
        # `v.map(f).unwrap()`, `v.ok().unwrap()`, `v.as_ref().unwrap()` ... fail exactly when `v` is None/Err: the site is about v
        a0 = (t["args"][0].get("mv") or t["args"][0].get("cp")) if t["args"] else None
        for _hop in range(4):
            if not a0 or a0.get("p"):
                break
            ds = [d for d in fn.defs().get(a0["l"], []) if d[2] == "whole"]
            if len(ds) != 1 or ds[0][1] != "term":
                break
            tt0 = fn.blocks[ds[0][0]].term
            if tt0["k"] == "call" and "core::convert::num" in tt0["fn"].get("path", "") and callee_name(tt0["fn"].get("path", "")) in ("try_from", "try_into") and tt0["args"]:
                # an integer conversion `u32::try_from(n)`: Ok exactly when n fits the target type
                tgt_ = (tt0["fn"].get("self_ty") or "").strip()
                rng_ = values.INT_RANGES.get(tgt_)
                src_ = ev.call_args(ds[0][0])[0]
                if rng_ is not None:
                    up_ = B.upper(src_, ds[0][0])
                    lo_ = B.lower(src_, ds[0][0])
                    from lib import iter_elem as _ie
                    ie_ = _ie(self.W, self.W.expand(src_))
                    if ie_ and ie_.get("what") == "index":
                        # the position of an element in a container: below the container's (bounded) length
                        up_ = min(up_, B.upper(("len", ie_["container"]), ds[0][0]) - 1)
                        lo_ = max(lo_, 0)
                    if rng_[0] <= lo_ and up_ <= rng_[1]:
                        return self.rec(fn, b, name, coarse(P, src_), "proved", "the converted value lies in %s..%s, within %s" % (lo_, up_, tgt_))
                    if False:
                        return self.rec(fn, b, name, coarse(P, src_), "proved", "the converted value lies in %s..%s, within %s" % (B.lower(src_, ds[0][0]), B.upper(src_, ds[0][0]), tgt_))
                    if tgt_ in ("usize", "u64", "u128") and str((tt0.get("arg_tys") or [""])[0]) in ("u8", "u16", "u32", "usize", "u64") and not (tgt_ == "usize" and str(tt0["arg_tys"][0]) in ("u64",) and False):
                        pass
            if tt0["k"] == "call" and callee_name(tt0["fn"].get("path", "")) in ("map", "ok", "ok_or", "ok_or_else", "as_ref", "as_mut", "as_deref", "copied", "cloned", "map_err") \
                    and ("option::Option" in tt0["fn"].get("path", "") or "result::Result" in tt0["fn"].get("path", "")) and tt0["args"]:
                x = ev.call_args(ds[0][0])[0]
                a0 = tt0["args"][0].get("mv") or tt0["args"][0].get("cp")
                continue
            break
        return self.unwrap_value(fn, B, b, name, x, "Option" in t["fn"].get("path", ""))

    def unwrap_value(self, fn, B, b, name, x, is_opt):
        """The obligation "x is Some/Ok at block b" - of `x.unwrap()` / `x.expect(..)`, and of a panic that is only reached when x is None/Err."""
        P = self.P
        ev = B.ev
        W = self.W
        x0 = x
        while isinstance(x0, tuple) and x0 and x0[0] == "vfield":
            x0 = x0[1]
        if ev.known_variant(x0) in ("Ok", "Some"):
            return self.rec(fn, b, name, coarse(P, x0), "typed", "the value is built as Ok/Some on every path that reaches the %s (error arms of never-failing callees are pruned)" % name)
        xs = values.strip_payload(x)
        # the result of an inlined `fn f(..) -> Result<T, E> { let v = g(..)?; Ok(T::new(v)) }`: it is Err exactly when g(..) is: the site is about g
        if isinstance(xs, tuple) and xs and xs[0] == "phi":
            oks_ = [a for a in xs[1] if isinstance(a, tuple) and a and a[0] == "agg" and str(a[1]).endswith(("Result::Ok", "Option::Some"))]
            res_ = [a for a in xs[1] if a not in oks_]
            srcs_ = []
            for a in res_:
                if is_call(a) and callee_name(a[1]) == "from_residual" and a[2]:
                    s0 = values.strip_payload(a[2][0])
                    while isinstance(s0, tuple) and s0 and s0[0] in ("vfield", "field", "variant"):
                        s0 = s0[1]
                    if is_call(s0) and callee_name(s0[1]) == "branch" and s0[2]:
                        s0 = values.strip_payload(s0[2][0])
                    srcs_.append(s0)
                else:
                    srcs_ = None
                    break
            if oks_ and srcs_ and len({values.fmt(s0) for s0 in srcs_}) == 1:
                xs = srcs_[0]
            elif oks_ and srcs_:
                # several fallible steps (`m.add_field(A, a)?; m.add_field(B, b)?; Ok(m)`): the value is Err exactly when one of them is; each is
                # judged where it stands
                whys = []
                for s0 in srcs_:
                    sb = s0[3][1] if is_call(s0) and len(s0) > 3 and s0[3] and s0[3][0] == fn.path else b
                    w0 = self.never_fails(fn, B, sb, s0)
                    if not w0:
                        whys = None
                        break
                    whys.append(w0)
                if whys:
                    return self.rec(fn, b, name, coarse(P, srcs_[0]), "typed", "every fallible step behind this value cannot fail: " + "; ".join(sorted(set(whys))))
        desc = coarse(P, xs)
        rels = flow.rel_facts_at(B.IN, b)
        good_pred = "is_some" if is_opt else "is_ok"
        for r in rels:
            if r[0] == "Pred" and r[1] == good_pred and values.strip_payload(r[2]) == xs:
                return self.rec(fn, b, name, desc, "proved", "dominated by %s()" % good_pred)
            if r[0] in ("Eq", "Ne") and isinstance(r[1], tuple) and r[1][0] == "discr" and values.strip_payload(r[1][1]) == xs:
                good = 1 if is_opt else 0
                if (r[0] == "Eq" and r[2] == ("int", good)) or (r[0] == "Ne" and r[2] == ("int", 1 - good)):
                    return self.rec(fn, b, name, desc, "proved", "dominated by a match on the %s variant" % ("Some" if is_opt else "Ok"))
        if B.infeasible(b):
            return self.rec(fn, b, name, desc, "proved", "block infeasible")
        why = self.never_fails(fn, B, b, xs)
        if why:
            return self.rec(fn, b, name, desc, "typed", why)
        return self.rec(fn, b, name, desc, "open", "%s() on a value that may be %s" % (name, "None" if is_opt else "Err"))

    # ---- typed rules for infallible producers
    def never_fails(self, fn, B, b, x):
        P = self.P
        W = self.W
        ev = B.ev
        if x[0] == "phi":
            whys = [self.never_fails(fn, B, b, a) for a in x[1]]
            return "; ".join(whys) if all(whys) else None
        if not is_call(x):
            if x[0] == "agg" and str(x[1]).endswith(("Option::Some", "Result::Ok")):
                return "constructed as Some/Ok"
            return None
        p = strip_generics(x[1])
        name = p.split("::")[-1]
        cargs = x[2]
        site = x[3]
        if name in ("pop", "last", "first", "last_mut", "first_mut") and cargs and ("alloc::vec::Vec" in p or "core::slice" in p) and site and site[0] == fn.path:
            # the container is non-empty where the call is made (a length assertion or test dominates it)
            if B.lower(("len", cargs[0]), site[1]) >= 1:
                return "%s() on a container whose length is >= 1 at that point" % name
            # the length was read (and found >= 1) a few blocks earlier, with nothing in between that takes anything by `&mut`
            for r in flow.rel_facts_at(B.IN, site[1]):
                for lt, other, op in ((r[1], r[2], r[0]), (r[2], r[1], {"Lt": "Gt", "Le": "Ge"}.get(r[0], r[0]))):
                    if not (isinstance(lt, tuple) and len(lt) == 3 and lt[0] == "len" and lt[1] == cargs[0] and isinstance(lt[2], tuple) and lt[2][0] == fn.path):
                        continue
                    lo_ok = (op == "Eq" and isinstance(other, tuple) and other[0] == "int" and other[1] >= 1) or \
                            (op in ("Gt",) and isinstance(other, tuple) and other[0] == "int" and other[1] >= 0) or \
                            (op in ("Ge",) and isinstance(other, tuple) and other[0] == "int" and other[1] >= 1)
                    lb = lt[2][1]
                    if not lo_ok or not fn.dominates(lb, site[1]):
                        continue
                    between = {x for x in fn.reachable() if x != lb and fn.reaches(lb, x) and (x == site[1] or fn.reaches(x, site[1])) and x != site[1]}
                    ACCESS = ("index_mut", "deref_mut", "as_mut", "as_mut_slice", "get_mut", "iter_mut", "last_mut", "first_mut", "borrow_mut")
                    writes_ = any(st_["k"] == "assign" and st_["dst"].get("p") and any(e_ == "deref" or (isinstance(e_, dict) and ("f" in e_ or "idx" in e_ or "cidx" in e_)) for e_ in st_["dst"]["p"])
                                  for x in between if x not in fn.diverging() for st_ in fn.blocks[x].stmts)
                    if not writes_ and not any(fn.blocks[x].term["k"] == "call" and callee_name(fn.blocks[x].term["fn"].get("path", "")) not in ACCESS and
                               any(str(ty).startswith("&mut") for ty in (fn.blocks[x].term.get("arg_tys") or [])) for x in between if x not in fn.diverging()):
                        return "%s() on a container whose length was just found to be >= 1 (no mutation in between)" % name
        if name.startswith("write_u") or name.startswith("write_i") or name == "write_all":
            recv = cargs[0]
            cfn = P.fns.get(site[0])
            rty = cfn.blocks[site[1]].term["arg_tys"][0] if cfn else ""
            if "alloc::vec::Vec<u8>" in rty:
                return "io::Write on Vec<u8> never fails"
            if rty.startswith("&mut &mut [u8]") or rty.startswith("&mut [u8]"):
                w = le_written(W, recv) if recv[0] == "obj" else None
                if w is None and recv[0] == "obj":
                    # `&mut index as &mut [u8]` : the object is the slice reference temp; look at its initial value
                    init = W.obj_init(recv)
                    if isinstance(init, tuple) and init[0] == "obj":
                        w = le_written(W, init)
                if w and w["width"] <= w["size"]:
                    return "%d-byte write into a %d-byte array" % (w["width"], w["size"])
            return None
        if x[1] in P.fns and not p.endswith(("RtMessage::encode", "RtMessage::encode_framed", "RtMessage::add_field")):
            # a crate-local fallible helper (`fn try_make_cert(..) -> Result<..> { a()?; b()?; Ok(v) }`): it fails exactly when one of its `?`
            # steps does; each step is judged in the helper, where it stands
            why_l = self.local_never_fails(x[1])
            if why_l:
                return why_l
        if p.endswith("RtMessage::encode") or p.endswith("RtMessage::encode_framed"):
            if self.fn_never_err(p):
                return "%s never returns Err (all its `?` sources are writes to a Vec)" % name
            return None
        if p.endswith("RtMessage::add_field"):
            msg = cargs[0]
            if msg[0] == "obj":
                mev = W.ev(msg[1])
                evs = message_events(W, mev, msg)
                mfn = mev.fn
                seq = []
                ok = True
                for e in evs:
                    if e[0] == "clear":
                        if not mfn.dominates(e[1], site[1]):
                            ok = False
                        continue
                    if e[0] != "add":
                        ok = False
                        break
                # adds that can precede this one (dominating or possibly preceding)
                variants = [v["name"] for v in P.adts[TAG]["variants"]]
                mine = None
                preds = []
                last_clear = None
                for e in evs:
                    if e[0] == "clear" and mfn.dominates(e[1], site[1]):
                        last_clear = e[1]
                for e in evs:
                    if e[0] != "add":
                        continue
                    if e[3] == site[1]:
                        mine = e
                        continue
                    if mfn.reaches(e[3], site[1]) or mfn.dominates(e[3], site[1]):
                        if last_clear is not None and mfn.dominates(e[3], last_clear):
                            continue
                        preds.append(e)
                if ok and mine is not None and mine[1] is not None and all(pe[1] is not None for pe in preds) and not mfn.in_loop(site[1]):
                    if all(variants.index(pe[1]) < variants.index(mine[1]) for pe in preds):
                        return "tags added before %s are %s: strictly ascending constants on a fresh message" % (mine[1], [pe[1] for pe in preds])
            return None
        if p.endswith("RtMessage::get_field"):
            tg = tag_of(cargs[1])
            tags = self.must_tags(cargs[0], site)
            if tg is not None and tags is not None and tg in tags:
                return "message always contains %s (added on every path by its producer)" % tg
            return None
        if name == "choose" and "SliceRandom" in x[1]:
            s = cargs[0]
            if isinstance(s, tuple) and s[0] == "static":
                it = P.items.get(s[1])
                # non-empty static slice
                n = array_len(it["ty"]) if it else None
                return "choose() on a static slice" if it is not None else None
            if isinstance(s, tuple) and s[0] in ("arr",) and len(s[1]) >= 1:
                return "choose() on a non-empty constant slice"
            return None
        if name == "get" and p.startswith("core::slice") and len(cargs) == 2:
            base, idx = cargs
            ln = ("len", base) if ev.stable_place(base) else None
            if ln is not None and B.le(idx, ln, -1, b):
                return "index < len"
            return None
        if name in ("try_into", "try_from"):
            return None
        return None

    def fn_never_err(self, path):
        if path in self._never_err:
            return self._never_err[path]
        self._never_err[path] = False
        fn = self.P.fns.get(path)
        if fn is None:
            return False
        ev = self.W.ev(path)
        ok = True
        for bl in fn.blocks:
            if bl.idx not in fn.reachable():
                continue
            for st in bl.stmts:
                if st["k"] == "assign" and st["dst"]["l"] == 0 and st["rv"]["k"] == "agg" and st["rv"].get("vname") == "Err":
                    ok = False
            t = bl.term
            if t["k"] == "call" and callee_name(t["fn"].get("path", "")) == "from_residual":
                src = values.strip_payload(ev.op(t["args"][0], (bl.idx, "term")))
                # the residual comes from Try::branch(call)
                if not is_call(src):
                    ok = False
                    continue
                n = callee_name(src[1])
                if n.startswith("write_") and "alloc::vec::Vec<u8>" in self.P.fns[src[3][0]].blocks[src[3][1]].term["arg_tys"][0]:
                    continue
                if src[1] in self.P.fns and self.fn_never_err(src[1]):
                    continue
                ok = False
        self._never_err[path] = ok
        return ok

    def must_tags(self, m, site, depth=0):
        """Set of tags a message term is guaranteed to contain."""
        W = self.W
        P = self.P
        if depth > 4 or not isinstance(m, tuple):
            return None
        if m[0] == "obj":
            ev = W.ev(m[1])
            fn = ev.fn
            evs = message_events(W, ev, m)
            tags = set()
            for e in evs:
                if e[0] == "add" and e[1] and (site is None or site[0] != m[1] or fn.dominates(e[3], site[1])):
                    tags.add(e[1])
                if e[0] == "clear":
                    if site is not None and site[0] == m[1] and fn.dominates(e[1], site[1]):
                        tags = set()
                    elif site is None or site[0] != m[1]:
                        return None
            return tags
        if is_call(m) and m[1] in P.fns:
            fn = P.fns[m[1]]
            ev = W.ev(m[1])
            r = ev.ret()
            alts = r[1] if r[0] == "phi" else (r,)
            res = None
            for a in alts:
                if a[0] != "obj":
                    return None
                evs = message_events(W, ev, a)
                tags = set()
                for e in evs:
                    if e[0] == "add" and e[1] and all(fn.dominates(e[3], x) for x in fn.exits()):
                        tags.add(e[1])
                    if e[0] != "add":
                        return None
                res = tags if res is None else (res & tags)
            return res
        if m[0] == "param":
            # all callers within the reachable set
            fnp = m[1]
            res = None
            callers = [c for c in P.callers(fnp)]
            if not callers:
                return None
            for (cp, cbb) in callers:
                cev = W.ev(cp)
                a = cev.call_args(cbb)
                if len(a) < m[2]:
                    return None
                tg = self.must_tags(a[m[2] - 1], (cp, cbb), depth + 1)
                if tg is None:
                    return None
                res = tg if res is None else (res & tg)
            return res
        return None

    def index_site(self, fn, B, b, t, args):
        P = self.P
        ev = B.ev
        base, idx = args
        bty = t["arg_tys"][0]
        ity = t["arg_tys"][1]
        if "HashMap" in bty or "BTreeMap" in bty:
            return self.rec(fn, b, "map-index", describe(P, idx), "open", "map[key] panics when the key is absent")
        n = array_len(bty)
        if n is not None:
            ln = ("int", n)
        else:
            # facts about the 2-tuple form exist only for places that cannot change; for mutable containers the
            # query then rests on type-level intervals and checked container invariants alone
            ln = ("len", base)
        desc = coarse(P, base)
        if idx[0] == "agg" and "ops::range::" in str(idx[1]) and is_call(base) and callee_name(base[1]) in ("finish", "as_ref"):
            bl = bytelen(self.W, ev, base)
            lab = str(idx[1]).split("::")[-1]
            rr = [int_range(self.W, ev, o) for o in idx[2]]
            if bl is not None and all(r is not None for r in rr):
                if lab == "RangeTo" and rr[0][1] <= bl:
                    return self.rec(fn, b, "slice-index", desc, "typed", "digest is %d bytes, slice end <= %d" % (bl, rr[0][1]))
                if lab == "Range" and rr[0][1] <= rr[1][0] and rr[1][1] <= bl:
                    return self.rec(fn, b, "slice-index", desc, "typed", "digest is %d bytes, range within it" % bl)
        if idx[0] == "agg" and "ops::range::" in str(idx[1]):
            lab = str(idx[1]).split("::")[-1]
            ops = idx[2]
            if lab == "RangeFull":
                return self.rec(fn, b, "slice-index", desc, "proved", "full range", trivial=True)
            if ln is None:
                return self.rec(fn, b, "slice-index", desc, "open", "length of a mutable container is not tracked")
            if lab == "Range" and B.le(ops[0], ops[1], 0, b) and B.le(ops[1], ln, 0, b) and B.lower(ops[0], b) >= 0:
                return self.rec(fn, b, "slice-index", desc, "proved", "start <= end <= len")
            if lab == "RangeTo" and B.le(ops[0], ln, 0, b):
                return self.rec(fn, b, "slice-index", desc, "proved", "end <= len")
            if lab == "RangeFrom" and B.le(ops[0], ln, 0, b):
                return self.rec(fn, b, "slice-index", desc, "proved", "start <= len")
            if lab == "RangeToInclusive" and B.le(ops[0], ln, -1, b):
                return self.rec(fn, b, "slice-index", desc, "proved", "end < len")
            return self.rec(fn, b, "slice-index", desc, "open", "cannot prove the range %s is within %s" % (describe(P, idx), describe(P, ln)))
        if "usize" in ity:
            if ln is not None and B.le(idx, ln, -1, b) and B.lower(idx, b) >= 0:
                return self.rec(fn, b, "index", desc, "proved", "index < len")
            prev = self.reindexed(fn, B, b, base, idx)
            if prev is not None:
                return self.rec(fn, b, "index", desc, "proved", "the same element was indexed at %s on every path here and the container has only grown since" % fn.loc(prev))
            return self.rec(fn, b, "index", desc, "open", "cannot prove %s < len(%s)" % (describe(P, idx), describe(P, base)))
        return self.rec(fn, b, "index", desc, "open", "unrecognised index type " + ity)


def int_range(W, ev, t, depth=0):
    """(min, max) of an integer term whose alternatives (phi / match arms of crate-local accessors) all evaluate to
    constants, else None."""
    if depth > 6 or not isinstance(t, tuple):
        return None
    v = intval(W, ev, t)
    if v is not None:
        return (v, v)
    if t[0] == "phi":
        rs = [int_range(W, ev, a, depth + 1) for a in t[1]]
        if all(r is not None for r in rs) and rs:
            return (min(r[0] for r in rs), max(r[1] for r in rs))
        return None
    if t[0] == "cast":
        return int_range(W, ev, t[3], depth + 1)
    if t[0] == "call" and t[1] in W.prog.fns:
        r = ev.inline(t)
        if r != t:
            return int_range(W, ev, r, depth + 1)
    return None


def report(ctx, engine, records, rule="no-panic"):
    """Turn engine records into rule instances."""
    for r in records:
        ok = r["status"] in ("proved", "typed", "audited")
        ctx.record(rule, r["key"], ok, ("%s: %s" % (r["status"], r["detail"])) if ok else
                   "potential panic reachable from the entry points: %s — %s" % (r["kind"], r["detail"]),
                   r["loc"], nontrivial=not r.get("trivial"), status=r["status"],
                   chain=" -> ".join(x.split("::")[-1] for x in ctx.prog.chain(engine.parent, r["fn"])))
    ctx.extra.setdefault("panic_sites", {})
    st = {}
    for r in records:
        st[r["status"]] = st.get(r["status"], 0) + 1
    ctx.extra["panic_sites"] = st
    ctx.extra["functions_reached"] = len(engine.reach)
    ctx.extra["external_callees_assumed_not_to_panic"] = sorted(x for x in engine.ext_callees if x not in ctx.prog.fns)[:400]
