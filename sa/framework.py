"""Rule-instance bookkeeping shared by all rule modules."""
import json
import os

import mir
import values

VERIF = os.path.dirname(os.path.dirname(os.path.abspath(__file__)))


class Broken(Exception):
    """The checker itself is not in a state to give a verdict."""


_spec = None


def spec():
    global _spec
    if _spec is None:
        with open(os.path.join(VERIF, "spec_tables.json")) as fh:
            _spec = json.load(fh)
    return _spec


class Ctx:
    def __init__(self, pid, prog, repo, tier, feature):
        self.pid = pid
        self.prog = prog
        self.repo = repo
        self.tier = tier
        self.feature = feature
        self.instances = []
        self.touched = set()
        self.extra = {}

    # ---- recording
    def record(self, rule, key, ok, detail, loc=None, nontrivial=True, **more):
        inst = {"key": "%s/%s/%s" % (self.pid, rule, key), "rule": rule, "ok": bool(ok), "detail": detail,
                "loc": loc, "nontrivial": nontrivial, "feature": self.feature}
        inst.update(more)
        self.instances.append(inst)
        return bool(ok)

    def ok(self, rule, key, detail, loc=None, **more):
        return self.record(rule, key, True, detail, loc, **more)

    def violation(self, rule, key, detail, loc=None, **more):
        return self.record(rule, key, False, detail, loc, **more)

    def check(self, rule, key, cond, ok_detail, bad_detail, loc=None, **more):
        return self.record(rule, key, cond, ok_detail if cond else bad_detail, loc, **more)

    def floor(self, rule, count, minimum, what):
        """Fail closed when a rule matched fewer instances than were confirmed by hand on the reference tree."""
        return self.record(rule + "-floor", what, count >= minimum,
                           "%d instances of %s (floor %d)" % (count, what, minimum) if count >= minimum else
                           "anchor-missing: only %d instances of %s, expected at least %d" % (count, what, minimum),
                           nontrivial=False)

    # ---- program access with anchor discipline
    def fn(self, path):
        f = self.prog.fns.get(path)
        if f is None:
            raise mir.AnchorMissing("function " + path)
        self.touched.add(path)
        return f

    def fn_opt(self, path):
        f = self.prog.fns.get(path)
        if f is not None:
            self.touched.add(path)
        return f

    def ev(self, fn, **kw):
        self.touched.add(fn.path)
        return values.Ev(self.prog, fn, **kw)

    def item_int(self, path):
        v = self.prog.item_value(path)
        if v is None or "int" not in v:
            raise mir.AnchorMissing("integer constant " + path)
        return v["int"]

    def item_bytes(self, path):
        v = self.prog.item_value(path)
        if v is None:
            raise mir.AnchorMissing("constant " + path)
        t = values.const_term(v)
        if t[0] == "bytes":
            return t[1]
        if t[0] == "str":
            return t[1].encode()
        raise mir.AnchorMissing("byte constant " + path)

    def loc(self, fn, bb=None, idx=None):
        if bb is None:
            return "%s:%d" % (fn.file, fn.line)
        return fn.loc(bb, idx)

    def read_repo_file(self, rel):
        p = os.path.join(self.repo, rel)
        if not os.path.exists(p):
            raise mir.AnchorMissing("file " + rel)
        with open(p, encoding="utf-8", errors="replace") as fh:
            return fh.read()


def calls_to(fn, pred):
    """[(bb, term)] of reachable call sites whose resolved callee path satisfies pred(path, term)."""
    out = []
    for bb, t in fn.calls():
        p = t["fn"].get("path") or t["fn"].get("orig") or ""
        if pred(p, t):
            out.append((bb, t))
    return out


def callee_is(name_suffix):
    def pred(p, t):
        ps = mir.strip_generics(p)
        return ps == name_suffix or ps.endswith("::" + name_suffix)
    return pred


def path_matches(p, suffix):
    ps = mir.strip_generics(p)
    return ps == suffix or ps.endswith("::" + suffix)
