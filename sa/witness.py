"""E3: compile-fail witness that roughenough::server::Server is !Send (thorough tier).  Built in a scratch directory outside
/repo and /verif, which is removed afterwards."""
import os
import shutil
import subprocess
import tempfile

LIB = '''//! Witness crate.
/// `Server` must not be `Send`.
/// ```compile_fail,E0277
/// fn is_send<T: Send>() {}
/// is_send::<roughenough::server::Server>();
/// ```
///
/// Compiling twin that differs only by the type: `AggregatedStats` is `Send`.
/// ```
/// fn is_send<T: Send>() {}
/// is_send::<roughenough::stats::AggregatedStats>();
/// ```
pub struct Witness;
'''


def server_not_send(repo):
    d = tempfile.mkdtemp(prefix="rt-witness-")
    try:
        os.makedirs(os.path.join(d, "src"))
        with open(os.path.join(d, "Cargo.toml"), "w") as fh:
            fh.write('[package]\nname = "rt-witness"\nversion = "0.1.0"\nedition = "2021"\n[workspace]\n[dependencies]\nroughenough = { path = "%s" }\n' % repo)
        with open(os.path.join(d, "src", "lib.rs"), "w") as fh:
            fh.write(LIB)
        shutil.copy(os.path.join(repo, "Cargo.lock"), os.path.join(d, "Cargo.lock"))
        env = dict(os.environ, CARGO_NET_OFFLINE="true", CARGO_TARGET_DIR=os.path.join(d, "target"))
        r = subprocess.run(["cargo", "+nightly", "test", "--doc", "--offline"], cwd=d, env=env, capture_output=True, text=True, timeout=1200)
        out = r.stdout + r.stderr
        ok = r.returncode == 0 and "2 passed" in out
        return ok, ("rustc rejects is_send::<Server>() with E0277 and accepts the twin" if ok else "witness doc-tests failed: " + out[-400:])
    finally:
        shutil.rmtree(d, ignore_errors=True)
