"""Structured facts about the server's request routing and response construction, shared by C02/C03/C07/C09/C11/C12."""
import flow
import values
from lib import (World, tagpath, is_call, callee_name, tag_of, message_events, straight_line, le_written, iter_elem, uncast,
                 TAG, VERSION, VERSIONS)
from mir import strip_generics, AnchorMissing

SERVER = "roughenough::server::Server"
RESPONDER = "roughenough::responder::Responder"
COLLECT = "roughenough::server::Server::collect_requests"
PROCESS = "roughenough::server::Server::process_events"
SEND = "roughenough::responder::Responder::send_responses"
MAKE_RESPONSE = "roughenough::responder::Responder::make_response"
NONCE_FROM_REQUEST = "roughenough::request::nonce_from_request"
MAKE_SREP = "roughenough::key::online::OnlineKey::make_srep"
MAKE_DELE = "roughenough::key::online::OnlineKey::make_dele"
MAKE_CERT = "roughenough::key::longterm::LongTermKey::make_cert"
SIGNER = "roughenough::sign::MsgSigner"


def enum_variants(prog, adt):
    a = prog.adts.get(adt)
    if a is None:
        raise AnchorMissing("enum " + adt)
    return [v["name"] for v in a["variants"]]


def single_ctor(W, adt):
    cs = W.ctor_fields(adt)
    if len(cs) != 1:
        raise AnchorMissing("exactly one construction of %s (found %d)" % (adt, len(cs)))
    return cs[0]


def responder_versions(W):
    """Server field name -> Version the responder stored there was constructed with."""
    fn, bb, idx, fields = single_ctor(W, SERVER)
    out = {}
    for name, t in fields.items():
        if is_call(t, "Responder::new"):
            v = t[2][0]
            if v[0] == "enum" and v[1] == VERSION:
                out[name] = v[2]
            else:
                out[name] = None
    return out, fields, fn


def version_fact(prog, rels, call_term=None):
    """Version variant implied by the branch facts `discriminant(<...nonce_from_request...>.1) == k`."""
    names = enum_variants(prog, VERSION)
    for r in rels:
        if r[0] == "Eq" and isinstance(r[1], tuple) and r[1][0] == "discr" and r[2][0] == "int":
            inner = r[1][1]
            if values.contains(inner, lambda s: is_call(s, "nonce_from_request")) and isinstance(inner, tuple) and inner[0] == "field" and inner[2] == "1":
                k = r[2][1]
                if 0 <= k < len(names):
                    return names[k]
    return None


def routing(ctx, W):
    """Per add_*_request call in collect_requests: dict(bb, version, responder_field, callee, args, recv_site)."""
    fn = ctx.fn(COLLECT)
    ev = W.ev(COLLECT)
    IN = flow.must_facts(fn, ev)
    out = []
    for bb, t in fn.calls():
        p = strip_generics(t["fn"].get("path", ""))
        if p.startswith(RESPONDER + "::add_") and p.endswith("_request"):
            rels = flow.rel_facts_at(IN, bb)
            args = ev.call_args(bb)
            recv = args[0]
            rf = recv[2] if (recv[0] == "field" and recv[1] == ("param", COLLECT, 1)) else None
            okres = any(r[0] == "Eq" and isinstance(r[1], tuple) and r[1][0] == "discr" and is_call(r[1][1], "nonce_from_request")
                        and r[2] == ("int", 0) for r in rels)
            out.append({"bb": bb, "version": version_fact(ctx.prog, rels), "responder_field": rf, "callee": p, "args": args,
                        "on_ok_arm": okres, "rels": rels})
    return fn, ev, out


def recv_count_term(W):
    """The term of the byte count returned by recv_from in collect_requests and the call term."""
    fn = W.prog.fns[COLLECT]
    ev = W.ev(COLLECT)
    sites = [bb for bb, t in fn.calls() if strip_generics(t["fn"].get("path", "")).endswith("UdpSocket::recv_from")]
    if len(sites) != 1:
        raise AnchorMissing("one recv_from call in collect_requests")
    ct = ev.call_term(sites[0])
    return sites[0], ct, ("field", ("vfield", ct, "Ok", 0), "0"), ("field", ("vfield", ct, "Ok", 0), "1")


def leaf_of(ctx, W, route):
    """Classify the Merkle leaf pushed for a routed request: ('request'|'nonce'|'other', term)."""
    callee = ctx.fn(route["callee"])
    cev = W.ev(callee.path)
    pushes = [bb for bb, t in callee.calls() if strip_generics(t["fn"].get("path", "")).endswith("MerkleTree::push_leaf")]
    if len(pushes) != 1:
        return ("other", None, "expected exactly one push_leaf in %s, found %d" % (callee.path, len(pushes)))
    pargs = cev.call_args(pushes[0])
    leaf = W.bind_params(pargs[1], callee.path, route["args"])
    rb, ct, count, addr = recv_count_term(W)
    nfr = [s for s in values.subterms(leaf) if is_call(s, "nonce_from_request")]
    if leaf[0] == "index" and leaf[1] == ("field", ("param", COLLECT, 1), "buf"):
        rng = leaf[2]
        if rng[0] == "agg" and str(rng[1]).endswith("RangeTo::RangeTo") and rng[2][0] == count:
            return ("request", leaf, "buf[..num_bytes] with num_bytes the recv_from count")
        return ("other", leaf, "slice of the receive buffer with unexpected bounds " + values.fmt(rng))
    if nfr and isinstance(leaf, tuple) and leaf[0] == "field" and leaf[2] == "0":
        return ("nonce", leaf, "first component of nonce_from_request's Ok value")
    return ("other", leaf, values.fmt(leaf))


def message_built(W, ev, obj, live=None):
    """(ok, [(tag, value, bb)], why) for a message object that is filled by a straight-line sequence of add_field calls."""
    evs = message_events(W, ev, obj, live)
    if any(e[0] != "add" for e in evs):
        return False, [], "message object receives calls other than add_field: %s" % [e[:2] for e in evs if e[0] != "add"]
    bbs = [e[3] for e in evs]
    ok_line = straight_line(ev.fn, bbs)
    if not ok_line and live is not None and not any(ev.fn.in_loop(b) for b in bbs):
        # under this evaluator's assumptions (one protocol version) only the live paths count: `if is_ietf { add VER }` is unconditional there
        ok_line = all(values.must_pass(ev.fn, [a], from_block=0, to_blocks={b}, live=live) for a, b in zip(bbs, bbs[1:]))
    if not ok_line:
        return False, [], "add_field calls are not a straight-line sequence"
    return True, [(e[1], e[2], e[3]) for e in evs], ""


def sign_sequence(W, ev, signer_path, live=None):
    """Events on the MsgSigner at access path `signer_path` (root local, fields): [(name, arg term, bb)] in order."""
    fn = ev.fn
    order = {b: i for i, b in enumerate(fn.rpo())}
    out = []
    for (b, callee, argi, ap) in ev.events_on(signer_path[0], signer_path[1]):
        if live is not None and b not in live:
            continue
        p = strip_generics(callee)
        if argi == 0 and p.startswith(SIGNER + "::"):
            if not fn.blocks[b].term["arg_tys"][0].startswith("&mut"):
                continue        # `&self` methods (public_key_bytes, Display) do not touch the signing buffer
            args = ev.call_args(b)
            nm = p.split("::")[-1]
            if nm == "update" and len(args) > 1:
                # update(&[a, b].concat()) / update(&buffer built from a then b) feeds the same bytes as update(a); update(b)
                from lib import byte_pieces
                pcs = byte_pieces(W, args[1])
                for pc in pcs:
                    out.append(("update", pc, b))
            else:
                out.append((nm, args[1] if len(args) > 1 else None, b))
        elif fn.blocks[b].term["arg_tys"][argi].startswith("&mut"):
            out.append(("other:" + callee_name(callee), None, b))
    out.sort(key=lambda e: order.get(e[2], 10 ** 6))
    return out


def queue_roles(ctx, W):
    """How a queued request is laid out: {"nonce": field, "addr": field} where field is the tuple position ("0"/"1") or, when the queue holds a
    small struct, the field name.  Read off the pushes onto Responder.requests (the component built from a SocketAddr value is the address)."""
    P = ctx.prog
    roles = None
    for fn in P.fns.values():
        if fn.impl_self != RESPONDER or fn.derived:
            continue
        e = W.ev(fn.path)
        for bb, t in fn.calls():
            if callee_name(t["fn"].get("path", "")) != "push":
                continue
            a = e.call_args(bb)
            if a[0] != ("field", ("param", fn.path, 1), "requests") or a[1][0] != "agg" or len(a[1][2]) != 2:
                continue
            names = a[1][3] if len(a[1]) > 3 and a[1][3] else ("0", "1")
            r = {}
            for nm, x in zip(names, a[1][2]):
                ty = fn.locals[x[2]]["ty"] if isinstance(x, tuple) and x[0] == "param" and x[1] == fn.path else ""
                r["addr" if "SocketAddr" in ty else "nonce"] = str(nm)
            if len(r) == 2:
                if roles is not None and roles != r:
                    return {"nonce": "0", "addr": "1"}
                roles = r
    return roles or {"nonce": "0", "addr": "1"}


def version_assume(fnpath, v, field="version"):
    return {("field", ("param", fnpath, 1), field): ("enum", VERSION, v)}


def send_loop_provenance(ctx, W):
    """Where do the destination, the echoed nonce, the index and the path of each response come from?
    Returns a list of (key, ok, ok_detail, bad_detail, loc)."""
    P = ctx.prog
    out = []
    mr = ctx.fn(MAKE_RESPONSE)
    ev = W.ev(mr.path)
    r = ev.ret()
    role = {}
    if r[0] == "obj":
        okb, fields, why = message_built(W, ev, r)
        for (tg, val, bb) in fields:
            v0 = values.strip_payload(val)
            if tg == "INDX":
                w = le_written(W, v0)
                if w and w["value"][0] == "param":
                    role["INDX"] = w["value"][2]
            elif v0[0] == "param":
                role[tg] = v0[2]
    sr = ctx.fn(SEND)
    sev = W.ev(sr.path)
    sites = [bb for bb, t in sr.calls() if mr.path in P.call_targets(t)]
    if len(sites) != 1:
        raise AnchorMissing("one make_response call in send_responses")
    args = [W.expand(a) for a in sev.call_args(sites[0])]
    selfp = ("param", sr.path, 1)
    REQ = ("field", selfp, "requests")

    def arg(tagname):
        i = role.get(tagname)
        return args[i - 1] if i else None

    idx_a = uncast(arg("INDX")) if arg("INDX") is not None else None
    nonce_a = arg("NONC")
    path_a = arg("PATH")
    ie_idx = iter_elem(W, idx_a) if idx_a is not None else None
    ie_nonce = iter_elem(W, nonce_a) if nonce_a is not None else None
    okidx = ie_idx is not None and ie_idx["what"] == "index" and ie_idx["container"] == REQ
    QR = queue_roles(ctx, W)
    okn = ie_nonce is not None and ie_nonce["what"] == "elem" and ie_nonce["fields"] == (QR["nonce"],) and ie_nonce["container"] == REQ
    same = okidx and okn and ie_idx["site"] == ie_nonce["site"]
    out.append(("index-and-nonce-from-one-element", same, "idx and nonce come from the same requests.iter().enumerate().next() element",
                "idx (%s) and nonce (%s) are not the index and first component of one element of self.requests" % (values.fmt(idx_a), values.fmt(nonce_a)), sr.loc(sites[0])))
    if isinstance(path_a, tuple) and path_a and path_a[0] == "obj":
        # a buffer filled through an out-parameter form of get_paths (`get_paths_into(idx, &mut buf)` after `buf.clear()`)
        from lib import outparam_wrapper_value
        eq = outparam_wrapper_value(W, sr, sev, path_a, sites[0])
        if eq is not None:
            path_a = eq
    okp = is_call(path_a, "MerkleTree::get_paths") and W.expand(path_a[2][0]) == ("field", selfp, "merkle") and uncast(W.expand(path_a[2][1])) == idx_a
    out.append(("path-for-same-index", okp, "PATH = self.merkle.get_paths(idx) for the same idx",
                "PATH is %s while INDX is %s" % (values.fmt(path_a), values.fmt(idx_a)), sr.loc(sites[0])))
    sends = [bb for bb, t in sr.calls() if strip_generics(t["fn"].get("path", "")).endswith("UdpSocket::send_to")]
    for sb in sends:
        sargs = [W.expand(a) for a in sev.call_args(sb)]
        ie = iter_elem(W, sargs[2])
        okd = ie is not None and ie["what"] == "elem" and ie["fields"] == (QR["addr"],) and ie_nonce is not None and ie["site"] == ie_nonce["site"] and ie["container"] == REQ
        out.append(("destination-from-same-element", okd, "destination = address of the same queued request",
                    "send_to destination %s is not the address stored with this request" % values.fmt(sargs[2]), sr.loc(sb)))
        # payload derives from this iteration's make_response
        pay = sargs[1]
        okm = values.contains(pay, lambda s: s == sev.call_term(sites[0])) or values.contains(W.expand(sev.call_args(sb)[1]), lambda s: is_call(s, "Responder::make_response"))
        out.append(("payload-is-this-iterations-response", okm, "the datagram sent encodes this iteration's make_response(..)",
                    "the datagram sent is %s" % values.fmt(pay), sr.loc(sb)))
    return out, len(sends)


def registrations(ctx, W):
    """Every `Poll::register` call of the server module: dict(fn, bb, source_ty, token, opts) with opts the name of the PollOpt constructor(s)."""
    out = []
    for f in W.prog.fns.values():
        if not f.path.startswith("roughenough::server::") or f.derived:
            continue
        ev = W.ev(f.path)
        for bb, t in f.calls():
            p = strip_generics(t["fn"].get("path", ""))
            if p.endswith("Poll::register") or p.endswith("Poll::reregister"):
                a = ev.call_args(bb)
                opts = W.expand(a[4]) if len(a) > 4 else None
                names = sorted({callee_name(x[1]) for x in values.subterms(opts) if is_call(x) and "PollOpt" in x[1]}) if opts else []
                rec = {"fn": f, "bb": bb, "source_ty": t["arg_tys"][1], "token": W.expand(a[2]), "opts": names, "opts_term": opts}
                src = W.expand(a[1])
                if not any(k in rec["source_ty"] for k in ("UdpSocket", "TcpListener", "Timer")):
                    # the call was inlined from a generic helper (`source: &E`): the type of the value that is registered says what it is
                    s0 = values.strip_payload(src)
                    ty0 = None
                    if isinstance(s0, tuple) and s0 and s0[0] in ("param", "obj") and s0[1] in W.prog.fns and isinstance(s0[2], int):
                        ty0 = W.prog.fns[s0[1]].locals[s0[2]]["ty"]
                    elif is_call(s0) and len(s0) > 3 and s0[3] and s0[3][0] in W.prog.fns:
                        ct0 = W.prog.fns[s0[3][0]].blocks[s0[3][1]].term
                        if ct0.get("dst"):
                            ty0 = W.prog.fns[s0[3][0]].locals[ct0["dst"]["l"]]["ty"]
                    if ty0 and any(k in ty0 for k in ("UdpSocket", "TcpListener", "Timer")):
                        rec["source_ty"] = ty0
                if isinstance(src, tuple) and src and src[0] == "param" and src[1] == f.path and not any(k in rec["source_ty"] for k in ("UdpSocket", "TcpListener", "Timer")):
                    # a private helper `fn register_readable<E: Evented>(poll, source: &E, token, opts)`: one registration per call of the helper
                    for (cp, cb) in W.prog.callers(f.path):
                        cf = W.prog.fns[cp]
                        ca = W.ev(cp).call_args(cb)
                        r2 = dict(rec, fn=cf, bb=cb, source_ty=cf.blocks[cb].term["arg_tys"][src[2] - 1])
                        if isinstance(opts, tuple) and opts and opts[0] == "param" and opts[1] == f.path:
                            o2 = W.expand(ca[opts[2] - 1])
                            r2["opts_term"] = o2
                            r2["opts"] = sorted({callee_name(x[1]) for x in values.subterms(o2) if is_call(x) and "PollOpt" in x[1]})
                        out.append(r2)
                    continue
                out.append(rec)
    return out


def batch_loop(ctx, W):
    """The loop of collect_requests that contains the recv_from call: dict(header, kind, iterations(batch_size)->int|None)."""
    fn = ctx.fn(COLLECT)
    ev = W.ev(COLLECT)
    rb, ct, count, addr = recv_count_term(W)
    ls = sorted((l for l in fn.loops() if rb in l["body"]), key=lambda l: len(l["body"]))
    if not ls:
        raise AnchorMissing("a loop around recv_from in collect_requests")
    lp = ls[-1]
    src = None
    for b in sorted(lp["body"]):
        t = fn.blocks[b].term
        if t["k"] == "call" and callee_name(t["fn"].get("path", "")) == "next" and fn.dominates(b, rb):
            src = W.expand(ev.call_args(b)[0])
            while isinstance(src, tuple) and src and src[0] == "reader":
                src = src[1]
    bs = ("field", ("param", COLLECT, 1), "batch_size")

    def evalt(t, n):
        if t == bs:
            return n
        if t[0] == "int":
            return t[1]
        if t[0] == "cast":
            return evalt(t[3], n)
        if t[0] == "bin" and t[1] in ("Add", "Sub", "Mul"):
            a, b = evalt(t[2], n), evalt(t[3], n)
            if a is None or b is None:
                return None
            return {"Add": a + b, "Sub": a - b, "Mul": a * b}[t[1]]
        return None

    from lib import counted_trips
    ct_ = counted_trips(W, ev, fn, lp) if src is None else None

    def iterations(n):
        if ct_ is not None:
            return ct_["count"](lambda t: evalt(t, n))
        if src is None:
            return None
        if src[0] == "agg" and str(src[1]).endswith("Range::Range") and len(src[2]) == 2:
            lo, hi = evalt(src[2][0], n), evalt(src[2][1], n)
            return None if lo is None or hi is None else max(hi - lo, 0)
        if is_call(src) and callee_name(src[1]) == "new" and "RangeInclusive" in src[1]:
            lo, hi = evalt(W.expand(src[2][0]), n), evalt(W.expand(src[2][1]), n)
            return None if lo is None or hi is None else max(hi - lo + 1, 0)
        return None
    if ct_ is not None:
        src = ("counted", ct_["init"], ct_["bound"], ct_["op"])
    return {"header": lp["header"], "source": src, "iterations": iterations, "recv": rb, "fn": fn}


# ---------------------------------------------------------------------------------------------------------------------- responder typestate
def _access_paths(t):
    """Access paths (root, (field, ...)) a receiver term can denote; [] when it is not a place we can name."""
    if not isinstance(t, tuple) or not t:
        return []
    if t[0] in ("ref", "deref", "reborrow") and len(t) > 1:
        return _access_paths(t[1])
    if t[0] == "field":
        return [(r, p + (t[2],)) for r, p in _access_paths(t[1])]
    if t[0] == "param":
        return [(("param", t[2]), ())]
    if t[0] == "obj":
        return [(("obj",) + tuple(t[1:]), ())]
    if t[0] == "phi":
        out = []
        for x in t[1]:
            ap = _access_paths(x)
            if not ap:
                return []
            out.extend(ap)
        return out
    return []


def responder_typestate(ctx, W, group):
    """Typestate of every Responder across the whole program: reset -> (add)* -> send_responses.

    A responder is FRESH after `reset` (or its construction), USED after `send_responses`.  Adding a request and sending responses both need a
    FRESH responder on every path: the Merkle tree, the queued requests and the indices handed out all belong to one batch, so a second batch
    collected or sent without a reset in between is answered from a stale tree (C02/C09) -- also when that happens in a helper or after the
    serving loop has been left (C19).  Interprocedural: each function gets a summary (what it needs FRESH on entry, what it leaves behind),
    applied at its call sites; functions nobody calls are not judged.  Lattice per place: F(resh) > E(as on entry) > U(sed)."""
    P = W.prog
    order = {"F": 2, "E": 1, "U": 0}
    memo = {}
    reports = []

    def prim(path):
        f = P.fns.get(path)
        if f is None or f.impl_self != RESPONDER:
            return None
        name = path.split("::")[-1]
        if name == "reset":
            return "reset"
        if path == SEND:
            return "send"
        loc = f.locals[1] if len(f.locals) > 1 else {}
        if loc.get("name") == "self" and loc.get("ty", "").startswith("&mut"):
            return "use"
        return "none"

    def join(a, b):
        keys = set(a) | set(b)
        return {k: min(a.get(k, dflt(k)), b.get(k, dflt(k)), key=lambda v: order[v]) for k in keys}

    def dflt(k):
        return "E" if k[0][0] == "param" else "F"      # a responder constructed here starts out empty, like after reset

    def summary(path):
        if path in memo:
            return memo[path]
        memo[path] = None          # recursion guard: a recursive cycle is treated as having no events
        fn = P.fns.get(path)
        if fn is None or fn.impl_self == RESPONDER:
            return None
        events = {}
        ev = None
        for bb, t in fn.calls():
            tg = P.call_targets(t)
            kinds = [(prim(p), p) for p in tg if p in P.fns]
            e = None
            for k, p in kinds:
                if k in ("reset", "send", "use"):
                    ev = ev or W.ev(fn.path)
                    aps = _access_paths(ev.call_args(bb)[0])
                    e = (k, aps, p)
                elif k is None:
                    s = summary(p)
                    if s and (s["req"] or s["out"]):
                        ev = ev or W.ev(fn.path)
                        e = ("call", [ _access_paths(a) for a in ev.call_args(bb)], p, s)
            if e:
                events[bb] = e
        if not events:
            memo[path] = {"req": {}, "out": {}}
            return memo[path]
        req = {}

        rec = [False]

        def need(state, k, bb, what):
            if not rec[0]:
                return
            v = state.get(k, dflt(k))
            if v == "E":
                req.setdefault(k, (bb, what))
            elif v == "U":
                reports.append((fn, bb, k, what))

        def subst(k, args):
            (root, pth) = k
            if root[0] != "param":
                return []
            i = root[1] - 1
            if i >= len(args):
                return []
            return [(r, p + pth) for r, p in args[i]]

        def transfer(bb, state):
            e = events.get(bb)
            if not e:
                return state
            st = dict(state)
            if e[0] == "reset":
                if len(e[1]) == 1:
                    st[e[1][0]] = "F"
            elif e[0] == "send":
                for k in e[1]:
                    need(st, k, bb, "send_responses")
                for k in e[1]:
                    st[k] = "U"
            elif e[0] == "use":
                for k in e[1]:
                    need(st, k, bb, e[2].split("::")[-1])
            else:
                _, args, p, s = e
                for k, (cbb, what) in s["req"].items():
                    for ck in subst(k, args):
                        need(st, ck, bb, "%s (via %s)" % (what, p.split("::")[-1]))
                for k, v in s["out"].items():
                    cks = subst(k, args)
                    for ck in cks:
                        if v == "F" and len(cks) == 1:
                            st[ck] = "F"
                        elif v == "U":
                            st[ck] = "U"
            return st

        reach = fn.reachable()
        IN = {0: {}}
        OUT = {}
        work = [0]
        rounds = 0
        while work:
            rounds += 1
            if rounds > 20000:
                raise AnchorMissing("responder typestate does not converge in %s" % path)
            b = work.pop()
            o = transfer(b, IN[b])
            if OUT.get(b) == o:
                continue
            OUT[b] = o
            for s in fn.succ(b):
                if s not in reach:
                    continue
                n = o if s not in IN else join(IN[s], o)
                if s not in IN or n != IN[s]:
                    IN[s] = n
                    work.append(s)
        # final pass with the fixpoint states: collect requirements / reports once
        rec[0] = True
        for b in sorted(IN):
            transfer(b, IN[b])
        out = None
        for b in fn.exits():
            if b in OUT:
                o = {k: v for k, v in OUT[b].items()}
                out = o if out is None else join(out, o)
        out = {k: v for k, v in (out or {}).items() if k[0][0] == "param" and v != "E"}
        memo[path] = {"req": {k: v for k, v in req.items() if k[0][0] == "param"}, "out": out, "events": len(events)}
        return memo[path]

    for path in sorted(P.fns):
        summary(path)
    judged = 0
    for path in sorted(memo):
        s = memo[path]
        if s and s.get("events"):
            judged += 1
            fn = P.fns[path]
            mine = [(bb, k, what) for (f, bb, k, what) in reports if f is fn]
            ctx.check(group, "typestate/%s" % path.split("::", 1)[-1], not mine,
                      "every add / send on a responder follows its reset with no send in between (needs on entry: %s)" % (
                          sorted(".".join(k[1]) or "self" for k in s["req"]) or "nothing"),
                      "; ".join("%s on %s without a reset since the last send_responses" % (what, ".".join(k[1]) or "the responder") for bb, k, what in mine),
                      fn.loc(mine[0][0]) if mine else ctx.loc(fn))
    ctx.floor(group + "-typestate", judged, 2, "functions that add to / send from a responder")


# ---------------------------------------------------------------------------------------------------------------------- queue and tree in lock-step
def queue_lockstep(ctx, W, group):
    """INDX = position in `Responder.requests`, PATH = get_paths(that position): the queue and the leaves of the tree must stay in lock-step.  That
    holds when the queue is only ever changed together with the tree: a push beside a push_leaf (the add_* methods), a clear beside the tree's reset,
    and nothing else - no dedup / retain / remove / sort / truncate / swap / insert on the queue, no assignment to it after construction."""
    P = W.prog
    QR = queue_roles(ctx, W) if False else None
    qfield = "requests"
    tfields = [x["name"] for x in P.adts[RESPONDER]["variants"][0]["fields"] if x["ty"].endswith("merkle::MerkleTree")]
    if not tfields or not any(x["name"] == qfield for x in P.adts[RESPONDER]["variants"][0]["fields"]):
        raise AnchorMissing("Responder.requests and a MerkleTree field of Responder")
    tfield = tfields[0]
    READS = ("iter", "len", "is_empty", "get", "first", "last", "as_slice", "deref", "index", "into_iter", "as_ref", "capacity", "chunks", "windows", "enumerate", "clone", "fmt")
    CAPACITY = ("reserve", "reserve_exact", "shrink_to_fit", "shrink_to")
    n = 0
    for fn in P.fns.values():
        if fn.derived:
            continue
        ev = None
        per_fn = {"push": [], "clear": [], "other": []}
        tree = {"push_leaf": [], "reset": []}
        for bb, t in fn.calls():
            if not t.get("args"):
                continue
            a0 = t["args"][0]
            pl = a0.get("mv") or a0.get("cp")
            if pl is None:
                continue
            ev = ev or W.ev(fn.path)
            recv = ev.call_args(bb)[0]
            aps = _access_paths(recv)
            name = callee_name(t["fn"].get("path", ""))
            for (root, pth) in aps:
                if pth[-1:] == (qfield,) and (t.get("arg_tys") or [""])[0].startswith("&mut"):
                    # the receiver type tells the queue apart from a same-named field of another type
                    if "SocketAddr" not in (t.get("arg_tys") or [""])[0] and "Vec" not in (t.get("arg_tys") or [""])[0]:
                        continue
                    if name in CAPACITY or name in READS:
                        continue
                    if fn.path == SEND and name in ("clear", "drain"):
                        continue        # emptying the queue while / after answering it: the batch is over (a new one needs reset: typestate)
                    per_fn["push" if name == "push" else "clear" if name == "clear" else "other"].append((bb, name))
                if pth[-1:] == (tfield,) and name in tree:
                    tree[name].append(bb)
        sites = per_fn["push"] + per_fn["clear"] + per_fn["other"]
        if not sites:
            continue
        n += 1
        okp = len(per_fn["push"]) == len(tree["push_leaf"]) and all(any(fn.dominates(p, l) or fn.dominates(l, p) for l in tree["push_leaf"]) for p, _ in per_fn["push"])
        okc = all(any(fn.dominates(c, r) or fn.dominates(r, c) for r in tree["reset"]) for c, _ in per_fn["clear"])
        oko = not per_fn["other"]
        ctx.check(group, "queue-in-lockstep/%s" % fn.path.split("::", 1)[-1], okp and okc and oko,
                  "the request queue changes only together with the tree (%d push beside push_leaf, %d clear beside reset)" % (len(per_fn["push"]), len(per_fn["clear"])),
                  "%s changes the request queue without the tree (%s): positions in the queue no longer match the leaves, so INDX / PATH of later requests prove another leaf"
                  % (fn.path.split("::", 1)[-1], ", ".join("%s()" % nm for _b, nm in (per_fn["other"] or sites))), fn.loc(sites[0][0]))
    from lib import field_replacement_sites
    assigned = [x for x in field_replacement_sites(W, RESPONDER, qfield) if "assigned" in x[2]]
    ctx.check(group, "queue-in-lockstep/never-reassigned", not assigned, "Responder.requests is never assigned after construction",
              "; ".join(d for f, b, d in assigned[:2]), assigned[0][0].loc(assigned[0][1]) if assigned else None)
    ctx.floor(group + "-lockstep", n, 3, "functions that change the request queue (add_classic_request, add_ietf_request, reset)")
