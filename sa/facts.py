"""Fact extraction driver: runs the rustc_private extractor over /repo (or a scratch copy) and caches the facts.

The cache key is a hash of the analysed tree's content, the feature set and the extractor version, so an edited
tree is always re-extracted.  A dependency build cache (cargo target dir) is kept under /verif/.cache/target-<feat>
to make re-extraction after an edit fast; the workspace crate's fingerprints are deleted before every run so that
cargo cannot skip the wrapper, and the fact files are asserted to exist afterwards.
"""
import fcntl
import glob
import hashlib
import json
import os
import shutil
import subprocess
import sys
import time

VERIF = os.path.dirname(os.path.dirname(os.path.abspath(__file__)))
CACHE = os.path.join(VERIF, ".cache")
EXTRACT_BIN = os.path.join(VERIF, "extract", "target", "release", "rt-extract")
FEATURE_SETS = {"default": [], "fuzzing": ["fuzzing"], "awskms": ["awskms"], "gcpkms": ["gcpkms"]}
EXPECTED = ["roughenough-lib", "roughenough_client-bin", "roughenough_kms-bin", "roughenough_server-bin"]


def tree_hash(repo):
    h = hashlib.sha256()
    for root, dirs, files in os.walk(repo):
        dirs[:] = sorted(d for d in dirs if d not in ("target", ".git"))
        for f in sorted(files):
            p = os.path.join(root, f)
            rel = os.path.relpath(p, repo)
            h.update(rel.encode())
            h.update(b"\0")
            try:
                with open(p, "rb") as fh:
                    h.update(fh.read())
            except OSError:
                h.update(b"<unreadable>")
            h.update(b"\0")
    return h.hexdigest()


def extractor_version():
    src = os.path.join(VERIF, "extract", "src")
    h = hashlib.sha256()
    for f in sorted(os.listdir(src)):
        with open(os.path.join(src, f), "rb") as fh:
            h.update(fh.read())
    return h.hexdigest()[:12]


def sysroot():
    return subprocess.check_output(["rustc", "+nightly", "--print", "sysroot"], text=True).strip()


def ensure_extractor():
    if os.path.exists(EXTRACT_BIN):
        src = os.path.join(VERIF, "extract", "src")
        newest = max(os.path.getmtime(os.path.join(src, f)) for f in os.listdir(src))
        if os.path.getmtime(EXTRACT_BIN) >= newest:
            return
    env = dict(os.environ, CARGO_NET_OFFLINE="true")
    r = subprocess.run(["cargo", "+nightly", "build", "--release", "--offline"], cwd=os.path.join(VERIF, "extract"),
                       env=env, capture_output=True, text=True)
    if r.returncode != 0:
        sys.stderr.write(r.stdout + r.stderr)
        raise SystemExit("extractor build failed")


# The release configuration is what is analysed: debug_assert!() and cfg(debug_assertions) code is compiled out, as in the shipped binaries;
# arithmetic overflow checks are kept so that every overflow site stays a visible obligation (an Assert terminator) for the no-panic rules.
RUSTFLAGS = "-Zmir-opt-level=0 -Awarnings -Cdebug-assertions=off -Coverflow-checks=on"


def extract(repo="/repo", feature="default", quiet=True):
    """Return {crate-key: facts dict} for the given tree and feature set."""
    ensure_extractor()
    os.makedirs(CACHE, exist_ok=True)
    key = hashlib.sha256((tree_hash(repo) + feature + extractor_version() + RUSTFLAGS).encode()).hexdigest()[:24]
    fdir = os.path.join(CACHE, "facts", key)
    lock = open(os.path.join(CACHE, "lock"), "w")
    fcntl.flock(lock, fcntl.LOCK_EX)
    try:
        if not (os.path.isdir(fdir) and os.path.exists(os.path.join(fdir, "DONE"))) or os.environ.get("VERIF_NO_CACHE"):
            shutil.rmtree(fdir, ignore_errors=True)
            os.makedirs(fdir)
            tdir = os.path.join(CACHE, "target-" + feature)
            os.makedirs(tdir, exist_ok=True)
            # force the wrapper to run for the workspace crate
            for fp in glob.glob(os.path.join(tdir, "debug", ".fingerprint", "roughenough-*")):
                shutil.rmtree(fp, ignore_errors=True)
            env = dict(os.environ)
            env.update({
                "RT_FACTS_DIR": fdir,
                "LD_LIBRARY_PATH": os.path.join(sysroot(), "lib"),
                "RUSTFLAGS": RUSTFLAGS,
                "RUSTC_WORKSPACE_WRAPPER": EXTRACT_BIN,
                "CARGO_TARGET_DIR": tdir,
                "CARGO_NET_OFFLINE": "true",
            })
            cmd = ["cargo", "+nightly", "check", "--offline", "--lib", "--bins"]
            if FEATURE_SETS[feature]:
                cmd += ["--features", ",".join(FEATURE_SETS[feature])]
            t0 = time.time()
            r = subprocess.run(cmd, cwd=repo, env=env, capture_output=True, text=True)
            if r.returncode != 0:
                shutil.rmtree(fdir, ignore_errors=True)
                sys.stderr.write(r.stderr[-4000:])
                raise SystemExit("extraction failed: /repo does not build with cargo +nightly check (feature set %s)" % feature)
            got = os.listdir(fdir)
            for e in EXPECTED:
                if not any(g.startswith(e + "-") for g in got):
                    shutil.rmtree(fdir, ignore_errors=True)
                    raise SystemExit("extraction incomplete: no facts for %s (wrapper skipped?)" % e)
            with open(os.path.join(fdir, "DONE"), "w") as fh:
                fh.write("%.1f" % (time.time() - t0))
            if feature in ("awskms", "gcpkms") and not os.environ.get("VERIF_KEEP_TARGETS"):
                shutil.rmtree(tdir, ignore_errors=True)
            # prune old fact dirs (keep the 12 most recent)
            base = os.path.join(CACHE, "facts")
            ds = sorted((os.path.getmtime(os.path.join(base, d)), d) for d in os.listdir(base))
            for _, d in ds[:-12]:
                shutil.rmtree(os.path.join(base, d), ignore_errors=True)
    finally:
        fcntl.flock(lock, fcntl.LOCK_UN)
        lock.close()
    out = {}
    for f in sorted(os.listdir(fdir)):
        if f.endswith(".json"):
            k = "-".join(f.split("-")[:2])
            with open(os.path.join(fdir, f)) as fh:
                out[k] = json.load(fh)
    return out


def extract_crate(crate_dir, quiet=True):
    """Extract a stand-alone crate (the positive fixture). No caching of facts beyond a content key."""
    ensure_extractor()
    os.makedirs(CACHE, exist_ok=True)
    key = hashlib.sha256((tree_hash(crate_dir) + "fixture" + extractor_version() + RUSTFLAGS).encode()).hexdigest()[:24]
    fdir = os.path.join(CACHE, "facts", "fx-" + key)
    lock = open(os.path.join(CACHE, "lock"), "w")
    fcntl.flock(lock, fcntl.LOCK_EX)
    try:
        if not os.path.exists(os.path.join(fdir, "DONE")):
            shutil.rmtree(fdir, ignore_errors=True)
            os.makedirs(fdir)
            tdir = os.path.join(CACHE, "target-fixture")
            shutil.rmtree(tdir, ignore_errors=True)
            env = dict(os.environ)
            env.update({
                "RT_FACTS_DIR": fdir,
                "LD_LIBRARY_PATH": os.path.join(sysroot(), "lib"),
                "RUSTFLAGS": RUSTFLAGS,
                "RUSTC_WORKSPACE_WRAPPER": EXTRACT_BIN,
                "CARGO_TARGET_DIR": tdir,
                "CARGO_NET_OFFLINE": "true",
            })
            r = subprocess.run(["cargo", "+nightly", "check", "--offline", "--lib"], cwd=crate_dir, env=env,
                               capture_output=True, text=True)
            if r.returncode != 0:
                sys.stderr.write(r.stderr[-4000:])
                raise SystemExit("fixture extraction failed")
            if not any(f.endswith(".json") for f in os.listdir(fdir)):
                raise SystemExit("fixture extraction produced no facts")
            with open(os.path.join(fdir, "DONE"), "w") as fh:
                fh.write("ok")
            shutil.rmtree(tdir, ignore_errors=True)
    finally:
        fcntl.flock(lock, fcntl.LOCK_UN)
        lock.close()
    out = {}
    for f in sorted(os.listdir(fdir)):
        if f.endswith(".json"):
            with open(os.path.join(fdir, f)) as fh:
                out["-".join(f.split("-")[:2])] = json.load(fh)
    return out


if __name__ == "__main__":
    t0 = time.time()
    d = extract(sys.argv[1] if len(sys.argv) > 1 else "/repo", sys.argv[2] if len(sys.argv) > 2 else "default")
    for k, v in d.items():
        print(k, len(v["fns"]), "fns")
    print("%.1fs" % (time.time() - t0))
