"""Difference-constraint / interval prover (A5) over provenance terms.

Sound for mathematical integers provided every arithmetic operation on the path has itself been proven not to overflow
(the no-panic engine proves each overflow site separately and never uses an overflow assert as a hypothesis), so the
result is independent of whether overflow checks are compiled in."""
import re

import flow
import values
from values import INT_RANGES

INF = float("inf")
UNSIGNED = ("u8", "u16", "u32", "u64", "u128", "usize")
WIDTH = {"u8": 8, "u16": 16, "u32": 32, "u64": 64, "usize": 64, "u128": 128, "i8": 8, "i16": 16, "i32": 32, "i64": 64, "isize": 64, "i128": 128}
ISIZE_MAX = 2 ** 63 - 1


def ty_range(ty):
    if ty in INT_RANGES:
        return INT_RANGES[ty]
    return None


def array_len(ty):
    if not ty:
        return None
    m = re.search(r"\[[^\[\];]+; (\d+)\]$", ty.replace("&mut ", "").replace("&", "").strip())
    if m:
        return int(m.group(1))
    return None


def term_array_len(W, ev, t):
    """Length of a fixed-size array denoted by a place term (through its declared field type), else None."""
    n = array_len(ev.tty.get(t)) if ev is not None else None
    if n is not None:
        return n
    if isinstance(t, tuple) and t and t[0] == "field" and isinstance(t[1], tuple) and t[1][0] == "param":
        f = W.prog.fns.get(t[1][1])
        if f is not None:
            ty = f.locals[t[1][2]]["ty"].replace("&mut ", "").replace("&", "")
            adt = W.prog.adts.get(ty)
            if adt is not None:
                for fld in adt["variants"][0]["fields"]:
                    if fld["name"] == t[2]:
                        return array_len(fld["ty"])
    if isinstance(t, tuple) and t and t[0] == "obj":
        f = W.prog.fns.get(t[1])
        if f is not None:
            return array_len(f.locals[t[2]]["ty"])
    return None


def value_preserving_cast(frm, to):
    """Casts that never change the mathematical value."""
    if frm == to:
        return True
    if frm in UNSIGNED and to in UNSIGNED and WIDTH[to] >= WIDTH[frm]:
        return True
    if frm in UNSIGNED and to in WIDTH and to not in UNSIGNED and WIDTH[to] > WIDTH[frm]:
        return True
    return False


class Bounds:
    def __init__(self, W, fn, ev, IN=None, pre=None):
        self.W = W
        self.fn = fn
        self.ev = ev
        self.IN = IN if IN is not None else flow.must_facts(fn, ev)
        self.pre = pre or {}
        self.axioms = []      # relational facts that always hold: (op, a, b)
        self.field_min_len = {}   # (adt, field) -> min length invariant
        self._closure = {}
        self._corr = {}

    # ------------------------------------------------------------------ linear normal form
    def lin(self, t, depth=0):
        """term -> (atom or None, const)"""
        if not isinstance(t, tuple) or not t or depth > 12:
            return (t, 0)
        k = t[0]
        if k == "int":
            return (None, t[1])
        if k == "bin":
            op = t[1].replace("WithOverflow", "")
            if op in ("Add", "Sub"):
                a, b = self.lin(t[2], depth + 1), self.lin(t[3], depth + 1)
                if op == "Add":
                    if a[0] is None:
                        return (b[0], a[1] + b[1])
                    if b[0] is None:
                        return (a[0], a[1] + b[1])
                else:
                    if b[0] is None:
                        return (a[0], a[1] - b[1])
                    if a[0] == b[0]:
                        return (None, a[1] - b[1])
            return (t, 0)
        if k == "cast":
            if value_preserving_cast(t[1], t[2]):
                return self.lin(t[3], depth + 1)
            return (t, 0)
        if k == "vfield" and t[2] in ("Continue", "Ok", "Some") and isinstance(t[1], tuple) and t[1][0] == "int":
            return (None, t[1][1])
        if k == "len":
            n = array_len(self.ev.tty.get(t[1]))
            if n is not None:
                return (None, n)
            if isinstance(t[1], tuple) and t[1][0] == "bytes":
                return (None, len(t[1][1]))
            if isinstance(t[1], tuple) and t[1][0] == "obj":
                fn = self.W.prog.fns.get(t[1][1])
                if fn is not None:
                    n = array_len(fn.locals[t[1][2]]["ty"])
                    if n is not None:
                        return (None, n)
        return (t, 0)

    # ------------------------------------------------------------------ intervals of atoms
    def itv(self, a, depth=0):
        lo, hi = -INF, INF
        if a in self.pre:
            plo, phi = self.pre[a]
            lo, hi = max(lo, plo), min(hi, phi)
        if not isinstance(a, tuple) or not a or depth > 8:
            return lo, hi
        ty = self.ev.tty.get(a)
        r = ty_range(ty) if ty else None
        if r:
            lo, hi = max(lo, r[0]), min(hi, r[1])
        k = a[0]
        if k == "loopvar":
            # the engine's placeholder for "the value of this local in some iteration": it has the local's type
            f0 = self.W.prog.fns.get(a[1])
            if f0 is not None and isinstance(a[2], int) and a[2] < len(f0.locals):
                r0 = ty_range(f0.locals[a[2]]["ty"].strip())
                if r0:
                    lo, hi = max(lo, r0[0]), min(hi, r0[1])
        lr = getattr(self, "local_ranges", None)
        if lr:
            # all-time range of a local established by a loop-bound lemma (nopanic.halving_loops): applies to the engine's placeholder for
            # "the value of this local in some iteration", also when it is the value half of the checked-add temporary that feeds it
            if k == "loopvar" and a[1] == self.fn.path and a[2] in lr:
                lo, hi = max(lo, lr[a[2]][0]), min(hi, lr[a[2]][1])
            if k == "field" and a[2] == "0" and isinstance(a[1], tuple) and a[1] and a[1][0] == "loopvar" and a[1][1] == self.fn.path and (a[1][2], "0") in lr:
                lo, hi = max(lo, lr[(a[1][2], "0")][0]), min(hi, lr[(a[1][2], "0")][1])
        if k == "field" and isinstance(a[1], tuple) and a[1] and a[1][0] in ("obj", "loopvar") and str(a[2]).isdigit():
            # component of a tuple-typed local, e.g. the value half of a checked arithmetic result `(usize, bool)`
            f0 = self.W.prog.fns.get(a[1][1])
            if f0 is not None:
                tyt = f0.locals[a[1][2]]["ty"].strip()
                if tyt.startswith("(") and tyt.endswith(")"):
                    comps = [c.strip() for c in tyt[1:-1].split(",")]
                    if int(a[2]) < len(comps):
                        r0 = ty_range(comps[int(a[2])])
                        if r0:
                            lo, hi = max(lo, r0[0]), min(hi, r0[1])

        def sub(t):
            la = self.lin(t)
            if la[0] is None:
                return la[1], la[1]
            l2, h2 = self.itv(la[0], depth + 1)
            return l2 + la[1], h2 + la[1]

        if k == "field" and depth < 3:
            # an integer field that only the constructors of its type ever set (`hash_len` cached at construction)
            owner = self.adt_of_term(a[1])
            if owner:
                try:
                    from lib import immutable_field_ints
                    ints = immutable_field_ints(self.W, owner, a[2])
                except Exception:
                    ints = None
                if ints:
                    lo, hi = max(lo, ints[0]), min(hi, ints[-1])
        if k == "len":
            lo, hi = max(lo, 0), min(hi, ISIZE_MAX)
            base = a[1]
            if isinstance(base, tuple) and base and base[0] == "index" and depth < 4 and isinstance(base[2], tuple) and base[2] and base[2][0] == "agg" and "Range" in str(base[2][1]):
                # a sub-slice is no longer than the slice it is taken from
                l3, h3 = self.itv(("len", base[1]), depth + 1)
                hi = min(hi, h3)
            if depth < 2:
                try:
                    from lib import bytelen as _bytelen
                    bl0 = _bytelen(self.W, self.ev, base)
                except Exception:
                    bl0 = None
                if isinstance(bl0, int):
                    lo, hi = max(lo, bl0), min(hi, bl0)
                else:
                    try:
                        from lib import bytelen_max as _bytelen_max
                        bm = _bytelen_max(self.W, self.ev, base)
                    except Exception:
                        bm = None
                    if isinstance(bm, int):
                        hi = min(hi, bm)
            if isinstance(base, tuple) and base[0] == "field":
                owner = self.adt_of_term(base[1])
                if owner and (owner, base[2]) in self.field_min_len:
                    lo = max(lo, self.field_min_len[(owner, base[2])])
                if owner and (owner, base[2]) in getattr(self, "field_max_len", {}):
                    hi = min(hi, self.field_max_len[(owner, base[2])])
        elif k == "field" and a[2] == "0" and isinstance(a[1], tuple) and a[1][0] == "vfield":
            src = a[1][1]
            # byte count returned by recv_from / read into a buffer: at most the buffer length
            if isinstance(src, tuple) and src[0] == "call" and values.strip_generics(src[1]).split("::")[-1] in ("recv_from", "recv", "peek_from"):
                sf = self.W.prog.fns.get(src[3][0])
                if sf is not None:
                    n = array_len(sf.blocks[src[3][1]].term["arg_tys"][1])
                    if n is None and len(src[2]) > 1:
                        n = term_array_len(self.W, self.ev, src[2][1])
                    lo = max(lo, 0)
                    if n is not None:
                        hi = min(hi, n)
            # index produced by enumerate() over a slice
            if isinstance(src, tuple) and src[0] == "call" and values.strip_generics(src[1]).split("::")[-1] == "next" and "Enumerate" in src[1]:
                lo, hi = max(lo, 0), min(hi, ISIZE_MAX - 1)
        elif k == "cast":
            r2 = ty_range(a[2])
            if r2:
                lo, hi = max(lo, r2[0]), min(hi, r2[1])
            il, ih = sub(a[3])
            if a[1] in UNSIGNED and a[2] in UNSIGNED:
                hi = min(hi, ih)  # truncation of an unsigned value never increases it
                if r2 and ih <= r2[1]:
                    lo = max(lo, il)
            elif r2 and il >= r2[0] and ih <= r2[1]:
                lo, hi = max(lo, il), min(hi, ih)
        elif k == "bin":
            op = a[1].replace("WithOverflow", "")
            (al, ah), (bl, bh) = sub(a[2]), sub(a[3])
            if op == "Rem" and bl == bh and bl > 0 and al >= 0:
                lo, hi = max(lo, 0), min(hi, bl - 1, ah)
            elif op == "BitAnd" and bl == bh and bl >= 0:
                lo, hi = max(lo, 0), min(hi, bl)
            elif op == "BitAnd" and al == ah and al >= 0:
                lo, hi = max(lo, 0), min(hi, al)
            elif op == "Div" and bl >= 1 and al >= 0:
                lo, hi = max(lo, al // bh if bh != INF else 0), min(hi, ah // bl if ah != INF else INF)
            elif op == "Shr" and bl == bh and bl >= 0 and al >= 0 and bl != INF:
                lo, hi = max(lo, 0), min(hi, (ah // (2 ** int(bl))) if ah != INF else INF)
            elif op == "Mul" and al >= 0 and bl >= 0:
                lo, hi = max(lo, al * bl), min(hi, ah * bh if INF not in (ah, bh) else INF)
            elif op in ("Eq", "Ne", "Lt", "Le", "Gt", "Ge"):
                lo, hi = max(lo, 0), min(hi, 1)
            elif op == "Add":
                lo, hi = max(lo, al + bl), min(hi, ah + bh)
            elif op == "Sub":
                lo, hi = max(lo, al - bh), min(hi, ah - bl)
        elif k == "phi":
            ls, hs = [], []
            for alt in a[1]:
                l2, h2 = sub(alt)
                ls.append(l2)
                hs.append(h2)
            if ls:
                lo, hi = max(lo, min(ls)), min(hi, max(hs))
        elif k == "vfield":
            # payload of a call result: typed via tty; the byte count of a socket / stream transfer is at most the length of the buffer handed in
            src = a[1]
            if isinstance(src, tuple) and src and src[0] == "call" and a[2] == "Ok" and values.strip_generics(src[1]).split("::")[-1] in ("send_to", "send", "write", "read", "recv") \
                    and len(src[2]) >= 2 and depth < 3:
                bl2, bh2 = self.itv(("len", src[2][1]), depth + 1)
                lo, hi = max(lo, 0), min(hi, bh2)
                if "Udp" in src[1] and values.strip_generics(src[1]).split("::")[-1] in ("send_to", "send", "recv"):
                    hi = min(hi, 65535)      # one UDP datagram: the length field of the UDP header has 16 bits (a longer buffer is refused with EMSGSIZE)
        elif k == "call":
            nm = values.strip_generics(a[1]).split("::")[-1]
            if nm in ("trailing_zeros", "leading_zeros", "count_ones", "count_zeros", "ilog2"):
                lo, hi = max(lo, 0), min(hi, 128)
            elif nm == "saturating_sub" and len(a[2]) == 2:
                (xl, xh), (yl, yh) = sub(a[2][0]), sub(a[2][1])
                lo, hi = max(lo, 0, xl - yh if yh != INF and xl != -INF else 0), min(hi, max(0, xh - yl) if xh != INF and yl != -INF else xh)
            elif nm in ("min",) and len(a[2]) == 2:
                (xl, xh), (yl, yh) = sub(a[2][0]), sub(a[2][1])
                lo, hi = max(lo, min(xl, yl)), min(hi, min(xh, yh))
            elif nm in ("max",) and len(a[2]) == 2:
                (xl, xh), (yl, yh) = sub(a[2][0]), sub(a[2][1])
                lo, hi = max(lo, max(xl, yl)), min(hi, max(xh, yh))
            elif nm == "div_ceil" and len(a[2]) == 2:
                (xl, xh), (yl, yh) = sub(a[2][0]), sub(a[2][1])
                if yl >= 1 and xl >= 0:
                    lo, hi = max(lo, 0), min(hi, (-(-xh // yl)) if xh != INF else INF)
            elif nm in ("saturating_add", "wrapping_add", "checked_add") and len(a[2]) == 2 and False:
                pass
            elif nm == "abs_diff" and len(a[2]) == 2:
                (xl, xh), (yl, yh) = sub(a[2][0]), sub(a[2][1])
                lo, hi = max(lo, 0), min(hi, max(xh, yh))
            elif nm == "output_len" and "digest" in a[1]:
                lo, hi = max(lo, 1), min(hi, 64)       # ring digests are at most 64 bytes (SHA-512)
            elif a[1] in self.W.prog.fns and depth < 3:
                # crate-local accessor: bound by its (inlined) return value
                r = self.ev.inline(a) if a[3][0] == self.fn.path else self.W.ev(a[3][0]).inline(a) if len(a) > 3 and a[3] else a
                if r != a:
                    l2, h2 = sub(r)
                    lo, hi = max(lo, l2), min(hi, h2)
        return lo, hi

    def adt_of_term(self, t, depth=0):
        """Crate type of the value a term denotes: `self` of a method, or a (nested) field of such a value (`self.merkle` -> MerkleTree)."""
        P = self.W.prog
        if not isinstance(t, tuple) or not t or depth > 4:
            return None
        if t[0] == "param":
            f = P.fns.get(t[1])
            if f is None or t[2] >= len(f.locals):
                return None
            ty = f.locals[t[2]]["ty"].replace("&mut ", "").replace("&", "").strip()
            if ty in P.adts:
                return ty
            return f.impl_self if t[2] == 1 and f.impl_self and ty.split("<")[0].endswith(f.impl_self.split("::")[-1]) else None
        if t[0] == "field":
            o = self.adt_of_term(t[1], depth + 1)
            a = P.adts.get(o) if o else None
            if a and a.get("variants"):
                for fl in a["variants"][0]["fields"]:
                    if fl["name"] == t[2]:
                        ty = fl["ty"].replace("&mut ", "").replace("&", "").strip()
                        return ty if ty in P.adts else None
        return None

    def snapshot_valid(self, a, bb):
        """a = ('len', place, (fn, block)): no block on a path from the snapshot site to bb (loops included) may mutate the place."""
        place, site = a[1], a[2]
        if not (isinstance(site, tuple) and len(site) == 2 and site[0] == self.fn.path):
            return False
        key = (a, bb)
        if key in self._closure.setdefault("_snap", {}):
            return self._closure["_snap"][key]
        fn = self.fn
        s0 = site[1]
        # paths from the (latest execution of the) snapshot site to bb: they do not pass through the site again
        fwd = set()
        dq = list(fn.succ(s0))
        while dq:
            n = dq.pop()
            if n in fwd or n == s0:
                continue
            fwd.add(n)
            dq.extend(fn.succ(n))
        back = {bb}
        dq = list(fn.pred(bb)) if bb != s0 else []
        while dq:
            n = dq.pop()
            if n in back or n == s0:
                continue
            back.add(n)
            dq.extend(fn.pred(n))
        ok = bb in fwd or bb == s0
        if ok:
            between = (fwd & back) - {bb}
            # values the place is computed from must not be re-computed on the way (loop variables, call results)
            for x in values.subterms(place):
                if isinstance(x, tuple) and x and x[0] == "call" and len(x) > 3 and isinstance(x[3], tuple) and x[3][0] == fn.path and x[3][1] in between:
                    ok = False
            for n in between:
                if not ok:
                    break
                for m in flow.mutated_bases(fn, self.ev, n):
                    if m == place or values.contains(place, lambda x, m=m: x == m):
                        ok = False
                        break
        self._closure["_snap"][key] = ok
        return ok

    def _between(self, s0, bb):
        """Blocks on paths from the terminator of s0 to the terminator of bb that do not pass through s0 again (bb excluded); None if bb
        is not reachable that way."""
        fn = self.fn
        fwd = set()
        dq = list(fn.succ(s0))
        while dq:
            n = dq.pop()
            if n in fwd or n == s0:
                continue
            fwd.add(n)
            dq.extend(fn.succ(n))
        if bb not in fwd:
            return None
        back = {bb}
        dq = list(fn.pred(bb))
        while dq:
            n = dq.pop()
            if n in back or n == s0:
                continue
            back.add(n)
            dq.extend(fn.pred(n))
        return (fwd & back) - {bb}

    def length_transfer(self, a, others):
        """Relations for a length snapshot a = ('len', P, (fn, b2)) of a growable place P that follow from what happened to P since an
        earlier point: another snapshot ('len', P, (fn, b1)) with exactly one append in between gives len2 = len1 + len(appended) (push: +1,
        nothing: equal); a clear() / truncate(0) that dominates with nothing after it gives len2 = 0."""
        out = []
        place, site = a[1], a[2]
        fn = self.fn
        if not (isinstance(site, tuple) and len(site) == 2 and site[0] == fn.path):
            return out
        b2 = site[1]

        def events(blocks):
            evs = []
            for n in blocks:
                t = fn.blocks[n].term
                if t["k"] != "call":
                    # in-place assignments through the place
                    for m in flow.mutated_bases(fn, self.ev, n):
                        if m == place or values.contains(place, lambda x, m=m: x == m):
                            evs.append((n, "assign", ()))
                    continue
                args = self.ev.call_args(n)
                for i, (ao, ty) in enumerate(zip(args, t.get("arg_tys", []))):
                    if ty.startswith("&mut") and (ao == place or values.contains(place, lambda x, ao=ao: x == ao) and ao[0] not in ("param",)):
                        evs.append((n, values.strip_generics(t["fn"].get("path", "")).split("::")[-1], tuple(args)))
                for m in flow.mutated_bases(fn, self.ev, n):
                    if (m == place) and not any(e[0] == n for e in evs):
                        evs.append((n, "assign", ()))
            return evs

        def inner_loop(blocks, anchor):
            al = {id(l) for l in fn.in_loop(anchor)}
            la = [l["header"] for l in fn.in_loop(anchor)]
            for n in blocks:
                for l in fn.in_loop(n):
                    if l["header"] not in la:
                        return True
            return False

        def appended_len(name, args):
            if name == "push" and len(args) == 2:
                return ("int", 1)
            if name in ("extend_from_slice", "extend", "push_str", "write_all") and len(args) == 2:
                src = self.W.expand(args[1])
                for _ in range(5):
                    if isinstance(src, tuple) and src and src[0] == "call" and values.strip_generics(src[1]).split("::")[-1] in ("copied", "cloned", "iter", "into_iter", "as_ref", "as_slice", "deref", "as_bytes", "as_str") and src[2]:
                        src = self.W.expand(src[2][0])
                return ("len", src)
            return None

        # (a) relative to another snapshot
        for o in others:
            if o == a or not (o[0] == "len" and len(o) == 3 and o[1] == place and isinstance(o[2], tuple) and o[2][0] == fn.path):
                continue
            b1 = o[2][1]
            if b1 == b2 or not fn.dominates(b1, b2):
                continue
            btw = self._between(b1, b2)
            if btw is None or inner_loop(btw | {b2}, b1):
                continue
            evs = events(btw)
            if not evs:
                out.append(("Eq", a, o))
            elif len(evs) == 1:
                add = appended_len(evs[0][1], evs[0][2])
                if add is not None:
                    out.append(("Eq", a, ("bin", "Add", o, add)))
        # (b) emptied before
        for bl in fn.blocks:
            t = bl.term
            if t["k"] != "call" or bl.idx == b2 or not fn.dominates(bl.idx, b2):
                continue
            nm = values.strip_generics(t["fn"].get("path", "")).split("::")[-1]
            if nm not in ("clear", "truncate"):
                continue
            args = self.ev.call_args(bl.idx)
            if not args or args[0] != place or (nm == "truncate" and (len(args) < 2 or args[1] != ("int", 0))):
                continue
            btw = self._between(bl.idx, b2)
            if btw is None or inner_loop(btw | {b2}, bl.idx):
                continue
            if not events(btw):
                out.append(("Eq", a, ("int", 0)))
        return out

    # ------------------------------------------------------------------ constraint graph
    def _atoms_of(self, terms):
        out = []
        for t in terms:
            la = self.lin(t)
            if la[0] is not None and la[0] not in out:
                out.append(la[0])
        return out

    def closure(self, bb, extra_terms=()):
        rels = []
        for f in self.IN.get(bb, frozenset()):
            rels.extend(flow.relational(f))
        if bb not in self._corr:
            self._corr[bb] = flow.correlated_facts(self.fn, self.ev, self.IN, bb)
        for f in self._corr[bb]:
            rels.extend(flow.relational(f))
        terms = list(extra_terms)
        rels = rels + list(self.axioms)
        # v.is_empty() read at a site is a statement about v.len() at that site
        for r in list(rels):
            if r[0] in ("Pred", "NotPred") and r[1] == "is_empty" and isinstance(r[2], tuple):
                owner = None
                for f0 in (self.IN.get(bb, frozenset()) if hasattr(self.IN, "get") else ()):
                    t0 = f0[1]
                    while isinstance(t0, tuple) and t0 and t0[0] == "un":
                        t0 = t0[2]
                    if isinstance(t0, tuple) and t0 and t0[0] == "call" and values.strip_generics(t0[1]).split("::")[-1] == "is_empty" and t0[2] and t0[2][0] == r[2] and len(t0) > 3 and t0[3]:
                        owner = t0[3]
                if owner is not None:
                    ln = ("len", r[2], owner)
                    rels.append(("Eq", ln, ("int", 0)) if r[0] == "Pred" else ("Lt", ("int", 0), ln))
        # a checked operation that was executed without its overflow assertion firing bounds its operands: a + b <= MAX, b <= a
        for r in list(rels):
            if r[0] == "False" and isinstance(r[1], tuple) and r[1] and r[1][0] == "ovf" and len(r[1]) == 4:
                okind, oa, ob = r[1][1], r[1][2], r[1][3]
                rng = ty_range(self.ev.tty.get(oa)) or ty_range(self.ev.tty.get(ob)) or INT_RANGES.get("usize")
                if okind.startswith("Add") and rng:
                    rels.append(("Le", ("bin", "Add", oa, ob), ("int", rng[1])))
                elif okind.startswith("Sub") and rng:
                    rels.append(("Le", ("bin", "Add", ob, ("int", rng[0])), oa))
        for r in rels:
            if r[0] in ("Lt", "Le", "Eq", "Ne"):
                terms.extend([r[1], r[2]])
        atoms = self._atoms_of(terms)
        # structural companions
        work = list(atoms)
        seen = set(map(id, []))
        extra_edges = []
        i = 0
        while i < len(work) and i < 200:
            a = work[i]
            i += 1
            if not isinstance(a, tuple):
                continue
            if a[0] == "len" and len(a) == 2 and isinstance(a[1], tuple) and a[1][0] == "index":
                base, rng = a[1][1], a[1][2]
                if isinstance(rng, tuple) and rng[0] == "agg":
                    lab = str(rng[1])
                    if lab.endswith("RangeTo::RangeTo"):
                        extra_edges.append(("Eq", a, rng[2][0]))
                        work.extend(x for x in self._atoms_of([rng[2][0]]) if x not in work)
                    elif lab.endswith("RangeFrom::RangeFrom"):
                        s = self.lin(rng[2][0])
                        if s[0] is not None:
                            plo, phi_ = self._sub_itv(rng[2][0])
                            if plo == phi_ and plo not in (INF, -INF):
                                s = (None, plo)      # e.g. a cursor position known exactly
                        if s[0] is None:
                            bl = ("len", base)
                            extra_edges.append(("Eq", a, ("bin", "Sub", bl, ("int", s[1]))))
                            work.extend(x for x in self._atoms_of([bl]) if x not in work)
                    elif lab.endswith("Range::Range"):
                        s = self.lin(rng[2][0])
                        if s[0] is None:
                            extra_edges.append(("Eq", a, ("bin", "Sub", rng[2][1], ("int", s[1]))))
                            work.extend(x for x in self._atoms_of([rng[2][1]]) if x not in work)
            if a[0] == "call" and values.strip_generics(a[1]).split("::")[-1] in ("saturating_sub", "checked_sub", "wrapping_sub") and len(a[2]) == 2 \
                    and values.strip_generics(a[1]).split("::")[-1] == "saturating_sub":
                extra_edges.append(("Le", a, a[2][0]))
                extra_edges.append(("Le", ("int", 0), a))
                work.extend(y for y in self._atoms_of([a[2][0]]) if y not in work)
            if a[0] == "call" and values.strip_generics(a[1]).split("::")[-1] == "min" and len(a[2]) == 2:
                for x in a[2]:
                    extra_edges.append(("Le", a, x))
                    work.extend(y for y in self._atoms_of([x]) if y not in work)
            if a[0] == "cast" and a[1] in UNSIGNED and a[2] in UNSIGNED:
                extra_edges.append(("Le", a, a[3]))
                work.extend(x for x in self._atoms_of([a[3]]) if x not in work)
            if a[0] == "bin":
                op = a[1].replace("WithOverflow", "")
                if op == "Sub" and isinstance(a[2], tuple) and a[2] and a[2][0] == "len" and len(a[2]) == 3:
                    # difference of two length snapshots of the same growable place
                    for rel2 in self.length_transfer(a[2], [a[3]]):
                        if rel2[0] == "Eq" and isinstance(rel2[2], tuple) and rel2[2][0] == "bin" and rel2[2][1] == "Add" and rel2[2][2] == a[3]:
                            extra_edges.append(("Eq", a, rel2[2][3]))
                            extra_edges.append(("Le", a[3], a[2]))
                            work.extend(x for x in self._atoms_of([rel2[2][3], a[2], a[3]]) if x not in work)
                        elif rel2[0] == "Eq" and rel2[2] == a[3]:
                            extra_edges.append(("Eq", a, ("int", 0)))
                            extra_edges.append(("Le", a[3], a[2]))
                if op == "Sub":
                    bl, bh = self._sub_itv(a[3])
                    if bl >= 0:
                        extra_edges.append(("Le", a, a[2]))
                        work.extend(x for x in self._atoms_of([a[2]]) if x not in work)
                if op in ("Div", "Shr", "Rem", "BitAnd"):
                    al, ah = self._sub_itv(a[2])
                    if al >= 0:
                        extra_edges.append(("Le", a, a[2]))
                        work.extend(x for x in self._atoms_of([a[2]]) if x not in work)
            # loop variable of `for i in a..b`: a <= i < b
            if a[0] == "vfield" and a[2] == "Some" and isinstance(a[1], tuple) and a[1] and a[1][0] == "call" \
                    and values.strip_generics(a[1][1]).split("::")[-1] == "next" and "Range" in a[1][1] and a[1][2]:
                src = self.W.expand(a[1][2][0])
                while isinstance(src, tuple) and src and src[0] == "reader":
                    src = src[1]
                if isinstance(src, tuple) and src and src[0] == "agg" and str(src[1]).endswith("Range::Range") and len(src[2]) == 2:
                    lo_t, hi_t = src[2]
                    extra_edges.append(("Le", lo_t, a))
                    extra_edges.append(("Lt", a, hi_t))
                    work.extend(x for x in self._atoms_of([lo_t, hi_t]) if x not in work)
            if a[0] == "len" and len(a) == 3:
                for rel2 in self.length_transfer(a, [x for x in work if isinstance(x, tuple) and x and x[0] == "len" and len(x) == 3]):
                    extra_edges.append(rel2)
                    if rel2[0] == "Eq" and isinstance(rel2[2], tuple) and rel2[2][0] == "bin" and rel2[2][1] == "Add":
                        extra_edges.append(("Le", rel2[2][2], a))      # appended lengths are non-negative
                    work.extend(x for x in self._atoms_of([rel2[1], rel2[2]]) if x not in work)
            # a length snapshot taken at a call site equals the current length while nothing on the way may have changed the container
            if a[0] == "len" and len(a) == 3 and self.snapshot_valid(a, bb):
                cur = ("len", a[1])
                extra_edges.append(("Eq", a, cur))
                if cur not in work:
                    work.append(cur)
        atoms = work
        nodes = [None] + atoms
        idx = {id(None): 0}
        pos = {}
        for i, a in enumerate(nodes):
            pos[a] = i
        n = len(nodes)
        d = [[INF] * n for _ in range(n)]
        for i in range(n):
            d[i][i] = 0

        def add(x, y, kk):
            # x - y <= kk
            i, j = pos[x], pos[y]
            if kk < d[i][j]:
                d[i][j] = kk

        for a in atoms:
            lo, hi = self.itv(a)
            if hi != INF:
                add(a, None, hi)
            if lo != -INF:
                add(None, a, -lo)

        def add_rel(op, ta, tb):
            la, lb = self.lin(ta), self.lin(tb)
            x, cx = la
            y, cy = lb
            if x is not None and x not in pos:
                return
            if y is not None and y not in pos:
                return
            # x + cx  op  y + cy
            if op == "Le":
                add(x, y, cy - cx)
            elif op == "Lt":
                add(x, y, cy - cx - 1)
            elif op == "Eq":
                add(x, y, cy - cx)
                add(y, x, cx - cy)

        for r in rels:
            if r[0] in ("Lt", "Le", "Eq"):
                add_rel(r[0], r[1], r[2])
        for r in extra_edges:
            add_rel(r[0], r[1], r[2])
        # Ne with a boundary value: x != lo  =>  x >= lo + 1
        for r in rels:
            if r[0] == "Ne":
                la, lb = self.lin(r[1]), self.lin(r[2])
                if lb[0] is None and la[0] in pos and la[0] is not None:
                    v = lb[1] - la[1]
                    lo = -d[pos[None]][pos[la[0]]]
                    hi = d[pos[la[0]]][pos[None]]
                    if lo == v:
                        add(None, la[0], -(v + 1))
                    if hi == v:
                        add(la[0], None, v - 1)
        for k in range(n):
            dk = d[k]
            for i in range(n):
                dik = d[i][k]
                if dik == INF:
                    continue
                di = d[i]
                for j in range(n):
                    v = dik + dk[j]
                    if v < di[j]:
                        di[j] = v
        infeasible = any(d[i][i] < 0 for i in range(n))
        if not infeasible:
            # x != y contradicts x == y
            for r in rels:
                if r[0] != "Ne":
                    continue
                la, lb = self.lin(r[1]), self.lin(r[2])
                x, y = la[0], lb[0]
                if x is None or y is None or x not in pos or y not in pos:
                    continue
                c = lb[1] - la[1]          # x + la1 != y + lb1   <=>   x - y != c
                if d[pos[x]][pos[y]] <= c and d[pos[y]][pos[x]] <= -c:
                    infeasible = True
                    break
        return pos, d, infeasible

    def _sub_itv(self, t):
        la = self.lin(t)
        if la[0] is None:
            return la[1], la[1]
        lo, hi = self.itv(la[0])
        return lo + la[1], hi + la[1]

    # ------------------------------------------------------------------ queries
    def le(self, a, b, c, bb):
        """a <= b + c at the end of block bb (using the facts on entry to bb)."""
        la, lb = self.lin(a), self.lin(b)
        if la[0] is None and lb[0] is None:
            return la[1] <= lb[1] + c
        pos, d, infeasible = self.closure(bb, [a, b])
        if infeasible:
            return True
        x, y = la[0], lb[0]
        if (x is not None and x not in pos) or (y is not None and y not in pos):
            return False
        return d[pos[x]][pos[y]] <= lb[1] + c - la[1]

    def upper(self, a, bb, depth=0):
        la = self.lin(a)
        if la[0] is None:
            return la[1]
        pos, d, infeasible = self.closure(bb, [a])
        if infeasible:
            return -INF
        u = d[pos[la[0]]][pos[None]] + la[1]
        # products and quotients of operands whose own bounds come from branch facts (`i < n` then `i * 2`)
        at = la[0]
        if depth < 3 and isinstance(at, tuple) and at and at[0] == "bin":
            op = at[1].replace("WithOverflow", "")
            if op in ("Mul", "Div", "Shr"):
                ux, uy = self.upper(at[2], bb, depth + 1), self.upper(at[3], bb, depth + 1)
                lx, ly = self.lower(at[2], bb), self.lower(at[3], bb)
                if op == "Mul" and lx >= 0 and ly >= 0 and INF not in (ux, uy):
                    u = min(u, ux * uy + la[1])
                elif op == "Div" and lx >= 0 and ly >= 1 and ux != INF:
                    u = min(u, ux // ly + la[1])
                elif op == "Shr" and lx >= 0 and ly >= 0 and ux != INF and ly != INF and ly == uy:
                    u = min(u, ux // (2 ** int(ly)) + la[1])
        return u

    def lower(self, a, bb):
        la = self.lin(a)
        if la[0] is None:
            return la[1]
        pos, d, infeasible = self.closure(bb, [a])
        if infeasible:
            return INF
        return -d[pos[None]][pos[la[0]]] + la[1]

    def infeasible(self, bb):
        return self.closure(bb)[2]
