"""C10 — server identity is a pure function of the seed and certifies every online key."""
import values
import server_model as sm
from lib import World, is_call, callee_name, effects_of, bytelen, uncast, VERSION, VERSIONS
from framework import spec
from mir import strip_generics, AnchorMissing
from values import Ev, fmt

EXPLANATION = """
(1) Purity (T-effect over the transitive callee set): LongTermKey::new, MsgSigner::from_seed, calc_srv_value, public_key and
public_key_bytes reach no randomness, clock, environment or thread source; the signing key is SigningKey::from(SecretKey::try_from(seed))
of the seed parameter and nothing else.  (2) SRV = SHA-512(0xff || public key)[0..32]: Context::new(SHA512), update(0xff), update(pubkey),
finish, sliced 0..32.  (3) One identity per server: in Server::new both Responder::new calls, the SRV value handed to the request
parser and the displayed public key use the single LongTermKey built from load_seed(config); load_seed returns config.seed() on the
plaintext arm.  (4) Certificates: see C02.1 (context, payload, MINT/MAXT) and C13.1 (buffer cleared after each signature).
(5) Cross-protocol separation: the two delegation context strings differ at a byte position inside both, so no DELE payload makes the
signed strings equal.(6) The certificate a responder sends is the one made for the online key it signs with (C02: Responder::new/certifies-stored-key-and-version, send_responses/cert-is-own-certificate).
(6b) That key stays the signing key: no link of Responder.online_key -> OnlineKey.signer -> MsgSigner.signing_key (and LongTermKey.signer) is assigned after
construction or mutably borrowed by anything other than a method of the field's own type, so the certificate made at start-up delegates the key of every later signature.
"""
NOT_DECIDED = "that ed25519-dalek derives the RFC 8032 public key from the seed (trusted)"
TRUSTED = ["ed25519-dalek SigningKey::from / verifying_key", "ring digest SHA-512"]

LTK = "roughenough::key::longterm::LongTermKey"
SIGNER = "roughenough::sign::MsgSigner"


def run(ctx):
    W = World(ctx)
    P = ctx.prog
    sp = spec()
    # ------------------------------------------------------------------ (1) purity
    for f in (LTK + "::new", SIGNER + "::from_seed", LTK + "::calc_srv_value", LTK + "::public_key", SIGNER + "::public_key_bytes", LTK + "::srv_value"):
        ctx.fn(f)
        eff, reach, ext = effects_of(P, [f])
        ctx.check("purity", f.split("::", 2)[-1], not eff, "reaches no randomness / clock / environment / thread source (%d callees)" % (len(reach) + len(ext)),
                  "%s is not a pure function of its inputs: %s" % (f, {k: [x[0] for x in v][:2] for k, v in eff.items()}), ctx.loc(P.fns[f]))
    fs = ctx.fn(SIGNER + "::from_seed")
    cs = [c for c in W.ctor_fields(SIGNER)]
    okk = False
    det = ""
    for (fn, bb, idx, fields) in cs:
        if fn.path == fs.path:
            sk = values.strip_payload(fields.get("signing_key"))
            det = fmt(sk)
            okk = sk == ("param", fs.path, 1) or (is_call(sk) and sk[2] and values.strip_payload(sk[2][0]) == ("param", fs.path, 1))
    ctx.check("purity", "from_seed/key-from-seed-only", okk, "signing_key = SigningKey::from(SecretKey::try_from(seed))", "signing key is %s" % det, ctx.loc(fs))
    # (a MsgSigner built anywhere else - `new`, with a random key - must not be what the long-term identity gets: nothing reachable from
    #  LongTermKey::new constructs one except from_seed)
    ltk_reach, _e, _p = P.reach([LTK + "::new"])
    ctx.check("purity", "MsgSigner/constructed-only-in-from_seed", fs.path in {c[0].path for c in cs} and {c[0].path for c in cs if c[0].path in ltk_reach} == {fs.path}
              and {c[0].path for c in cs} <= {fs.path, SIGNER + "::new"}, "the long-term MsgSigner is only constructed by from_seed",
              "MsgSigner is also constructed in %s" % sorted({c[0].path for c in cs} - {fs.path}))
    ln = ctx.fn(LTK + "::new")
    lcs = W.ctor_fields(LTK)
    okl = len(lcs) == 1 and lcs[0][0].path == ln.path
    if okl:
        f = lcs[0][3]
        s = f.get("signer")
        okl = is_call(s, "MsgSigner::from_seed") and s[2][0] == ("param", ln.path, 1)
        sv = f.get("srv_value")
        from lib import signer_pubkey, digest_form
        if is_call(sv, "LongTermKey::calc_srv_value"):
            okl = okl and signer_pubkey(W, sv[2][0]) == s
        else:
            # the derivation written out in place (or through a helper that did not exist on the reference tree): the same SHA-512(0xff || key)[..32]
            df0 = digest_form(W, W.ev(ln.path), sv)
            okl = okl and df0 is not None and df0["alg"] == ("static", "ring::digest::SHA512") and df0["take"] == sp["common"]["srv_len"] and \
                len(df0["pieces"]) == 2 and df0["pieces"][0] == ("bytes", bytes(sp["common"]["srv_prefix"])) and signer_pubkey(W, df0["pieces"][1]) == s
    pkb = ctx.fn(SIGNER + "::public_key_bytes")
    from lib import signer_pubkey
    rpk = W.ev(pkb.path).ret()
    ctx.check("purity", "public_key_bytes/is-the-verifying-key-of-this-signer", signer_pubkey(W, rpk) == ("param", pkb.path, 1),
              "public_key_bytes = self.signing_key.verifying_key() as bytes", "public_key_bytes returns %s" % fmt(rpk), ctx.loc(pkb))
    ctx.check("purity", "LongTermKey::new/signer-and-srv-from-seed", okl, "signer = from_seed(seed); srv_value = calc_srv_value(signer.public_key_bytes())",
              "LongTermKey::new builds %s" % ({k: fmt(v) for k, v in lcs[0][3].items()} if lcs else None), ctx.loc(ln))

    # ------------------------------------------------------------------ (2) SRV derivation
    cv = ctx.fn(LTK + "::calc_srv_value")
    ev = W.ev(cv.path)
    r = ev.ret()
    from lib import digest_form
    oks = False
    det = fmt(r)
    df = digest_form(W, ev, r)
    if df is not None:
        oks = df["alg"] == ("static", "ring::digest::SHA512") and df["pieces"] == [("bytes", bytes(sp["common"]["srv_prefix"])), ("param", cv.path, 1)] and \
            df["take"] == sp["common"]["srv_len"]
        det = "alg=%s pieces=%s first %s bytes" % (fmt(df["alg"]), [fmt(x) for x in df["pieces"]], df["take"])
    ctx.check("srv-derivation", "calc_srv_value", oks, "SRV = SHA-512(0xff || pubkey)[0..32]", "calc_srv_value computes %s" % det, ctx.loc(cv))

    # ------------------------------------------------------------------ (3) one identity
    rv, sfields, sfn = sm.responder_versions(W)
    sev = W.ev(sfn.path)
    keys = set()
    rnew = P.fns.get(sm.RESPONDER + "::new")
    # which parameter of Responder::new is the long-term key (by type: the parameter list may change)
    LTKP = next((i for i in range(1, (rnew.nargs if rnew else 0) + 1) if "LongTermKey" in rnew.locals[i]["ty"]), 3)
    for name, t in sfields.items():
        if is_call(t, "Responder::new") and len(t[2]) >= LTKP:
            keys.add(t[2][LTKP - 1])
    # identity of a key object = the expression that builds it: LongTermKey::new(load_seed(<config>)); several objects built that way from the
    # same configuration are the same identity (load_seed is a function of the configuration, checked below)
    def key_identity(k):
        if not (isinstance(k, tuple) and k and k[0] == "obj"):
            return None
        init = W.obj_init(k)
        if isinstance(init, tuple) and init and init[0] == "phi":
            # `LongTermKey::from_config(cfg)?` / `.expect(..)`: the value is the payload of the Ok alternative (a failed `?` builds no key)
            oks_ = [a for a in init[1] if isinstance(a, tuple) and a and a[0] == "agg" and str(a[1]).endswith("Result::Ok")]
            rest_ = [a for a in init[1] if a not in oks_]
            if len(oks_) == 1 and all(is_call(a) and callee_name(a[1]) == "from_residual" for a in rest_):
                init = oks_[0][2][0]
        if not is_call(init, "LongTermKey::new"):
            return None
        seed = values.strip_payload(init[2][0])
        while isinstance(seed, tuple) and seed and seed[0] in ("index", "call") and not is_call(seed, "load_seed"):
            # &seed[..] / as_ref / deref views of the loaded seed
            if seed[0] == "index":
                if not (seed[2][0] == "agg" and str(seed[2][1]).endswith("RangeFull")):
                    return None
                seed = values.strip_payload(seed[1])
            elif callee_name(seed[1]) in values.VIEW_NAMES and seed[2]:
                seed = values.strip_payload(seed[2][0])
            else:
                return None
        if not is_call(seed, "load_seed"):
            return None
        return ("LongTermKey::new(load_seed)", tuple(seed[2]))
    idents = {k: key_identity(k) for k in keys}
    okone = bool(keys) and all(v is not None for v in idents.values()) and len(set(idents.values())) == 1
    ltk = next(iter(keys)) if keys else None
    ctx.check("one-identity", "both-responders-share-the-long-term-key", okone,
              "both responders certify with a LongTermKey built as LongTermKey::new(load_seed(config)) from the same configuration",
              "responders are certified by keys that are not provably the same identity: %s" % [fmt(W.obj_init(k)) if k[0] == "obj" else fmt(k) for k in keys], ctx.loc(sfn))
    if okone:
        sv = sfields.get("srv_value")
        oksv = is_call(sv, "LongTermKey::srv_value") and key_identity(sv[2][0]) == next(iter(idents.values()))
        ctx.check("one-identity", "srv-of-same-key", oksv, "Server.srv_value = srv_value() of the same identity",
                  "srv_value is %s" % fmt(sv), ctx.loc(sfn))
    ls = ctx.fn("roughenough::kms::load_seed")
    lev = W.ev(ls.path)
    r = lev.ret()
    alts = r[1] if r[0] == "phi" else (r,)
    oks = [a for a in alts if a[0] == "agg" and str(a[1]).endswith("Result::Ok")]
    def seed_src(x):
        x = values.strip_payload(x)
        return is_call(x) and (x[1].endswith("::seed") or x[1].endswith("EnvelopeEncryption::decrypt_seed"))
    okseed = bool(oks) and all(seed_src(a[2][0]) for a in oks)
    ctx.check("one-identity", "load_seed-returns-config-seed", okseed, "load_seed returns config.seed() (or its KMS decryption)", "load_seed returns %s" % [fmt(a) for a in oks], ctx.loc(ls))
    # Responder public key string is that key's public key
    cs = W.ctor_fields(sm.RESPONDER)
    pk = cs[0][3].get("long_term_public_key") if cs else None
    okpk = pk is not None and values.contains(pk, lambda s: is_call(s, "LongTermKey::public_key") and s[2][0] == ("param", cs[0][0].path, LTKP))
    if not okpk and pk is not None and values.contains(pk, lambda s: s == ("param", cs[0][0].path, LTKP)):
        # the key rendered through its Display implementation (`ltk.to_string()`): that implementation must print the public key
        disp = [f.path for f in P.fns.values() if f.impl_self == LTK and f.impl_trait == "core::fmt::Display" and f.path.endswith("::fmt")]
        if disp:
            reach_d, ext_d, _ = P.reach(disp)
            okpk = any(x.endswith("MsgSigner::public_key_bytes") or x.endswith("LongTermKey::public_key") for x in reach_d)
            if not okpk:
                # ... or reads the verifying key of the signer directly (and nothing of the private half)
                extn = {strip_generics(x) for x in ext_d}
                okpk = any(x.endswith("SigningKey::verifying_key") for x in extn) and not any(x.endswith(("SigningKey::to_bytes", "SigningKey::as_bytes", "SigningKey::to_keypair_bytes", "SigningKey::to_scalar_bytes", "SigningKey::to_scalar")) for x in extn)
    ctx.check("one-identity", "announced-key-is-the-signing-key", okpk, "the announced public key is ltk.public_key()", "announced key is %s" % fmt(pk), ctx.loc(cs[0][0]) if cs else None)

    # ------------------------------------------------------------------ (4) certificate contents
    md = ctx.fn(sm.MAKE_DELE)
    dev = W.ev(md.path)
    r = dev.ret()
    okw = False
    det = "make_dele does not return a locally built message"
    if r[0] == "obj":
        okb, fields, why = sm.message_built(W, dev, r)
        d = {f[0]: f[1] for f in fields}
        from lib import const_bytes
        mi, ma = const_bytes(W, d.get("MINT")), const_bytes(W, d.get("MAXT"))
        okw = okb and mi == bytes(8) and ma == b"\xff" * 8 and signer_pubkey(W, d.get("PUBK")) is not None
        det = "PUBK=%s MINT=%r MAXT=%r" % (fmt(d.get("PUBK")), mi, ma)
    ctx.check("certificate", "delegation-window-contains-every-midpoint", okw, "DELE = {PUBK: online public key, MINT: 0, MAXT: 2^64-1}",
              "delegation is %s" % det, ctx.loc(md))
    mc = ctx.fn(sm.MAKE_CERT)
    mev = W.ev(mc.path)
    seq = sm.sign_sequence(W, mev, (1, ("signer",)))
    okc = [x[0] for x in seq] == ["update", "update", "sign"] and is_call(seq[0][1], "Version::dele_prefix") and seq[0][1][2][0] == ("param", mc.path, 2)
    ctx.check("certificate", "signed-by-long-term-key-under-delegation-context", okc, "make_cert signs dele_prefix(version) || DELE with the long-term signer",
              "make_cert signer events: %s" % [(x[0], fmt(x[1]) if x[1] else None) for x in seq], ctx.loc(mc))

    # ------------------------------------------------------------------ (5) context separation
    dp = ctx.fn("roughenough::version::Version::dele_prefix")
    ctxs = {}
    for v in VERSIONS:
        e = Ev(P, dp, binds={1: ("enum", VERSION, v)})
        val = e.resolve(e.ret())
        ctxs[v] = val[1] if val[0] == "bytes" else None
    a, b = ctxs["Google"], ctxs["RfcDraft13"]
    diff = None
    if a and b:
        for i in range(min(len(a), len(b))):
            if a[i] != b[i]:
                diff = i
                break
    ctx.check("context-separation", "delegation-contexts", diff is not None, "delegation contexts differ at byte %s (inside both strings)" % diff,
              "one delegation context is a prefix of the other (%r / %r): a certificate could verify under both protocols" % (a, b))

    # ------------------------------------------------------------------ (6b) "every certificate the server ever sends": the certificate is made once, when the
    # responder is built, for the key the online signer holds at that moment.  It keeps certifying the key that signs only if no link of the chain
    # Responder -> OnlineKey -> MsgSigner -> SigningKey (and LongTermKey -> MsgSigner) is replaced afterwards: no assignment to those fields, and no
    # mutable borrow of them that goes anywhere else than into a method of the field's own type (mem::replace / swap / take need exactly that borrow).
    from lib import field_replacement_sites
    KEYTYPES = (SIGNER, sm.RESPONDER.rsplit("::", 2)[0] + "::key::online::OnlineKey", LTK)
    chain = []
    for adt in (sm.RESPONDER,) + KEYTYPES:
        a = P.adts.get(adt)
        if not a or not a.get("variants"):
            raise AnchorMissing("definition of %s" % adt)
        for x in a["variants"][0]["fields"]:
            if x["ty"] in KEYTYPES or x["ty"].endswith("::SigningKey"):
                chain.append((adt, x["name"], x["ty"]))
    for adt, fld, ty in chain:
        sites = field_replacement_sites(W, adt, fld)
        ctx.check("certificate", "key-chain-fixed/%s.%s" % (adt.split("::")[-1], fld), not sites,
                  "%s.%s (%s) is set when the value is constructed and never replaced" % (adt.split("::")[-1], fld, ty.split("::")[-1]),
                  "; ".join(d for f, b, d in sites[:3]) + ": the certificate made at start-up no longer delegates the key that signs",
                  sites[0][0].loc(sites[0][1]) if sites else None)
    ctx.floor("certificate-key-chain", len(chain), 4, "links of the key chain (Responder.online_key, OnlineKey.signer, LongTermKey.signer, MsgSigner.signing_key)")

    # ------------------------------------------------------------------ (6) "every certificate the server ever sends, from any worker": the CERT a responder
    # sends is the one made for the online key that signs its responses.  C02's rules on how Responder::new builds cert_bytes and on which bytes
    # send_responses puts into CERT are obligations of C10 as well (a certificate cached per long-term key, reused by a responder with another online
    # key, is a valid delegation of the wrong key).
    import importlib
    from framework import Ctx
    c2 = importlib.import_module("rules.C02")
    sub2 = Ctx("C02", P, ctx.repo, "quick", ctx.feature)
    c2.run(sub2)
    mine2 = [i for i in sub2.instances if i["key"].endswith("Responder::new/certifies-stored-key-and-version") or i["key"].endswith("send_responses/cert-is-own-certificate")]
    bad2 = [i for i in mine2 if not i["ok"]]
    ctx.check("certificate", "sent-certificate-is-for-the-signing-online-key(C02)", not bad2 and len(mine2) == 2,
              "each responder sends encode(make_cert(its version, its online key)) (C02: %d instances)" % len(mine2),
              "a responder can send a certificate that does not delegate the key it signs with: " + (bad2[0]["detail"] if bad2 else "anchor missing"), bad2[0].get("loc") if bad2 else None)
