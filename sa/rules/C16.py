"""C16 — effective settings equal the written ones (file or env), else start is refused."""
import re

import flow
import values
from lib import World, is_call, callee_name, uncast, rel_holds
from framework import spec
from mir import strip_generics, AnchorMissing
from values import fmt

EXPLANATION = """
(1) Key names, exhaustive over the documented settings (table parsed from the ServerConfig trait documentation in /repo): the YAML keys matched by
FileConfig::new and the environment variable names read by EnvironmentConfig::new are exactly the documented ones (ROUGHENOUGH_ + upper(key)).
(2) Wiring: in each loader the arm / variable of key K writes a field F, and the ServerConfig getter for K returns that same field, in
FileConfig, EnvironmentConfig (and MemoryConfig's getters return their own fields).  (3) Lossless conversion: no narrowing or sign-changing
integer cast is applied to a value read from the file; the env loader parses into the field type.  (4) Range checks: for port, batch_size,
fault_percentage and num_workers the condition under which is_valid_config sets `is_valid = false` has the truth table of the documented range;
is_valid starts true, is only ever set to false, and is the return value; the seed length rule mentions 32.  (5) Refusal: a make_config error and an invalid
configuration both end in process::exit(1) before any worker thread is spawned; an unknown YAML key returns Err; the Result of every parse / try_from applied to a setting's text is enforced (unwrap/expect/?/match on Err that
refuses), never swallowed by ok(), unwrap_or(..) or a default; the seed length rule has the truth table of `len == 32`; both loaders construct the
field of every Required setting as the constant unset value (0 / "" / empty Vec) that is_valid_config refuses, so a missing required setting fails start-up.
A setting's field is assigned only from its own key / variable: no assignment outside a key arm (file) and no other assignment (environment), so a
written value cannot be replaced after loading and before validation.  (6) Sibling semantics: both loaders lower-case client_stats and compare with "yes"/"on", decode the seed with the same encoding and parse kms_protection
with the same FromStr.The arm of a key stores its value on every path that goes on to the next key, and a variable that is set is stored on every path (no dependence on what was loaded before).
A pass of the key loop on which no documented key matched never continues with the next key, whatever the type of the value.
"""
NOT_DECIDED = "YAML parsing itself (yaml-rust); std FromStr for integers"
TRUSTED = ["yaml-rust", "std str::parse", "TryFrom<i64> for integer types refuses out-of-range values"]
EXHAUSTIVE = True

FILE = "roughenough::config::file::FileConfig"
ENVC = "roughenough::config::environment::EnvironmentConfig"
MEM = "roughenough::config::memory::MemoryConfig"
TRAIT = "roughenough::config::ServerConfig"
GETTER = {"interface": "interface", "port": "port", "seed": "seed", "batch_size": "batch_size", "status_interval": "status_interval",
          "kms_protection": "kms_protection", "health_check_port": "health_check_port", "client_stats": "client_stats_enabled",
          "persistence_directory": "persistence_directory", "fault_percentage": "fault_percentage", "num_workers": "num_workers"}


def documented(ctx):
    txt = ctx.read_repo_file("src/config/mod.rs")
    rows = re.findall(r"^/// `([a-z_]+)` \| `(ROUGHENOUGH_[A-Z_]+)` \| (Required|Optional)", txt, re.M)
    if len(rows) < 8:
        raise AnchorMissing("documented configuration table in src/config/mod.rs")
    return rows


def getter_field(W, adt, getter):
    P = W.prog
    for im in P.impls:
        if im.get("trait") == TRAIT and im.get("self_adt") == adt:
            p = im["methods"].get(getter)
            if p and p in P.fns:
                ev = W.ev(p)
                r = ev.ret()
                fields = [s[2] for s in values.subterms(r) if isinstance(s, tuple) and s and s[0] == "field" and s[1] == ("param", p, 1)]
                if r[0] == "field" and r[1] == ("param", p, 1):
                    return r[2], r
                if len(set(fields)) == 1:
                    return fields[0], r
                return None, r
    return None, None


def deep_contains(W, t, pred, depth=0):
    """contains(), also looking into the initial values of in-place mutated locals and through crate-local helper
    functions (their return term with the parameters bound to the call's arguments)."""
    if depth > 6:
        return False
    for s in values.subterms(t):
        if isinstance(s, tuple) and s and isinstance(s[0], str):
            if pred(s):
                return True
            if s[0] == "obj":
                init = W.obj_init(s)
                if init is not None and deep_contains(W, init, pred, depth + 1):
                    return True
            if s[0] == "call" and s[1] in W.prog.fns and depth < 4:
                r = W.bind_params(W.ev(s[1]).ret(), s[1], list(s[2]))
                if deep_contains(W, r, pred, depth + 1):
                    return True
    return False


def fold_reach(fn, ev, env_fn, cond_fn=None, untracked=()):
    """Blocks reachable when every branch whose condition is decidable under env_fn(term)->int|None is folded (and, along each path, the
    boolean / variant values the path itself assigned are respected: a helper `fn ok(..) -> bool` inlined back is followed precisely)."""
    def decide(b):
        t = fn.blocks[b].term
        if t["k"] == "switch" and t.get("ty") != "bool":
            # a switch on a value env_fn knows (the discriminant of an assumed variant): the one matching case
            cv = ev.op(t["op"], (b, "term"))
            kv = env_fn(cv) if isinstance(cv, tuple) else None
            if kv is not None:
                for val, bb in t["cases"]:
                    if val == kv:
                        return [bb]
                return [t["otherwise"]]
            return None
        if not (t["k"] == "switch" and t.get("ty") == "bool"):
            return None
        cond = ev.op(t["op"], (b, "term"))
        rels = flow.relational(("eq", cond, True))
        forced = cond_fn(cond) if cond_fn else None
        if forced is not None:
            tgt = t["otherwise"]
            if not forced:
                for val, bb in t["cases"]:
                    if val == 0:
                        tgt = bb
            return [tgt]
        env = {}
        for r in rels:
            for s in values.subterms((r[1], r[2])):
                v = env_fn(s)
                if v is not None:
                    env[s] = v
        hs = [rel_holds(r, env) for r in rels]
        if hs and all(h is not None for h in hs):
            truth = all(hs)
            tgt = t["otherwise"]
            for val, bb in t["cases"]:
                if val == (1 if truth else 0):
                    tgt = bb
            if not truth and not any(val == 0 for val, bb in t["cases"]):
                tgt = t["otherwise"]
            if truth and any(val == 0 for val, bb in t["cases"]):
                tgt = t["otherwise"]
            return [tgt]
        return None
    return fn.feasible_walk(0, decide=decide, untracked=untracked)


def run(ctx):
    W = World(ctx)
    P = ctx.prog
    sp = spec()
    rows = documented(ctx)
    doc_keys = [r[0] for r in rows]
    ctx.check("key-names", "documented-table", set(doc_keys) == set(GETTER), "documented settings: %s" % doc_keys,
              "documented settings %s differ from the ServerConfig getters %s" % (sorted(doc_keys), sorted(GETTER)))
    for k, envname, need in rows:
        ctx.check("key-names", "doc/%s-env-name" % k, envname == sp["config"]["env_prefix"] + k.upper(), "%s <-> %s" % (k, envname),
                  "documented variable for %s is %s" % (k, envname))

    # ------------------------------------------------------------------ FileConfig
    fnew = ctx.fn(FILE + "::new")
    fev = W.ev(fnew.path)
    FIN = flow.must_facts(fnew, fev)
    matched = {}
    cands = []
    for bb, t in fnew.calls():
        p = t["fn"].get("path", "")
        if callee_name(p) == "eq" and ("str" in p or "cmp::impls" in p):      # `match key { "seed" => ..}` and `if key == "seed"` alike
            a = fev.call_args(bb)
            lit = [x[1] for x in a if x[0] == "str"]
            other = [x for x in a if x[0] != "str"]
            if lit and other:
                cands.append((lit[0], other[0], bb))
    from collections import Counter
    keyterm = Counter(c[1] for c in cands).most_common(1)[0][0] if cands else None
    for (lit, other, bb) in cands:
        if other == keyterm:
            matched[lit] = bb
    for k in doc_keys:
        ctx.check("key-names", "file/%s" % k, k in matched, "FileConfig matches the key `%s`" % k, "FileConfig does not recognise the documented key `%s`" % k, ctx.loc(fnew))
    extra = sorted(set(matched) - set(doc_keys))
    ctx.check("key-names", "file/no-undocumented-keys", not extra, "no undocumented YAML keys", "FileConfig also accepts undocumented keys %s" % extra, ctx.loc(fnew))
    # the config object and its field writes, by key
    cfg_locals = [l for l, loc in enumerate(fnew.locals) if loc["ty"] == FILE and fnew.is_object(l)]
    if len(cfg_locals) != 1:
        raise AnchorMissing("the FileConfig object in FileConfig::new")
    cl = cfg_locals[0]
    writes = {}
    casts = []
    for bl in fnew.blocks:
        if bl.idx not in fnew.reachable():
            continue
        rels = None
        for i, st in enumerate(bl.stmts):
            if st["k"] != "assign":
                continue
            if st["dst"]["l"] == cl and st["dst"].get("p") and "deref" not in st["dst"]["p"]:
                fld = st["dst"]["p"][0].get("name")
                rels = rels if rels is not None else flow.rel_facts_at(FIN, bl.idx)
                keys = [r[2][1] if r[2][0] == "str" else r[1][1] for r in rels if r[0] == "Eq" and (r[2][0] == "str" or r[1][0] == "str")]
                val = fev.rvalue(st["rv"], (bl.idx, i))
                writes.setdefault(keys[-1] if keys else None, []).append((fld, val, bl.idx, i))
            if st["rv"]["k"] == "cast" and st["rv"]["ck"].startswith("IntToInt"):
                casts.append((bl.idx, i, st["rv"]))
    # call destinations writing fields (e.g. config.x = call(...))
    for bb, t in fnew.calls():
        d = t["dst"]
        if d["l"] == cl and d.get("p") and "deref" not in d["p"]:
            fld = d["p"][0].get("name")
            rels = flow.rel_facts_at(FIN, bb)
            keys = [r[2][1] if r[2][0] == "str" else r[1][1] for r in rels if r[0] == "Eq" and (r[2][0] == "str" or r[1][0] == "str")]
            writes.setdefault(keys[-1] if keys else None, []).append((fld, fev.call_term(bb), bb, "term"))
    # a setting is written only in the arm that reads it from the file: an assignment outside every key arm (a fix-up after loading, e.g. "0 means
    # not configured, use the default") replaces what was written before validation sees it
    stray = writes.get(None, [])
    ctx.check("wiring", "file/no-assignment-outside-a-key-arm", not stray, "every assignment to a FileConfig field happens in the arm of the key it is read from",
              "FileConfig::new assigns %s outside the arm of any key: the value written in the file can be replaced before it is validated" % sorted({w[0] for w in stray}),
              fnew.loc(stray[0][2]) if stray else ctx.loc(fnew))
    for k in doc_keys:
        ws = writes.get(k, [])
        gf, gr = getter_field(W, FILE, GETTER.get(k, k))
        okw = len(ws) >= 1 and all(w[0] == gf for w in ws) and gf is not None
        ctx.check("wiring", "file/%s" % k, okw, "`%s` is stored in field %s, which %s() returns" % (k, gf, GETTER.get(k)),
                  "`%s` is stored in %s but %s() returns %s" % (k, sorted({w[0] for w in ws}) or "no field", GETTER.get(k), gf), fnew.loc(ws[0][2]) if ws else ctx.loc(fnew))
        # the arm stores the value whatever the rest of the configuration looks like: a store that happens only when some other setting already
        # has a certain value makes the result depend on the order of the keys in the file (and drops a documented setting silently)
        if ws and k in matched:
            eqb = matched[k]
            swb = fnew.blocks[eqb].term.get("tgt")
            tt_ = fnew.blocks[swb].term if swb is not None else None
            arm = None
            if tt_ is not None and tt_["k"] == "switch":
                arm = tt_["otherwise"] if all(cv == 0 for cv, _x in tt_["cases"]) else next((tg for cv, tg in tt_["cases"] if cv == 1), None)
            hdrs_ = {l["header"] for l in fnew.in_loop(eqb)}
            if arm is not None and hdrs_:
                wbs = [w[2] for w in ws]
                oke = values.must_pass(fnew, wbs, from_block=arm, to_blocks=hdrs_)
                ctx.check("wiring", "file/%s/stored-on-every-path" % k, oke, "the arm of `%s` stores the value on every path that goes on to the next key" % k,
                          "the arm of `%s` can finish without storing the value (the store depends on something else than the key's own value): the setting is dropped silently" % k,
                          fnew.loc(arm))
    # lossless conversion
    for (b, i, rv) in casts:
        frm, to = rv["from"], rv["to"]
        src = fev.op(rv["op"], (b, i))
        from_file = values.contains(src, lambda s: is_call(s) and callee_name(s[1]) in ("as_i64", "as_f64"))
        from prover import value_preserving_cast
        ok = (not from_file) or value_preserving_cast(frm, to)
        ctx.check("lossless-conversion", "file/cast-%s-to-%s@%s" % (frm, to, fmt(src)[:40]), ok, "cast %s -> %s preserves the value" % (frm, to),
                  "a value read from the config file is converted with a wrapping cast %s -> %s" % (frm, to), fnew.loc(b, i), nontrivial=from_file)
    nint = len([1 for k, ws in writes.items() for w in ws if values.contains(w[1], lambda s: is_call(s) and callee_name(s[1]) == "as_i64")])
    ctx.floor("lossless-conversion", nint, 5, "integer settings read with as_i64")
    for k, ws in writes.items():
        for (fld, val, b, i) in ws:
            if values.contains(val, lambda s: is_call(s) and callee_name(s[1]) == "as_i64"):
                conv = [s for s in values.subterms(val) if isinstance(s, tuple) and s and s[0] == "cast"]
                okc = all(__import__("prover").value_preserving_cast(c[1], c[2]) for c in conv)
                ctx.check("lossless-conversion", "file/%s" % k, okc, "`%s` reaches its field without a lossy cast" % k,
                          "`%s` is narrowed by %s" % (k, [(c[1], c[2]) for c in conv]), fnew.loc(b, i if i != "term" else None))
    # unknown key -> Err
    errs = []
    for bl in fnew.blocks:
        for i, st in enumerate(bl.stmts):
            if bl.idx in fnew.reachable() and st["k"] == "assign" and st["dst"]["l"] == 0 and st["rv"]["k"] == "agg" and st["rv"].get("vname") == "Err":
                rels = flow.rel_facts_at(FIN, bl.idx)
                negs = [r for r in rels if r[0] == "Ne" and (r[2][0] == "str" or r[1][0] == "str")]
                if len(negs) >= len(doc_keys):
                    errs.append(bl.idx)
    ctx.check("refusal", "file/unknown-key-is-an-error", len(errs) == 1, "a key matching none of the documented names returns Err", "unknown YAML keys are not rejected", ctx.loc(fnew))
    # ... on every path: follow one pass of the key loop taking the "not this key" edge of every comparison; it must not come back to the loop
    # header (next key) - whatever the type of the value is
    key_cmps = [(lit, bb) for (lit, other, bb) in cands if other == keyterm]
    if key_cmps:
        removed = set()
        order_ = {b: i for i, b in enumerate(fnew.rpo())}
        for lit, bb in key_cmps:
            swb = fnew.blocks[bb].term.get("tgt")
            tt_ = fnew.blocks[swb].term if swb is not None else None
            if tt_ is not None and tt_["k"] == "switch":
                arm = tt_["otherwise"] if all(cv == 0 for cv, _x in tt_["cases"]) else next((tg for cv, tg in tt_["cases"] if cv == 1), None)
                if arm is not None:
                    removed.add((swb, arm))
        first = min((bb for lit, bb in key_cmps if fnew.in_loop(bb)), key=lambda b: order_.get(b, 10 ** 6))
        lp_ = max(fnew.in_loop(first), key=lambda l: len(l["body"]))
        hdrs_ = {lp_["header"]}
        # start at the top of one pass (the loop header), so that every way to the comparisons is covered - also one that depends on the value's type
        seen_, work_, back = set(), [lp_["header"]], None
        while work_:
            x = work_.pop()
            for y in fnew.succ(x):
                if (x, y) in removed or y in seen_:
                    continue
                if y in hdrs_:
                    back = x
                    continue
                seen_.add(y)
                work_.append(y)
        ctx.check("refusal", "file/unknown-key-never-skipped", back is None and bool(hdrs_), "a pass of the key loop in which no documented key matched never goes on to the next key",
                  "a key that matches no documented name can be skipped without an error (the loop continues from %s): a misspelled setting is silently ignored" % (fnew.loc(back) if back is not None else None),
                  fnew.loc(back) if back is not None else ctx.loc(fnew))

    # ------------------------------------------------------------------ EnvironmentConfig
    enew = ctx.fn(ENVC + "::new")
    eev = W.ev(enew.path)
    EIN = flow.must_facts(enew, eev)
    env_reads = {}
    reach_e, _, _ = P.reach([enew.path])
    for fp in sorted(reach_e):
        f2 = P.fns[fp]
        e2 = W.ev(fp)
        for bb, t in f2.calls():
            if strip_generics(t["fn"].get("path", "")).endswith("env::var"):
                a = e2.call_args(bb)[0]
                if a[0] == "str":
                    env_reads[a[1]] = bb
                elif a[0] == "param" and a[1] == fp:
                    for (cp, cbb) in P.callers(fp):
                        ca = W.ev(cp).call_args(cbb)
                        if len(ca) >= a[2] and ca[a[2] - 1][0] == "str":
                            env_reads[ca[a[2] - 1][1]] = cbb
    for k, envname, need in rows:
        ctx.check("key-names", "env/%s" % k, envname in env_reads, "EnvironmentConfig reads %s" % envname,
                  "EnvironmentConfig never reads the documented variable %s (it reads %s)" % (envname, sorted(x for x in env_reads if k.upper() in x) or "nothing similar"), ctx.loc(enew))
    extra = sorted(set(env_reads) - {r[1] for r in rows})
    ctx.check("key-names", "env/no-undocumented-variables", not extra, "no undocumented variables", "EnvironmentConfig reads undocumented variables %s" % extra, ctx.loc(enew))
    ecl = [l for l, loc in enumerate(enew.locals) if loc["ty"] == ENVC and enew.is_object(l)]
    if len(ecl) != 1:
        raise AnchorMissing("the EnvironmentConfig object in EnvironmentConfig::new")
    ecl = ecl[0]
    ewrites = {}
    for bl in enew.blocks:
        if bl.idx not in enew.reachable():
            continue
        for i, st in enumerate(bl.stmts):
            if st["k"] == "assign" and st["dst"]["l"] == ecl and st["dst"].get("p") and "deref" not in st["dst"]["p"]:
                val = eev.rvalue(st["rv"], (bl.idx, i))
                ewrites.setdefault(st["dst"]["p"][0].get("name"), []).append((val, bl.idx, i))
        t = bl.term
        if t["k"] == "call" and t["dst"]["l"] == ecl and t["dst"].get("p") and "deref" not in t["dst"]["p"]:
            ewrites.setdefault(t["dst"]["p"][0].get("name"), []).append((eev.call_term(bl.idx), bl.idx, "term"))
    for k, envname, need in rows:
        gf, gr = getter_field(W, ENVC, GETTER.get(k, k))
        ws = ewrites.get(gf, [])
        is_var = lambda s: is_call(s) and strip_generics(s[1]).endswith("env::var") and s[2][0] == ("str", envname)
        src = [w for w in ws if deep_contains(W, w[0], is_var)]
        if not src:
            # a value chosen by comparing the variable's text (`matches!(v.as_str(), "yes" | "on")` assigns constants in the arms of a match on the
            # text): the write is control-dependent on a comparison of the variable's payload, not merely on its presence
            for w in ws:
                blocks = [w[1]]
                if w[2] != "term":
                    rv0 = enew.blocks[w[1]].stmts[w[2]]["rv"]
                    o0 = (rv0["op"].get("mv") or rv0["op"].get("cp")) if rv0["k"] == "use" else None
                    if o0 and not o0.get("p"):
                        # the value comes from a temporary that the arms of a match set to constants: look at where those are assigned
                        blocks = [d[0] for d in enew.defs().get(o0["l"], []) if d[2] == "whole"] or blocks
                facts = [f for b_ in blocks for f in flow.facts_at(EIN, b_)]
                dep = False
                for f in facts:
                    tm = f[1]
                    if isinstance(tm, tuple) and tm and tm[0] == "discr":
                        continue        # presence of the variable only
                    if values.contains(W.expand(tm) if isinstance(tm, tuple) else tm, is_var) or deep_contains(W, tm, is_var):
                        dep = True
                if dep:
                    src.append(w)
        other = [w for w in ws if w not in src]
        ctx.check("wiring", "env/%s/no-other-assignment" % k, not other, "field %s is assigned only from %s" % (gf, envname),
                  "field %s is also assigned a value that does not come from %s (%s): what was written can be replaced before it is validated" % (gf, envname, [fmt(w[0])[:60] for w in other]),
                  enew.loc(other[0][1]) if other else ctx.loc(enew))
        # the variable, when set, is stored whatever the other variables are
        if src and envname in env_reads:
            rb_ = None
            for bb_, t_ in enew.calls():
                if strip_generics(t_["fn"].get("path", "")).endswith("env::var") and eev.call_args(bb_) and eev.call_args(bb_)[0] == ("str", envname):
                    rb_ = bb_
            if rb_ is not None:
                ct_ = eev.call_term(rb_)
                okarm = None
                for bl in enew.blocks:
                    if bl.idx in enew.reachable() and bl.term["k"] == "switch":
                        c_ = eev.op(bl.term["op"], (bl.idx, "term"))
                        if c_[0] == "discr" and values.strip_payload(c_[1]) == ct_ and enew.dominates(rb_, bl.idx) and okarm is None:
                            cs_ = {cv: tg for cv, tg in bl.term["cases"]}
                            okarm = cs_.get(0, bl.term["otherwise"] if 1 in cs_ else None)
                if okarm is not None:
                    oke = values.must_pass(enew, [w[1] for w in src], from_block=okarm)
                    ctx.check("wiring", "env/%s/stored-whenever-set" % k, oke, "%s, when set, is stored on every path" % envname,
                              "%s can be set and still not be stored (the store depends on something else than the variable's own value): the setting is dropped silently" % envname,
                              enew.loc(okarm))
        ctx.check("wiring", "env/%s" % k, bool(src), "%s is stored in field %s, which %s() returns" % (envname, gf, GETTER.get(k)),
                  "the field %s returned by %s() is not loaded from %s" % (gf, GETTER.get(k), envname), enew.loc(ws[0][1]) if ws else ctx.loc(enew))
        for w in src:
            conv = [s for s in values.subterms(w[0]) if isinstance(s, tuple) and s and s[0] == "cast"]
            from prover import value_preserving_cast
            ctx.check("lossless-conversion", "env/%s" % k, all(value_preserving_cast(c[1], c[2]) for c in conv), "%s reaches its field without a lossy cast" % envname,
                      "%s is narrowed by %s" % (envname, [(c[1], c[2]) for c in conv]), enew.loc(w[1]))
    for k in GETTER:
        gf, gr = getter_field(W, MEM, GETTER[k])
        ctx.check("wiring", "memory/%s" % k, gf is not None or (gr is not None and gr[0] in ("agg", "enum", "int", "call", "phi")), "MemoryConfig::%s returns %s" % (GETTER[k], gf or fmt(gr)),
                  "MemoryConfig::%s returns %s" % (GETTER[k], fmt(gr) if gr else None), nontrivial=False)

    # ------------------------------------------------------------------ unparsable values must refuse the start, not fall back
    SWALLOW = ("ok", "unwrap_or", "unwrap_or_default", "unwrap_or_else", "map_or", "is_ok", "is_err", "and_then", "or")
    nparse = 0
    for root in (enew.path, fnew.path):
        reach_l, _, _ = P.reach([root])
        for fp in sorted(reach_l):
            f2 = P.fns[fp]
            if f2.kind == "closure":
                continue
            e2 = W.ev(fp)
            for bb, t in f2.calls():
                n = callee_name(t["fn"].get("path", ""))
                if not (n == "parse" and "str" in t["fn"].get("path", "")) and not (n == "try_from" and "i64" in str(t["fn"].get("substs", ""))) and not (n in ("try_from", "try_into") and "num" in t["fn"].get("path", "")):
                    continue
                nparse += 1
                res = e2.call_term(bb)
                # how is this Result consumed?
                verdict = None
                for b2, t2 in f2.calls():
                    a2 = e2.call_args(b2)
                    if a2 and (a2[0] == res) and b2 != bb:
                        n2 = callee_name(t2["fn"].get("path", ""))
                        if n2 in ("unwrap", "expect", "branch", "map_err"):
                            verdict = verdict or "enforced"
                        elif n2 == "unwrap_or_else":
                            clos = [c for c in t2.get("closures", []) if not c.startswith("fn:")]
                            div = bool(clos) and all(c in P.fns and not P.fns[c].exits() or (c in P.fns and set(P.fns[c].reachable()) <= P.fns[c].diverging() | set()) for c in clos)
                            verdict = "enforced" if div else "swallowed by unwrap_or_else with a non-panicking fallback"
                        elif n2 in SWALLOW:
                            verdict = "swallowed by .%s()" % n2
                if verdict is None:
                    r = e2.ret()
                    if values.contains(r, lambda s2: s2 == res) or r == res:
                        verdict = "enforced"      # returned to the caller (checked there: helper results are inlined above)
                    else:
                        # matched on: Err arm must diverge or return Err
                        verdict = "enforced" if any(isinstance(x, tuple) for x in ()) else "unknown"
                        IN2 = flow.must_facts(f2, e2)
                        for bl2 in f2.blocks:
                            tt = bl2.term
                            if tt["k"] == "switch":
                                c = e2.op(tt["op"], (bl2.idx, "term"))
                                if c == ("discr", res):
                                    verdict = "matched"
                ctx.check("unparsable-refused", "%s/%s@%s" % (fp.split("::", 2)[-1], n, e2.call_args(bb)[0][0] if e2.call_args(bb) else ""), verdict in ("enforced", "matched"),
                          "a value that does not parse / fit aborts the start (%s)" % verdict,
                          "a configuration value that does not parse or fit its type is silently replaced by the default: the conversion error is %s" % verdict, f2.loc(bb))
    ctx.floor("unparsable-refused", nparse, 2, "parse / try_from conversions in the two loaders")

    # ------------------------------------------------------------------ range checks
    iv = ctx.fn("roughenough::config::is_valid_config")
    iev = W.ev(iv.path)
    ef = flow.edge_facts(iv, iev)
    # the is_valid local: returned local
    ret_defs = []
    flag = None
    for b in iv.exits():
        ds, entry = iev.reaching(0, (b, "term"))
        for (db, di, kind) in ds:
            if di != "term":
                rv = iv.blocks[db].stmts[di]["rv"]
                if rv["k"] == "use":
                    pl = rv["op"].get("cp") or rv["op"].get("mv")
                    if pl and not pl.get("p"):
                        flag = pl["l"]
    if flag is None:
        raise AnchorMissing("the validity flag returned by is_valid_config")
    assigns = [(db, di, iv.blocks[db].stmts[di]["rv"]) for (db, di, kind) in iv.defs().get(flag, []) if kind == "whole" and di != "term"]
    trues = [a for a in assigns if a[2]["k"] == "use" and "c" in a[2]["op"] and values.const_term(a[2]["op"]["c"]) == ("int", 1)]
    falses = [a for a in assigns if a[2]["k"] == "use" and "c" in a[2]["op"] and values.const_term(a[2]["op"]["c"]) == ("int", 0)]
    okflag = len(trues) == 1 and trues[0][0] == 0 and len(trues) + len(falses) == len(assigns) and len(iv.defs().get(flag, [])) == len(assigns)
    ctx.check("range-checks", "flag-only-cleared", okflag, "is_valid starts true, is only ever set to false (%d sites) and is returned" % len(falses),
              "the validity flag is not monotone: assignments %s" % [(iv.loc(a[0], a[1])) for a in assigns if a not in trues and a not in falses], ctx.loc(iv))

    ranges = sp["config"]["ranges"]
    fblocks = [a[0] for a in falses]
    for key in ("port", "batch_size", "fault_percentage", "num_workers"):
        lo, hi = ranges[key]
        tymax = {"port": 65535, "batch_size": 255, "fault_percentage": 255}.get(key, 2 ** 63)
        grid = sorted({g for g in (0, 1, 2, 7, (lo or 0), (lo or 0) + 1, (hi or 1000) - 1, (hi or 1000), (hi or 1000) + 1, tymax) if 0 <= g <= tymax})

        def env_fn(s, key=key, v=None):
            return None
        reach = {}
        for v in grid:
            reach[v] = fold_reach(iv, iev, lambda s, v=v, key=key: v if (is_call(s) and TRAIT in s[1] and callee_name(s[1]) == key) else None, untracked=(flag,))
        sensitive = [fb for fb in fblocks if len({fb in reach[v] for v in grid}) > 1]
        if not sensitive:
            ctx.violation("range-checks", key + "/present", "no `is_valid = false` site depends on %s()" % key, ctx.loc(iv))
            continue
        bad = None
        for v in grid:
            rej = any(fb in reach[v] for fb in sensitive)
            want_rej = not ((lo is None or v >= lo) and (hi is None or v <= hi))
            if rej != want_rej:
                bad = "%s = %d is %s but the documented range is %s..%s" % (key, v, "rejected" if rej else "accepted", lo, hi if hi is not None else "")
                break
        ctx.check("range-checks", key + "/range", bad is None, "%s is accepted exactly within %s..%s" % (key, lo, hi if hi is not None else ""),
                  "range check for %s differs from the documentation: %s" % (key, bad), iv.loc(sensitive[0]))
    found = {}
    for bb, t in iv.calls():
        if t["fn"].get("trait") == TRAIT:
            found.setdefault(t["fn"].get("trait_method"), []).append(bb)
    seed32 = False
    for (e, fs) in ef.items():
        for f in fs:
            for r in flow.relational(f):
                if values.contains((r[1], r[2]), lambda s: is_call(s) and s[1].endswith("ServerConfig::seed")) and any(x == ("int", 32) for x in values.subterms((uncast(r[1]), uncast(r[2])))):
                    seed32 = True
    # plaintext seed: accepted iff exactly 32 bytes (kms_protection == Plaintext assumed)
    def kms_cond(c):
        neg = False
        while isinstance(c, tuple) and c[0] == "un" and c[1] == "Not":
            c = c[2]
            neg = not neg
        if isinstance(c, tuple) and len(c) == 4 and c[0] == "bin" and c[1] in ("Eq", "Ne"):
            # `matches!(cfg.kms_protection(), KmsProtection::Plaintext)`: a comparison of the discriminant with the variant's index
            for x_, y_ in ((c[2], c[3]), (c[3], c[2])):
                if isinstance(x_, tuple) and x_ and x_[0] == "discr" and is_call(values.strip_payload(x_[1])) and values.strip_payload(x_[1])[1].endswith("ServerConfig::kms_protection") \
                        and isinstance(y_, tuple) and y_[0] == "int":
                    vs_ = [a_ for a_ in P.adts if a_.endswith("::KmsProtection")]
                    names_ = [v_["name"] for v_ in P.adts[vs_[0]]["variants"]] if vs_ else []
                    if 0 <= y_[1] < len(names_):
                        v = (names_[y_[1]] == "Plaintext") == (c[1] == "Eq")
                        return (not v) if neg else v
        if is_call(c) and callee_name(c[1]) in ("eq", "ne") and any(is_call(a) and a[1].endswith("ServerConfig::kms_protection") for a in c[2]):
            # the only KmsProtection value that can be a compile-time constant is the data-less variant Plaintext
            plain = any(a[0] in ("opaque", "bytes", "enum") or (a[0] == "agg" and str(a[1]).endswith("KmsProtection::Plaintext")) for a in c[2])
            if plain:
                v = callee_name(c[1]) == "eq"
                return (not v) if neg else v
        return None
    grid = [0, 1, 16, 31, 32, 33, 64, 65, 100]
    sreach = {}
    for v in grid:
        def env_fn(s, v=v):
            if isinstance(s, tuple) and s and s[0] == "len" and is_call(s[1]) and s[1][1].endswith("ServerConfig::seed"):
                return v
            if isinstance(s, tuple) and s and s[0] == "discr" and is_call(values.strip_payload(s[1])) and values.strip_payload(s[1])[1].endswith("ServerConfig::kms_protection"):
                # `matches!(cfg.kms_protection(), KmsProtection::Plaintext)` kept in a local: the plaintext case is assumed, as in kms_cond
                vs_ = [a_ for a_ in P.adts if a_.endswith("::KmsProtection")]
                names_ = [v_["name"] for v_ in P.adts[vs_[0]]["variants"]] if vs_ else []
                return names_.index("Plaintext") if "Plaintext" in names_ else None
            return None

        def cond_fn(c, v=v):
            k = kms_cond(c)
            if k is not None:
                return k
            c2 = c
            neg = False
            while isinstance(c2, tuple) and c2[0] == "un" and c2[1] == "Not":
                c2 = c2[2]
                neg = not neg
            if is_call(c2) and callee_name(c2[1]) == "is_empty" and is_call(c2[2][0]) and c2[2][0][1].endswith("ServerConfig::seed"):
                return (v == 0) != neg
            return None
        sreach[v] = fold_reach(iv, iev, env_fn, cond_fn, untracked=(flag,))
    sens = [fb for fb in fblocks if len({fb in sreach[v] for v in grid}) > 1]
    bad = None
    for v in grid:
        rej = any(fb in sreach[v] for fb in sens)
        if rej != (v != 32):
            bad = "a plaintext seed of %d bytes is %s" % (v, "rejected" if rej else "accepted")
            break
    okseed = seed32 and bool(sens) and bad is None
    ctx.check("range-checks", "seed/length-32", okseed, "a plaintext seed is accepted iff it is exactly 32 bytes", "plaintext seed length rule differs: %s" % (bad or "no check found"), ctx.loc(iv))
    ctx.check("range-checks", "interface/non-empty", "interface" in found, "interface must not be empty", "no check on interface", ctx.loc(iv))

    # ------------------------------------------------------------------ refusal in main
    main = ctx.fn("roughenough_server::main")
    mev = W.ev(main.path)
    MIN = flow.must_facts(main, mev)
    div = main.diverging()
    spawns = [bb for bb, t in main.calls() if callee_name(t["fn"].get("path", "")) in ("spawn", "spawn_unchecked") and "thread" in t["fn"].get("path", "")]
    ctx.floor("refusal", len(spawns), 1, "thread spawn sites in main")
    for sb in spawns:
        rels = flow.rel_facts_at(MIN, sb)
        okv = any(r[0] == "True" and is_call(r[1], "is_valid_config") for r in rels)
        okc = any(r[0] in ("Eq",) and isinstance(r[1], tuple) and r[1][0] == "discr" and is_call(r[1][1], "make_config") and r[2] == ("int", 0) for r in rels)
        ctx.check("refusal", "spawn-only-after-valid-config@%s" % main.loc(sb).split(":")[-1], okv and okc, "workers are spawned only when make_config is Ok and is_valid_config is true",
                  "a thread can be spawned although the configuration is %s" % ("invalid" if not okv else "missing"), main.loc(sb))
    exits = [(bb, mev.call_args(bb)) for bb, t in main.calls() if strip_generics(t["fn"].get("path", "")).endswith("process::exit")]
    codes_bad = [bb for bb, a in exits if a[0] != ("int", 0) and any(r[0] in ("False",) and is_call(r[1], "is_valid_config") or (r[0] == "Eq" and isinstance(r[1], tuple) and r[1][0] == "discr" and is_call(r[1][1], "make_config") and r[2] == ("int", 1)) or (r[0] == "True" and isinstance(r[1], tuple) and r[1][0] == "un") for r in flow.rel_facts_at(MIN, bb))]
    ctx.check("refusal", "invalid-config-exits-nonzero", len([1 for bb, a in exits if a[0] == ("int", 1)]) >= 2, "make_config errors and invalid configurations exit with status 1",
              "expected process::exit(1) on both failure arms, found exits %s" % [fmt(a[0]) for bb, a in exits], ctx.loc(main))

    # ------------------------------------------------------------------ a missing required setting: the loaders report nothing themselves when a key or
    # variable is absent; start-up fails because the field still holds the value it was constructed with and is_valid_config refuses exactly that
    # value (port 0, empty interface, empty seed: the range / non-empty rules above).  So every construction of a loader must give the field of a
    # Required setting that unset value - a constant, not something computed or taken from another configuration source.
    def unset_value(t):
        t = values.strip_payload(W.expand(t)) if t is not None else None
        if t in (("int", 0), ("str", "")):
            return True
        if is_call(t) and callee_name(t[1]) in ("new", "default") and not t[2] and ("Vec" in t[1] or "String" in t[1]):
            return True
        if is_call(t) and callee_name(t[1]) in ("to_string", "to_owned", "from", "into", "to_vec") and len(t[2]) == 1 and values.strip_payload(t[2][0]) in (("str", ""), ("bytes", b""), ("bytes", "")):
            return True
        if isinstance(t, tuple) and t and t[0] == "vec" and len(t) > 1 and not t[1]:
            return True
        return False

    def is_none(t):
        t = W.expand(t) if t is not None else None
        return isinstance(t, tuple) and t and ((t[0] == "agg" and str(t[1]).endswith("Option::None")) or (t[0] == "enum" and str(t[-1]) == "None"))

    def none_reads_as_unset(gr):
        # the field is an Option and starts as None: the getter must turn None into the unset value (`map_or(0, ..)`, `unwrap_or(0)`, ..)
        g = values.strip_payload(gr) if gr is not None else None
        for _ in range(4):
            if is_call(g) and callee_name(g[1]) in ("map_or", "unwrap_or") and len(g[2]) >= 2:
                return unset_value(g[2][1])
            if is_call(g) and callee_name(g[1]) == "unwrap_or_default":
                return True
            if is_call(g) and callee_name(g[1]) in ("into", "from", "get", "clone", "as_str", "as_ref", "deref", "as_slice") and g[2]:
                g = values.strip_payload(g[2][0])
                continue
            break
        return False
    nreq = 0
    for lname, adt in (("file", FILE), ("env", ENVC)):
        ctors = W.ctor_fields(adt)
        if not ctors:
            raise AnchorMissing("a construction of %s" % adt)
        for k, envname, need in rows:
            if need != "Required":
                continue
            gf, _gr = getter_field(W, adt, GETTER.get(k, k))
            for (cfn_, cbb, cidx, cfields) in ctors:
                nreq += 1
                init = cfields.get(gf)
                ctx.check("refusal", "%s/required-%s-starts-out-unset" % (lname, k),
                          gf is not None and init is not None and (unset_value(init) or (is_none(init) and none_reads_as_unset(_gr))),
                          "%s.%s starts as the unset value is_valid_config refuses (%s)" % (adt.split("::")[-1], gf, fmt(init) if init is not None else "?"),
                          "%s is a Required setting, but %s constructs its field as %s: when the %s is missing the server starts with that value instead of refusing"
                          % (k, adt.split("::")[-1], fmt(W.expand(init)) if init is not None else "nothing we can read", "key" if lname == "file" else "variable"),
                          cfn_.loc(cbb) if hasattr(cfn_, "loc") else None)
    ctx.floor("refusal-required", nreq, 6, "initial values of Required settings in the two loaders")

    # ------------------------------------------------------------------ sibling semantics
    def client_stats_literals(fn, ev, field):
        lits = set()
        lower = False
        for bb, t in fn.calls():
            n = callee_name(t["fn"].get("path", ""))
            if n in ("to_ascii_lowercase", "make_ascii_lowercase", "to_lowercase"):
                lower = True
            if n == "eq_ignore_ascii_case":
                # the std spelling of "lower-case, then compare"
                for a in ev.call_args(bb):
                    if a[0] == "str" and a[1] in ("yes", "on", "true", "1", "y"):
                        lits.add(a[1])
                        lower = True
            if n == "eq":
                for a in ev.call_args(bb):
                    if a[0] == "str" and a[1] in ("yes", "on", "true", "1", "y"):
                        lits.add(a[1])
        return lower, lits
    f1 = client_stats_literals(fnew, fev, None)
    e1 = client_stats_literals(enew, eev, None)
    ctx.check("sibling-semantics", "client_stats", f1 == e1 and f1[0] and f1[1] == {"yes", "on"}, "both loaders lower-case client_stats and accept yes/on",
              "client_stats is interpreted differently: file %s, env %s" % (f1, e1))

    def decoders(fn, ev, what):
        # the loader itself and the closures written inside it (`from_env(NAME, |s| HEX.decode(s))`)
        out = set()
        for f2 in [fn] + [g for g in P.fns.values() if g.path.startswith(fn.path + "::{closure")]:
            e2 = ev if f2 is fn else W.ev(f2.path)
            for bb, t in f2.calls():
                p = strip_generics(t["fn"].get("path", ""))
                if what == "seed" and p.endswith("Encoding::decode"):
                    out.add(fmt(e2.call_args(bb)[0]))
                if what == "kms" and callee_name(p) in ("parse", "from_str"):
                    ks = [s for s in t["fn"].get("substs", []) if "Kms" in s] or ([t["fn"].get("self_ty")] if "Kms" in str(t["fn"].get("self_ty")) else [])
                    out.add(str(ks))
        return out
    ctx.check("sibling-semantics", "seed-encoding", decoders(fnew, fev, "seed") == decoders(enew, eev, "seed") and decoders(fnew, fev, "seed"), "both loaders decode the seed with the same encoding",
              "seed decoding differs: %s vs %s" % (decoders(fnew, fev, "seed"), decoders(enew, eev, "seed")))
    kf = {x for x in decoders(fnew, fev, "kms") if "Kms" in x}
    ke = {x for x in decoders(enew, eev, "kms") if "Kms" in x}
    ctx.check("sibling-semantics", "kms_protection-parser", kf == ke and kf, "both loaders parse kms_protection with KmsProtection::from_str", "kms_protection parsing differs: %s vs %s" % (kf, ke))


def fixture(fctx):
    import fixture_checks
    return fixture_checks.lossy_cast_alive(fctx)
