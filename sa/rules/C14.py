"""C14 — envelope-encrypted seed: round-trips, detects tampering, leaks nothing (structural clauses)."""
import flow
import values
from lib import World, is_call, callee_name, uncast, bytelen, intval, acceptance_mismatch
from mir import strip_generics, AnchorMissing
from nopanic import NoPanic, report
from prover import Bounds, array_len, INF
from values import fmt

EXPLANATION = """
Rooted at EnvelopeEncryption::{encrypt_seed, decrypt_seed}; calls through &dyn KmsProvider are opaque fallible calls that may return any
Ok or Err (the property's fault model).  (1) T-nopanic: no reachable panic site (prover / typed rules), and the allocation sized by the
blob's DEK-length field is bounded by the blob length.  (2) Error discipline: no Result produced in the two functions is dropped; every one
is `?`-propagated, matched, or tested.  (3) Secrecy (taint on provenance terms): what is written into the output blob is the wrapped DEK
returned by kms.encrypt_dek, the nonce, and the seed buffer only after seal_in_place_append_tag succeeded on it; the plaintext DEK flows only into
UnboundKey::new and kms.encrypt_dek; the AEAD seal is applied once to a buffer freshly copied from the seed (a seal in a retry loop must re-create the buffer).  (4) Encrypt/decrypt agreement: same AEAD algorithm constant and associated data on both sides; fields are
written and read in the same order (u16 LE wrapped-DEK length, u16 LE nonce length, wrapped DEK, nonce, ciphertext) with LittleEndian on both sides.
(5) Acceptance covers production: the minimum blob length decrypt_seed accepts is at most the smallest blob encrypt_seed can emit over the
quantified ranges (wrapped DEK 16 bytes, plaintext 32 bytes: 4 + 16 + nonce + 32 + tag), and a wrapped-DEK length is refused only when it does not fit the blob
(evaluated on the blobs encrypt_seed emits for wrapped keys of 16 .. 65535 bytes).
(6) Statelessness: the AEAD key decrypt_seed opens the ciphertext with is kms.decrypt_dek(this blob's wrapped key) obtained in this call, on every path; nothing
reachable from encrypt_seed / decrypt_seed touches a static of the crate (no memo of an earlier answer, so a provider fault is neither masked nor remembered).
"""
NOT_DECIDED = "that any modification of the blob is detected (AEAD strength, trusted); behaviour of the cloud providers"
TRUSTED = ["ring AEAD seal/open", "ring SystemRandom"]
ASSUMPTIONS = ["the release configuration is analysed (-C debug-assertions=off, overflow checks kept as obligations): debug_assert!() and cfg(debug_assertions) code is compiled out and not part of the decided behaviour", "memory allocation succeeds"]

ENV = "roughenough::kms::envelope::EnvelopeEncryption"
ENC = ENV + "::encrypt_seed"
DEC = ENV + "::decrypt_seed"
MIN_WRAPPED = 16
MIN_PLAINTEXT = 32
AEAD_TAG = 16


def run(ctx):
    W = World(ctx)
    P = ctx.prog
    enc, dec = ctx.fn(ENC), ctx.fn(DEC)
    # ------------------------------------------------------------------ (1) no panic
    providers = {f.path for f in P.fns.values() if f.impl_trait == "roughenough::kms::KmsProvider" or (f.parent and P.fns.get(f.parent) is not None and P.fns[f.parent].impl_trait == "roughenough::kms::KmsProvider")}
    ctx.extra["provider_bodies_out_of_scope"] = sorted(providers)
    eng = NoPanic(ctx, W, [ENC, DEC], skip_fns=providers, stop=providers)
    recs = eng.run()
    report(ctx, eng, recs)
    ctx.record("no-panic", "inventory", True, "%d potential panic sites in %d reachable functions (vacuity is excluded by the positive fixture)" % (len(recs), len(eng.reach)), nontrivial=False)
    # allocation bound
    dev = W.ev(DEC)
    DIN = flow.must_facts(dec, dev)
    B = Bounds(W, dec, dev, DIN)
    BLOB = ("len", ("param", DEC, 2))
    nal = 0
    for bb, t in dec.calls():
        pth = strip_generics(t["fn"].get("path", ""))
        # the project's vec_zero_filled(n), or the std forms of the same allocation: vec![0u8; n], Vec::with_capacity(n) + resize(n, 0)
        if pth.endswith("vec_zero_filled") or (callee_name(pth) == "from_elem" and "vec" in pth) or (callee_name(pth) == "resize" and "Vec" in pth):
            a_ = dev.call_args(bb)
            n = a_[0] if pth.endswith("vec_zero_filled") else a_[1]
            if n[0] == "int":
                continue
            nal += 1
            ok = B.le(n, BLOB, 0, bb)
            ctx.check("bounded-allocation", "decrypt_seed/dek-buffer", ok, "allocation for the wrapped DEK is at most the blob length",
                      "decrypt_seed allocates %s bytes without bounding it by the blob length" % fmt(n), dec.loc(bb))
    ctx.floor("bounded-allocation", nal, 1, "input-sized allocations in decrypt_seed")

    # ------------------------------------------------------------------ (2) error discipline
    for fn in (enc, dec):
        ev = W.ev(fn.path)
        used = set()
        for bl in fn.blocks:
            def walk(x):
                if isinstance(x, dict):
                    if "l" in x and isinstance(x["l"], int) and ("p" in x or len(x) <= 3):
                        used.add(x["l"])
                    for k, v in x.items():
                        if k != "dst":
                            walk(v)
                        elif isinstance(v, dict) and v.get("p"):
                            used.add(v["l"])
                elif isinstance(x, list):
                    for v in x:
                        walk(v)
            for st in bl.stmts:
                walk(st)
            t = dict(bl.term)
            walk({k: v for k, v in t.items() if k != "dst"})
            if bl.term["k"] == "drop":
                pass
        n = 0
        for bb, t in fn.calls():
            dl = t["dst"]["l"]
            ty = fn.locals[dl]["ty"]
            if ty.startswith("core::result::Result<"):
                n += 1
                # a use by a `drop` terminator does not count; a Result written to the return place is handed to the caller
                real = dl == 0
                for bl in fn.blocks:
                    for st in bl.stmts:
                        if _mentions(st, dl):
                            real = True
                    tt = bl.term
                    if tt["k"] != "drop" and _mentions({k: v for k, v in tt.items() if k != "dst"}, dl):
                        real = True
                ctx.check("error-discipline", "%s/%s" % (fn.path.split("::")[-1], callee_name(t["fn"].get("path", "")) + "@" + fmt(ev.call_args(bb)[0] if t["args"] else ("int", 0))[:30]),
                          real, "Result of %s is examined" % callee_name(t["fn"].get("path", "")), "Result of %s is dropped without being checked" % t["fn"].get("path"), fn.loc(bb))
        ctx.floor("error-discipline", n, 5, "fallible calls in %s" % fn.path.split("::")[-1])

    # ------------------------------------------------------------------ (3) secrecy
    eev = W.ev(ENC)
    EIN = flow.must_facts(enc, eev)
    r = eev.ret()
    alts = r[1] if r[0] == "phi" else (r,)
    out = None
    for a in alts:
        if a[0] == "agg" and str(a[1]).endswith("Result::Ok") and a[2][0][0] == "obj":
            out = a[2][0]
    if out is None:
        raise AnchorMissing("encrypt_seed returns Ok(local buffer)")
    SEED = ("param", ENC, 2)
    order = {b: i for i, b in enumerate(enc.rpo())}
    writes = sorted(((order[b], b, callee_name(c), eev.call_args(b)) for (b, c, argi, ap) in eev.events_on(out[2]) if argi == 0 and enc.blocks[b].term["arg_tys"][0].startswith("&mut")))
    # bookkeeping calls that do not put bytes into the blob
    writes = [w for w in writes if w[2] not in ("clear", "reserve", "reserve_exact", "truncate", "shrink_to_fit")]
    # `for part in [&a, &b, &c] { out.write_all(part)? }`: a loop to exhaustion over a literal array of slices writes its elements in order
    from lib import iter_elem
    expanded = []
    for (o, b, name, a) in writes:
        v = W.expand(a[1]) if len(a) > 1 else None
        ie = iter_elem(W, v) if v is not None else None
        if ie is not None and ie["what"] == "elem" and not ie["fields"] and enc.in_loop(b):
            cont = ie["container"]
            while isinstance(cont, tuple) and cont and cont[0] == "reader":
                cont = cont[1]
            for _ in range(3):
                if is_call(cont) and callee_name(cont[1]) in values.VIEW_NAMES + ("iter", "into_iter") and cont[2]:
                    cont = W.expand(cont[2][0])
            if isinstance(cont, tuple) and cont and cont[0] == "obj":
                cont = W.frozen_init(cont) or cont
            lp = enc.in_loop(b)[0]
            exits = [e for e in lp["exits"] if e[1] not in enc.diverging()]
            # every exit of the loop other than the iterator's exhaustion must be an error return (the `?` of the write)
            if isinstance(cont, tuple) and cont and cont[0] == "agg" and cont[1] == "array":
                for x in cont[2]:
                    expanded.append((o, b, name, (a[0], x)))
                continue
        expanded.append((o, b, name, a))
    writes = expanded
    # the plaintext DEK object: the array passed to UnboundKey::new in encrypt_seed
    dek = None
    for bb, t in enc.calls():
        if strip_generics(t["fn"].get("path", "")).endswith("UnboundKey::new"):
            dek = eev.call_args(bb)[1]
    seq = []
    for (_, b, name, a) in writes:
        v = a[1] if len(a) > 1 else None
        v0 = uncast(values.strip_payload(v)) if v is not None else None
        if v0 is not None:
            from lib import through_conversions
            v0 = uncast(through_conversions(v0)[0])      # `kms.encrypt_dek(..).map_err(|e| { warn!(..); e })?`: the Ok payload is encrypt_dek's
        verdict = None
        if v0 is None:
            verdict = "no value"
        elif lenlike(v0) is not None:
            verdict = "ok: a length" if lenlike(v0)[0] != "int" else "ok: a constant length field"
            seq.append(("len", lenlike(v0)))
        elif is_call(v0) and callee_name(v0[1]) == "encrypt_dek":
            verdict = "ok: wrapped DEK returned by the provider"
            seq.append(("wrapped", v0))
        elif v0[0] == "obj":
            init = W.obj_init(v0)
            evs = W.obj_events(v0)
            if values.contains(init, lambda s: s == SEED) or init == SEED:
                # must have been sealed successfully before the write
                seals = [e for e in evs if callee_name(e[1]).startswith("seal_in_place")]
                sealed = False
                for e in seals:
                    if enc.dominates(e[0], b):
                        rels = flow.rel_facts_at(EIN, b)
                        cterm = eev.call_term(e[0])
                        if any((r[0] == "NotPred" and r[1] == "is_ok" and False) or (r[0] == "Pred" and r[1] == "is_ok" and r[2] == cterm) for r in rels):
                            sealed = True
                        from lib import fact_is_present
                        if fact_is_present(rels, lambda x: x == cterm, variant_index=0):
                            sealed = True       # `seal(..).map_err(..)?` and the like
                verdict = "ok: seed buffer after successful AEAD seal" if sealed else "LEAK: the seed buffer is written without a successful seal_in_place_append_tag"
                seq.append(("ciphertext", v0))
            elif dek is not None and v0 == dek:
                verdict = "LEAK: the plaintext DEK is written into the blob"
            else:
                fills = [e for e in evs if callee_name(e[1]) == "fill"]
                verdict = "ok: locally generated random nonce" if fills and not values.contains(init, lambda s: s == SEED) else "unknown object " + fmt(v0)
                seq.append(("nonce", v0))
        else:
            tainted = values.contains(v0, lambda s: s == SEED or (dek is not None and s == dek))
            verdict = ("LEAK: derives from the seed / DEK: " if tainted else "unrecognised value: ") + fmt(v0)
        ctx.check("secrecy", "blob-write/%s" % (seq[-1][0] if seq and verdict.startswith("ok") else "other") + "#%d" % len([1 for w in writes if w[0] <= order[b]]),
                  verdict.startswith("ok"), verdict, verdict, enc.loc(b))
    ctx.floor("secrecy", len(writes), 5, "writes into the output blob")
    # the AEAD seal is applied once to a fresh copy of the seed: a seal inside a loop (a retry) needs the buffer re-created from the seed in the same
    # iteration, otherwise the second pass encrypts the first pass's ciphertext and the blob decrypts to something that is not the seed
    nseal = 0
    for bb, t in enc.calls():
        if not callee_name(t["fn"].get("path", "")).startswith("seal_in_place"):
            continue
        nseal += 1
        a = eev.call_args(bb)
        bufs = [x for x in a if isinstance(x, tuple) and x and x[0] == "obj" and (values.contains(W.obj_init(x) or (), lambda s_: s_ == SEED) or W.obj_init(x) == SEED)]
        okfresh = bool(bufs)
        for x in bufs:
            inits = eev.obj_init(x[2])
            init_loops = {l["header"] for (ib, it) in inits for l in enc.in_loop(ib)}
            seal_loops = {l["header"] for l in enc.in_loop(bb)}
            if not seal_loops <= init_loops:
                okfresh = False
            # and nothing else seals or writes this buffer before
            others = [b2 for (b2, c2, ai2, ap2) in eev.events_on(x[2]) if b2 != bb and callee_name(c2).startswith("seal_in_place")]
            if others:
                okfresh = False
        ctx.check("secrecy", "seal-once-on-a-fresh-copy#%d" % nseal, okfresh, "the seal is applied once to a buffer freshly copied from the seed",
                  "the seed buffer can be sealed more than once (the seal sits in a loop that does not re-create the buffer from the seed): a later pass encrypts ciphertext, and decrypt_seed then returns bytes that are not the seed",
                  enc.loc(bb))
    ctx.floor("secrecy", nseal, 1, "AEAD seal calls in encrypt_seed")
    # plaintext DEK sinks
    if dek is not None:
        sinks = []
        for bb, t in enc.calls():
            a = eev.call_args(bb)
            for i, x in enumerate(a):
                if x == dek:
                    sinks.append((callee_name(t["fn"].get("path", "")), bb))
        allowed = {"fill", "new", "encrypt_dek", "to_vec", "deref", "as_ref", "len"}
        bad = [s for s in sinks if s[0] not in allowed]
        ctx.check("secrecy", "plaintext-dek-sinks", not bad, "plaintext DEK flows only into %s" % sorted({s[0] for s in sinks}), "plaintext DEK also flows into %s" % bad, ctx.loc(enc))

    # ------------------------------------------------------------------ (4) agreement
    def aead_params(fn, ev, op):
        alg = aad = None
        for bb, t in fn.calls():
            p = strip_generics(t["fn"].get("path", ""))
            if p.endswith("UnboundKey::new"):
                alg = ev.call_args(bb)[0]
            if callee_name(p) == op:
                a = ev.call_args(bb)
                aad = a[2]
        return alg, aad
    def nosite(t):
        if not isinstance(t, tuple) or not t:
            return t
        if t[0] == "call":
            return ("call", t[1], tuple(nosite(a) for a in t[2]))
        return tuple(nosite(x) if isinstance(x, tuple) else x for x in t)

    a1 = aead_params(enc, eev, "seal_in_place_append_tag")
    a2 = aead_params(dec, dev, "open_in_place")
    ctx.check("agreement", "algorithm", a1[0] == a2[0] and a1[0] is not None and a1[0][0] == "static", "both sides use %s" % fmt(a1[0]), "algorithms differ: %s vs %s" % (fmt(a1[0]), fmt(a2[0])))
    ctx.check("agreement", "associated-data", nosite(a1[1]) == nosite(a2[1]) and a1[1] is not None, "both sides use associated data %s" % fmt(a1[1]), "associated data differs: %s vs %s" % (fmt(a1[1]), fmt(a2[1])))
    kinds = [k for k, v in seq]
    ctx.check("agreement", "write-order", kinds == ["len", "len", "wrapped", "nonce", "ciphertext"], "blob = len(wrapped), len(nonce), wrapped, nonce, ciphertext",
              "blob is written as %s" % kinds, ctx.loc(enc))
    if kinds[:2] == ["len", "len"] and len(seq) >= 4:
        l0, l1 = seq[0][1], seq[1][1]
        okl = values.contains(l0, lambda s: is_call(s) and callee_name(s[1]) == "encrypt_dek") and seq[3][1] == (l1[1] if l1[0] == "len" else None)
        ctx.check("agreement", "length-fields", okl or (values.contains(l0, lambda s: is_call(s) and callee_name(s[1]) == "encrypt_dek") and bytelen(W, eev, seq[3][1]) is not None),
                  "first length = len(wrapped DEK), second = len(nonce)", "length fields are %s, %s" % (fmt(l0), fmt(l1)), ctx.loc(enc))
    # reads in decrypt
    cur = None
    for l, loc in enumerate(dec.locals):
        if "cursor::Cursor" in loc["ty"] and dec.is_object(l):
            cur = l
    if cur is None:
        # a byte slice is itself a reader (`impl Read for &[u8]` consumes from the front): `let mut rest: &[u8] = blob; rest.read_u16()..`
        for bb, t in dec.calls():
            if callee_name(t["fn"].get("path", "")).startswith("read") and t["arg_tys"] and t["arg_tys"][0] == "&mut &[u8]":
                a0 = dev.call_args(bb)[0]
                if a0[0] == "obj":
                    cur = a0[2]
    reads = []
    if cur is not None:
        order2 = {b: i for i, b in enumerate(dec.rpo())}
        for (b, c, argi, ap) in sorted(dev.events_on(cur), key=lambda e: order2[e[0]]):
            if argi == 0 and callee_name(c).startswith("read"):
                reads.append((callee_name(c), b, dev.call_args(b)))
            elif argi == 0 and callee_name(c) in ("to_vec", "to_owned") and "&[u8]" in dec.locals[cur]["ty"]:
                # the unread remainder of a slice reader, copied: what read_to_end delivers
                reads.append(("read_to_end", b, dev.call_args(b)))
    # length fields taken off the front of the blob without the reader: `u16::from_le_bytes(blob[0..2])`, `blob[2..4]` (however the two
    # chunks were split off), with the reader then started on blob[4..]: the same two little-endian u16 reads
    std_len = {}
    if [x[0] for x in reads][:2] != ["read_u16", "read_u16"]:
        from lib import le_u32_source
        blobp = ("param", DEC, 2)
        pre = []
        for bb, t in dec.calls():
            pth = t["fn"].get("path", "")
            if callee_name(pth) in ("from_le_bytes", "from_be_bytes", "from_ne_bytes") and "u16" in pth:
                src = le_u32_source(W, dev.call_term(bb))
                if isinstance(src, tuple) and src and src[0] == "index" and src[1] == blobp and src[2][0] == "agg" and str(src[2][1]).endswith("Range::Range"):
                    rng = tuple(x[1] if x[0] == "int" else None for x in src[2][2])
                    pre.append((rng, bb, callee_name(pth)))
        pre.sort()
        started_at = None
        if cur is not None:
            ci = [v for (b_, v) in dev.obj_init(cur)]
            c0 = W.expand(ci[0]) if len(ci) == 1 else None
            if is_call(c0) and callee_name(c0[1]) == "new" and c0[2]:
                c0 = W.expand(c0[2][0])
            if isinstance(c0, tuple) and c0 and c0[0] == "index" and c0[1] == blobp and c0[2][0] == "agg" and str(c0[2][1]).endswith("RangeFrom::RangeFrom") and c0[2][2][0][0] == "int":
                started_at = c0[2][2][0][1]
        if [x[0] for x in pre] == [(0, 2), (2, 4)] and started_at == 4:
            for (rng, bb, nm) in pre:
                std_len[bb] = nm
            reads = [("read_u16", pre[0][1], dev.call_args(pre[0][1])), ("read_u16", pre[1][1], dev.call_args(pre[1][1]))] + reads
    rk = [x[0] for x in reads]
    ctx.check("agreement", "read-order", rk == ["read_u16", "read_u16", "read_exact", "read_exact", "read_to_end"], "decrypt reads u16, u16, wrapped DEK, nonce, rest",
              "decrypt reads %s" % rk, ctx.loc(dec))
    for bb_, nm_ in sorted(std_len.items()):
        ctx.check("agreement", "decrypt_seed/length-field-little-endian@%d" % bb_, nm_ == "from_le_bytes", "u16::from_le_bytes", "length field decoded with %s" % nm_, dec.loc(bb_))
    if rk[:4] == ["read_u16", "read_u16", "read_exact", "read_exact"]:
        dl = ("vfield", dev.call_term(reads[0][1]), "Continue", 0) if reads[0][1] not in std_len else dev.call_term(reads[0][1])
        b1 = reads[2][2][1]
        init = W.obj_init(b1) if b1[0] == "obj" else None
        okd = (is_call(init, "vec_zero_filled") and uncast(init[2][0]) == dl) or \
            (is_call(init) and callee_name(init[1]) == "from_elem" and len(init[2]) == 2 and init[2][0] == ("int", 0) and uncast(init[2][1]) == dl)
        ctx.check("agreement", "wrapped-dek-length-from-first-field", okd, "the wrapped DEK is read with the first length field", "wrapped DEK buffer is %s" % fmt(init), dec.loc(reads[2][1]))
        nl = ("vfield", dev.call_term(reads[1][1]), "Continue", 0) if reads[1][1] not in std_len else dev.call_term(reads[1][1])
        # the decoder accepts every wrapped-DEK length the encoder can write (any u16 the provider returns) as long as it fits the blob: a fixed cap on
        # it refuses blobs that encrypt_seed produced with a provider whose wrapped keys are longer
        rels_d = flow.rel_facts_at(DIN, reads[2][1])
        dterm = uncast(("cast", "u16", "usize", dl))
        # blobs encrypt_seed really emits: 4 + d + 12 + (32..64 + 16) bytes for a wrapped key of d >= 16 bytes
        grid_d = [{"d": d, "L": L} for d in (16, 113, 184, 512, 513, 1024, 4096, 65535) for L in (d + 4 + 12 + 32 + 16, d + 4 + 12 + 64 + 16)]
        mmd = acceptance_mismatch(rels_d, {"d": dterm, "L": BLOB}, grid_d, lambda d, L: True)
        if mmd is not None and mmd.startswith("no branch fact"):
            mmd = acceptance_mismatch(rels_d, {"d": ("cast", "u16", "usize", dl), "L": BLOB}, grid_d, lambda d, L: True)
        ctx.check("acceptance-covers-production", "wrapped-dek-length-accepted-whenever-it-fits", mmd is None or mmd.startswith("no branch fact"),
                  "a wrapped-DEK length is refused only when it does not fit the blob",
                  "decrypt_seed refuses a wrapped-DEK length that encrypt_seed can write: %s" % mmd, dec.loc(reads[2][1]))
        b2 = reads[3][2][1]
        n_arr = array_len(dec.locals[b2[2]]["ty"]) if b2[0] == "obj" else None
        rels = flow.rel_facts_at(DIN, reads[3][1])
        mm = acceptance_mismatch(rels, {"n": uncast(("cast", "u16", "usize", nl))}, [{"n": x} for x in (0, 8, 11, 12, 13, 16, 65535)], lambda n: n == n_arr) if n_arr else "no nonce array"
        if mm is not None:
            mm2 = acceptance_mismatch(rels, {"n": ("cast", "u16", "usize", nl)}, [{"n": x} for x in (0, 8, 11, 12, 13, 16, 65535)], lambda n: n == n_arr) if n_arr else mm
            mm = mm2
        ctx.check("agreement", "nonce-length-checked", mm is None, "decrypt requires nonce length == %s" % n_arr, "nonce length field is not checked against %s: %s" % (n_arr, mm), dec.loc(reads[3][1]))
    for fn, ev in ((enc, eev), (dec, dev)):
        for bb, t in fn.calls():
            n = callee_name(t["fn"].get("path", ""))
            if n in ("read_u16", "write_u16"):
                ctx.check("agreement", "%s/%s-little-endian#%s" % (fn.path.split("::")[-1], n, fmt(ev.call_args(bb)[-1])[:24]), any("LittleEndian" in s for s in t["fn"].get("substs", [])),
                          "%s::<LittleEndian>" % n, "%s is not little-endian" % n, fn.loc(bb))

    # ------------------------------------------------------------------ (5) acceptance covers production
    first = reads[0][1] if reads else None
    if first is not None:
        lo = B.lower(BLOB, first)
        nonce_len = None
        for (k, v) in seq:
            if k == "nonce":
                nonce_len = bytelen(W, eev, v) or (array_len(enc.locals[v[2]]["ty"]) if v[0] == "obj" else None)
        smallest = 4 + MIN_WRAPPED + (nonce_len or 0) + MIN_PLAINTEXT + AEAD_TAG if nonce_len else None
        ctx.check("acceptance-covers-production", "minimum-blob-length", smallest is not None and lo <= smallest,
                  "decrypt accepts blobs from %s bytes; the smallest blob encrypt can emit is %s" % (lo, smallest),
                  "decrypt_seed refuses blobs shorter than %s bytes, but encrypt_seed emits %s bytes for a 16-byte wrapped key and a 32-byte seed" % (lo, smallest), dec.loc(first))

    # ------------------------------------------------------------------ one call does not depend on another: "a provider returning a different data key yields an
    # error" and "decrypting with the same provider returns the seed" are statements about every single call, whatever was decrypted before.
    # (a) the key the ciphertext is opened with is what the provider returned for this blob's wrapped key in this call - on every path, not a remembered copy;
    # (b) nothing reachable from encrypt_seed / decrypt_seed reads or writes a static of this crate (a memo, a counter, a last-result cache).
    dec_ = ctx.fn(DEC)
    dev_ = W.ev(DEC)
    nkey = 0
    for bb, t in dec_.calls():
        if strip_generics(t["fn"].get("path", "")).endswith("UnboundKey::new"):
            nkey += 1
            kt = values.strip_payload(W.expand(dev_.call_args(bb)[1]))
            alts = kt[1] if isinstance(kt, tuple) and kt and kt[0] == "phi" else (kt,)
            srcs = []
            for a in alts:
                a0 = values.strip_payload(a)
                for _ in range(4):
                    # adaptors that leave the Ok payload alone (logging / re-wording the provider's error)
                    if is_call(a0) and callee_name(a0[1]) in ("map_err", "inspect_err", "inspect") and a0[2]:
                        a0 = values.strip_payload(W.expand(a0[2][0]))
                    else:
                        break
                if is_call(a0) and callee_name(a0[1]) == "from_residual":
                    continue        # the `?` that leaves the function: no key on that path
                srcs.append(a0)
            okk = bool(srcs) and all(is_call(a0) and a0[1].endswith("KmsProvider::decrypt_dek") and a0[2] and a0[2][0] == ("param", DEC, 1) for a0 in srcs)
            ctx.check("stateless", "decrypt_seed/key-is-this-calls-provider-answer", okk, "the data key is kms.decrypt_dek(wrapped key of this blob), obtained in this call",
                      "decrypt_seed can open the ciphertext with a key that is not this call's answer of the provider (%s): a faulty provider goes unnoticed, or an earlier fault sticks"
                      % "; ".join(fmt(a0)[:80] for a0 in srcs if not (is_call(a0) and a0[1].endswith("KmsProvider::decrypt_dek"))), dec_.loc(bb))
    ctx.floor("stateless", nkey, 1, "AEAD key constructions in decrypt_seed")
    reach_s, _ext_s, _par_s = P.reach([ENC, DEC])
    touched = []
    for pth in sorted(reach_s):
        f_ = P.fns[pth]
        for bl in f_.blocks:
            if bl.idx not in f_.reachable():
                continue
            for st in bl.stmts:
                if st["k"] == "assign":
                    def statics(j):
                        if isinstance(j, dict):
                            if isinstance(j.get("static"), str):
                                yield j["static"]
                            for v in j.values():
                                yield from statics(v)
                        elif isinstance(j, list):
                            for v in j:
                                yield from statics(v)
                    for sname in statics(st["rv"]):
                        if sname.startswith("roughenough"):
                            touched.append((f_, bl.idx, sname))
    ctx.check("stateless", "no-process-wide-state", not touched, "nothing reachable from encrypt_seed / decrypt_seed touches a static of this crate (%d functions)" % len(reach_s),
              "%s uses the static %s: the result of one call can depend on earlier calls" % (touched[0][0].path.split("::", 1)[-1], touched[0][2]) if touched else "",
              touched[0][0].loc(touched[0][1]) if touched else None)


def lenlike(t):
    """A length (or constant) possibly converted between integer types: `x.len() as u16`, `u16::try_from(x.len())?`, `N as u16`."""
    for _ in range(6):
        t = uncast(values.strip_payload(t))
        if isinstance(t, tuple) and t and t[0] in ("len", "int"):
            return t
        if is_call(t) and callee_name(t[1]) == "len":
            return t
        if is_call(t) and callee_name(t[1]) in ("try_from", "try_into", "from", "into", "map_err", "unwrap", "expect", "unwrap_or", "min", "to_le_bytes") and t[2]:
            t = t[2][0]
            continue
        return None
    return None


def _mentions(x, l):
    if isinstance(x, dict):
        if x.get("l") == l and ("p" in x or set(x.keys()) <= {"l", "p", "ty"}):
            return True
        return any(_mentions(v, l) for k, v in x.items())
    if isinstance(x, list):
        return any(_mentions(v, l) for v in x)
    return False


def fixture(fctx):
    import fixture_checks
    return fixture_checks.nopanic_alive(fctx) + fixture_checks.dropped_result_alive(fctx, _mentions)
