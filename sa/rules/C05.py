"""C05 — wire codec round-trips, is canonical and agrees with a reference codec (tables, guards, writer/reader agreement)."""
import itertools

import flow
import values
from lib import (World, is_call, callee_name, tag_of, uncast, iter_elem, acceptance_mismatch, rejection_witness, rel_holds, straight_line, TAG)
from framework import spec
from mir import strip_generics, AnchorMissing
from values import Ev, fmt

EXPLANATION = """
(1) Tag tables, exhaustive over the 18 tags: wire values (Tag::data specialised per variant) equal the spec, are 4 bytes,
pairwise distinct and strictly ascending as little-endian u32 in declaration order (= derived PartialOrd order); the language
accepted by Tag::from_wire (every root-to-leaf path of its MIR byte decision tree) is exactly the inverse table.
(2) Ascending order enforced: no path reaches a push onto RtMessage.tags (add_field) or onto the decoder's tag list except through the false
edge of `tag <= last` or the empty-list edge; tags/values are private and written only by add_field, clear, the constructors and the documented
escape hatch.  (3) Decoder acceptance conditions: at the points where the decoder commits (first read, dispatch on the tag count,
single-tag slice, offset push, value slice) the conjunction of branch facts over the checked quantities is compared with the reference decoder's
condition as a three-valued truth table (must accept / must reject / decided by another guard): len >= 4 and len % 4 == 0; count 0 / 1 / 2..=18 reach their
arms (where counts above 18 are refused is the code's choice: 19 strictly ascending known tags do not exist); len >= 8; unaligned offsets refused at the
push, offsets inside the value area kept (offsets beyond it may be refused there or by the value-bounds guard); start <= end <= len at the slice.
(3b) Every rejection is one the reference makes too: for each error-producing site of from_bytes / single_tag_message / multi_tag_message, per incoming
branch edge, the path condition over (len, count, offset, start, end) is unsatisfiable together with the reference's acceptance condition on the grid, or
the guard is a recognised idiom (short Cursor read, tag not above the previous tag, offset below the previous offset), or the error is propagated from
Tag::from_wire / add_field / a Cursor read; anything else is reported as a rejection the reference does not make.
(4) Writer/reader agreement: encode writes count, offsets, tags, values in that order; every byteorder read/write in message.rs and request.rs is
LittleEndian; encode_framed writes magic, u32 LE length of the encoding, the encoding; request.rs compares buf[0..8] with the same magic constant,
reads the length from buf[8..12] and parses buf[12..].  Every layout write of encode (count, offsets, tags, values) is control-dependent only on loop iteration and on the
message's shape (len(tags), len(values)), never on the field data, and the offset loop does not run over all of self.values (the header has one offset fewer than values).
The offsets written are computed from the lengths of self.values while encoding (no stored offset table that add_field maintains and a refused call can leave stale).
"""
NOT_DECIDED = "equality with a reference decoder over all byte strings, round-trip and canonical re-encoding as value-level facts"
TRUSTED = ["byteorder ReadBytesExt/WriteBytesExt", "std io::Cursor/Read", "derived PartialOrd on a field-less enum compares declaration indices"]
EXHAUSTIVE = True

MSG = "roughenough::message::RtMessage"


def norm_append(W, name, a):
    """Normalise one append onto a byte buffer to ('u32', value) | ('bytes', value) | (name, value): `write_u32::<LE>(v)` and
    `extend_from_slice(&v.to_le_bytes())` are the same four bytes; `write_all(x)`, `extend_from_slice(x)`, `extend(x)` append x."""
    from lib import le_written
    v = a[1] if len(a) > 1 else None
    if name in ("write_u32",):
        return ("u32", v)
    if name in ("write_all", "extend_from_slice", "extend", "append", "put_slice"):
        w = le_written(W, W.expand(v)) if v is not None else None
        if w is not None and w.get("endian") == "LittleEndian" and w.get("width") == 4:
            return ("u32", w["value"])
        return ("bytes", v)
    return (name, v)


def previous_of(ev, t, cur):
    """Is t the loop-carried 'previous value' of cur: a merge whose inputs are the constant 0 and cur itself (possibly cast)?"""
    t = uncast(t)
    if not (isinstance(t, tuple) and t and t[0] == "phi"):
        return False
    args = [uncast(a) for a in t[1]]
    return len(args) >= 2 and all(a == ("int", 0) or a == cur or (isinstance(a, tuple) and a and a[0] == "loopvar") for a in args) and any(a == cur or (isinstance(a, tuple) and a and a[0] == "loopvar") for a in args)


def from_wire_language(ctx, fn, ev):
    """Enumerate every root-to-leaf path of the byte decision DAG: returns ([(bytes4, tag)], problems)."""
    accepted = []
    problems = []
    nb = len(fn.blocks)

    def walk(b, known, length_ok, ret, depth):
        if depth > 200:
            problems.append("path too deep")
            return
        bl = fn.blocks[b]
        for i, st in enumerate(bl.stmts):
            if st["k"] == "assign" and st["dst"]["l"] == 0 and not st["dst"].get("p"):
                ret = ev.rvalue(st["rv"], (b, i))
        t = bl.term
        if t["k"] == "return":
            if isinstance(ret, tuple) and ret[0] == "agg" and str(ret[1]).endswith("Result::Ok"):
                tg = tag_of(ret[2][0])
                if tg is None:
                    problems.append("Ok(non-constant tag) returned")
                elif not length_ok or set(known) != {0, 1, 2, 3}:
                    problems.append("%s accepted without fixing all four bytes / the length (%s)" % (tg, known))
                else:
                    accepted.append((bytes(known[i] for i in range(4)), tg))
            return
        if t["k"] == "goto":
            return walk(t["tgt"], known, length_ok, ret, depth + 1)
        if t["k"] == "switch":
            op = t["op"]
            pl = op.get("cp") or op.get("mv")
            term = ev.op(op, (b, "term"))
            if isinstance(term, tuple) and term[0] == "idx" and term[1] == ("param", fn.path, 1) and term[2][0] == "int":
                i = term[2][1]
                for val, tgt in t["cases"]:
                    if i in known and known[i] != val:
                        continue
                    k2 = dict(known)
                    k2[i] = val
                    walk(tgt, k2, length_ok, ret, depth + 1)
                if i not in known:
                    walk(t["otherwise"], known, length_ok, ret, depth + 1)  # some other byte: must end in Err
                return
            # length test
            rels = []
            for val, tgt in t["cases"] + [[None, t["otherwise"]]]:
                pass
            if isinstance(term, tuple) and term[0] == "bin" and term[1] == "Eq" and ("len", ("param", fn.path, 1)) in (term[2], term[3]):
                other = term[3] if term[2] == ("len", ("param", fn.path, 1)) else term[2]
                for val, tgt in t["cases"]:
                    walk(tgt, known, length_ok if val else False, ret, depth + 1) if False else None
                # false edge (value 0) and true edge (otherwise)
                for val, tgt in t["cases"]:
                    if val == 0:
                        walk(tgt, known, False, ret, depth + 1)
                walk(t["otherwise"], known, other == ("int", 4), ret, depth + 1)
                return
            problems.append("unrecognised switch on %s" % fmt(term))
            return
        problems.append("unexpected terminator %s in from_wire" % t["k"])

    walk(0, {}, False, None, 0)
    return accepted, problems


def ok_payload(t):
    """The payload of the Ok(..) alternative of a Result-valued return term."""
    alts = t[1] if (isinstance(t, tuple) and t and t[0] == "phi") else (t,)
    for a in alts:
        if isinstance(a, tuple) and a and a[0] == "agg" and str(a[1]).endswith("Result::Ok"):
            return a[2][0]
    return t


def reach_without(fn, target, removed):
    seen = {0}
    stack = [0]
    while stack:
        n = stack.pop()
        if n == target:
            return True
        for s in fn.succ(n):
            if (n, s) in removed or s in seen:
                continue
            seen.add(s)
            stack.append(s)
    return False


def ascending_guard(ctx, W, fn, push_bb, tag_term, list_term, key):
    """Every path to the push goes through `!(tag <= last)` or the empty-list edge."""
    ev = W.ev(fn.path)
    ef = flow.edge_facts(fn, ev)
    tag_term = values.strip_payload(tag_term)
    allowed = set()
    forbidden = []
    def some_and_le(term):
        """`list.last().is_some_and(|last| tag <= *last)`: True when `term` is that call for this tag and this list"""
        if not (is_call(term) and callee_name(term[1]) == "is_some_and" and len(term[2]) == 2):
            return False
        opt, clo = values.strip_payload(W.expand(term[2][0])), term[2][1]
        if not (is_call(opt) and callee_name(opt[1]) == "last" and W.expand(opt[2][0]) == list_term):
            return False
        if not (isinstance(clo, tuple) and clo and clo[0] == "closure" and clo[1] in ctx.prog.fns):
            return False
        K = ctx.prog.fns[clo[1]]
        kr = W.ev(K.path).ret()
        caps = {("field", ("param", K.path, 1), str(i)): values.strip_payload(W.expand(u)) for i, u in enumerate(clo[2])}
        for rel in flow.relational(("eq", kr, True)):
            a, b = values.strip_payload(rel[1]), values.strip_payload(rel[2])
            if rel[0] == "Le" and caps.get(a) == tag_term and b == ("param", K.path, 2):
                return True
        return False

    for (src, dst), facts in ef.items():
        for f in facts:
            if f[0] in ("eq", "ne") and isinstance(f[2], bool) and some_and_le(f[1]):
                holds = f[2] if f[0] == "eq" else not f[2]
                (forbidden.append((src, dst)) if holds else allowed.add((src, dst)))
                continue
            for rel in flow.relational(f):
                # last() is None
                if isinstance(rel[1], tuple) and rel[1][0] == "discr" and is_call(rel[1][1]) and callee_name(rel[1][1][1]) == "last" \
                        and W.expand(rel[1][1][2][0]) == list_term and ((rel[0] == "Eq" and rel[2] == ("int", 0)) or (rel[0] == "Ne" and rel[2] == ("int", 1))):
                    allowed.add((src, dst))
                if rel[0] in ("Lt", "Le") and True:
                    a, b = rel[1], rel[2]
                    # canonical: NOT(tag <= last)  ==  last < tag
                    if rel[0] == "Lt" and values.strip_payload(b) == tag_term and is_call(values.strip_payload(a)) and callee_name(values.strip_payload(a)[1]) == "last":
                        allowed.add((src, dst))
                    if rel[0] == "Le" and values.strip_payload(a) == tag_term and is_call(values.strip_payload(b)) and callee_name(values.strip_payload(b)[1]) == "last":
                        forbidden.append((src, dst))
    # variant-aware: after `check(..)?` (a helper inlined back) the Err value built on the forbidden edge cannot take the Continue edge
    ok = bool(allowed) and not fn.feasible_reach(0, {push_bb}, removed_edges=allowed)
    ok2 = all(not (dst == push_bb or fn.feasible_reach(dst, {push_bb})) for (src, dst) in forbidden)
    ctx.check("ascending-enforced", key, ok and ok2 and bool(forbidden),
              "the push is reachable only through `last < tag` or the empty-list edge; the `tag <= last` edge returns Err",
              "a tag can be appended without the strictly-ascending check (%s)" % ("no guard found" if not allowed else "guard can be bypassed" if not ok else "the `tag <= last` edge still reaches the push"),
              fn.loc(push_bb))


def run(ctx):
    W = World(ctx)
    P = ctx.prog
    sp = spec()

    # ------------------------------------------------------------------ (1) tag tables
    adt = P.adts.get(TAG)
    if adt is None:
        raise AnchorMissing("enum Tag")
    variants = [v["name"] for v in adt["variants"]]
    data = ctx.fn(TAG + "::wire_value")
    wires = {}
    for v in variants:
        ev = Ev(P, data, binds={1: ("enum", TAG, v)})
        val = ev.resolve(ev.ret())
        wires[v] = val[1] if val[0] == "bytes" else None
        want = sp["common"]["tags"].get(v)
        want_b = want.encode("latin-1") if want is not None else None
        ctx.check("tag-table", "wire/%s" % v, wires[v] is not None and wires[v] == want_b, "%s = %r" % (v, want_b),
                  "wire value of %s is %r, the protocol says %r" % (v, wires[v], want_b), ctx.loc(data))
    ctx.check("tag-table", "variant-set", set(variants) == set(sp["common"]["tags"]), "the 18 protocol tags",
              "Tag variants %s differ from the protocol's tag set" % sorted(set(variants) ^ set(sp["common"]["tags"])))
    nums = [int.from_bytes(wires[v], "little") if wires[v] and len(wires[v]) == 4 else None for v in variants]
    for i in range(1, len(variants)):
        ok = nums[i - 1] is not None and nums[i] is not None and nums[i - 1] < nums[i]
        ctx.check("tag-table", "declaration-order/%s<%s" % (variants[i - 1], variants[i]), ok,
                  "0x%08x < 0x%08x" % (nums[i - 1] or 0, nums[i] or 0),
                  "declaration order (= derived ordering) puts %s before %s but their wire values are not ascending" % (variants[i - 1], variants[i]))
    # PartialOrd must be the derived one
    po = [im for im in P.impls if im.get("self_adt") == TAG and im.get("trait") == "core::cmp::PartialOrd"]
    ctx.check("tag-table", "ordering-is-derived", len(po) == 1 and po[0]["derived"], "Tag's PartialOrd is derived (declaration order)",
              "Tag's ordering is not the derived declaration order; the ascending argument does not apply")
    fw = ctx.fn(TAG + "::from_wire")
    fev = W.ev(fw.path)
    acc, problems = from_wire_language(ctx, fw, fev)
    ctx.check("tag-table", "from_wire/decision-tree-well-formed", not problems, "every accepting path fixes length 4 and all four bytes (%d accepting paths)" % len(acc),
              "from_wire decision tree: %s" % "; ".join(problems[:3]), ctx.loc(fw))
    lang = {}
    for b4, tg in acc:
        lang.setdefault(b4, set()).add(tg)
    inv = {wires[v]: v for v in variants if wires[v]}
    for v in variants:
        got = lang.get(wires[v], set())
        ctx.check("tag-table", "from_wire/%s" % v, got == {v}, "from_wire(%r) = %s" % (wires[v], v),
                  "from_wire maps %r to %s, wire_value says %s" % (wires[v], sorted(got) or "an error", v), ctx.loc(fw))
    extra = [b for b in lang if b not in inv]
    ctx.check("tag-table", "from_wire/no-extra-strings", not extra, "from_wire accepts nothing outside the table", "from_wire also accepts %r" % extra[:3], ctx.loc(fw))

    # ------------------------------------------------------------------ (2) ascending enforced
    af = ctx.fn(MSG + "::add_field")
    aev = W.ev(af.path)
    pushes = [(bb, aev.call_args(bb)) for bb, t in af.calls() if callee_name(t["fn"].get("path", "")) == "push"]
    tp = [p for p in pushes if p[1][0] == ("field", ("param", af.path, 1), "tags")]
    if len(tp) != 1:
        raise AnchorMissing("one push onto self.tags in add_field")
    ctx.check("ascending-enforced", "add_field/pushes-the-parameter", tp[0][1][1] == ("param", af.path, 2), "add_field pushes its tag parameter",
              "add_field pushes %s" % fmt(tp[0][1][1]), af.loc(tp[0][0]))
    ascending_guard(ctx, W, af, tp[0][0], ("param", af.path, 2), ("field", ("param", af.path, 1), "tags"), "add_field/guard")
    vp = [p for p in pushes if p[1][0] == ("field", ("param", af.path, 1), "values")]
    okv = len(vp) == 1 and vp[0][1][1] == ("param", af.path, 3) and af.dominates(tp[0][0], vp[0][0])
    ctx.check("ascending-enforced", "add_field/value-pushed-with-tag", okv, "the value parameter is pushed together with the tag",
              "add_field does not push its value parameter alongside the tag", ctx.loc(af))
    mt = ctx.fn(MSG + "::multi_tag_message")
    mev = W.ev(mt.path)
    dec_push = []
    for bb, t in mt.calls():
        if callee_name(t["fn"].get("path", "")) == "push" and "Tag" in t["arg_tys"][1]:
            dec_push.append((bb, mev.call_args(bb)))
    for bb, a in dec_push:
        ascending_guard(ctx, W, mt, bb, a[1], a[0], "multi_tag_message/guard")
    ctx.floor("ascending-enforced", len(dec_push), 1, "tag pushes in the multi-tag decoder")
    # who writes tags / values
    fields = {f["name"]: f for f in P.adts[MSG]["variants"][0]["fields"]}
    ctx.check("ascending-enforced", "fields-private", all(fields[n]["vis"] != "pub" for n in ("tags", "values")), "tags/values are private",
              "RtMessage.tags/values are not private")
    writers = set()
    for fn in P.fns.values():
        if fn.derived:
            continue
        e = None
        for bl in fn.blocks:
            for st in bl.stmts:
                if st["k"] == "assign":
                    for pl in (st["dst"], st["rv"].get("place") if st["rv"]["k"] == "ref" and st["rv"].get("mut") else None):
                        if pl and any(isinstance(x, dict) and x.get("adt") == MSG and x.get("name") in ("tags", "values") for x in pl.get("p", [])):
                            writers.add(fn.path)
                    if st["rv"]["k"] == "agg" and st["rv"].get("adt") == MSG:
                        writers.add(fn.path)
    allowed = {MSG + "::add_field", MSG + "::clear", MSG + "::with_capacity", MSG + "::new_deliberately_invalid"}
    ctx.check("ascending-enforced", "who-writes-tags-and-values", writers <= allowed and MSG + "::add_field" in writers,
              "tags/values written only by %s" % sorted(w.split("::")[-1] for w in writers),
              "unexpected writer of RtMessage.tags/values: %s" % sorted(writers - allowed))

    # ------------------------------------------------------------------ (3) decoder acceptance tables
    fb = ctx.fn(MSG + "::from_bytes")
    bev = W.ev(fb.path)
    IN = flow.must_facts(fb, bev)
    LEN = ("len", ("param", fb.path, 1))
    reads = [bb for bb, t in fb.calls() if callee_name(t["fn"].get("path", "")) == "read_u32"]
    if len(reads) != 1:
        raise AnchorMissing("one read_u32 in from_bytes")
    mm = acceptance_mismatch(flow.rel_facts_at(IN, reads[0]), {"len": LEN}, [{"len": n} for n in range(0, 41)] + [{"len": 65536}, {"len": 65535}],
                             lambda len: len >= 4 and len % 4 == 0)
    ctx.check("decoder-guards", "from_bytes/length", mm is None, "count is read only if len >= 4 and len % 4 == 0", "from_bytes length guard differs from the reference: %s" % mm, fb.loc(reads[0]))
    N = ("vfield", bev.call_term(reads[0]), "Continue", 0)
    grid_n = [{"n": n} for n in list(range(0, 6)) + [17, 18, 19, 1023, 1024, 1025, 2048, 65535, 2 ** 32 - 1]]
    # more than 18 strictly ascending known tags cannot exist: where counts above 18 are refused is the code's choice (don't care)
    disp = {"single_tag_message": lambda n: n == 1, "multi_tag_message": lambda n: (2 <= n) if n <= 18 else None, "with_capacity": lambda n: n == 0}
    seen = set()
    for bb, t in fb.calls():
        name = callee_name(t["fn"].get("path", ""))
        if name in disp and strip_generics(t["fn"]["path"]).startswith(MSG):
            seen.add(name)
            mm = acceptance_mismatch(flow.rel_facts_at(IN, bb), {"n": N}, grid_n, disp[name])
            ctx.check("decoder-guards", "from_bytes/dispatch/%s" % name, mm is None, "%s is reached exactly for the reference tag counts" % name,
                      "tag-count dispatch to %s differs from the reference: %s" % (name, mm), fb.loc(bb))
            if name == "multi_tag_message":
                a = bev.call_args(bb)
                ctx.check("decoder-guards", "from_bytes/multi-gets-count-and-bytes", values.strip_payload(a[0]) == bev.call_term(reads[0]) and a[1] == ("param", fb.path, 1),
                          "multi_tag_message(num_tags read, the same bytes)", "multi_tag_message is called with %s" % [fmt(x) for x in a[:2]], fb.loc(bb))
    ctx.check("decoder-guards", "from_bytes/dispatch/all-arms", seen == set(disp), "count dispatch has the three arms", "count dispatch arms found: %s" % sorted(seen))

    st = ctx.fn(MSG + "::single_tag_message")
    sev = W.ev(st.path)
    SIN = flow.must_facts(st, sev)
    idxs = [bb for bb, t in st.calls() if t["fn"].get("trait") == "core::ops::index::Index"]
    for bb in idxs:
        mm = acceptance_mismatch(flow.rel_facts_at(SIN, bb), {"len": ("len", ("param", st.path, 1))}, [{"len": n} for n in range(0, 20)], lambda len: len >= 8)
        ctx.check("decoder-guards", "single_tag_message/length", mm is None, "single-tag body is sliced only if len >= 8",
                  "single-tag length guard differs from the reference: %s" % mm, st.loc(bb))
    sgets = [bb for bb, t in st.calls() if callee_name(t["fn"].get("path", "")) == "get" and "slice" in t["fn"].get("path", "") and len(t["arg_tys"]) == 2
             and "Range" in t["arg_tys"][1] and sev.call_args(bb)[0] == ("param", st.path, 1)]
    for bb in sgets:
        ctx.ok("decoder-guards", "single_tag_message/length", "the single-tag body is taken with bytes.get(range): None exactly when the range is outside the message", st.loc(bb))
    ctx.floor("decoder-guards", len(idxs) + len(sgets), 1, "slice sites in single_tag_message")
    # the cursor position on entry to single_tag_message: the count word(s) read by from_bytes
    POS_TERMS = {}
    for bb, t in fb.calls():
        if strip_generics(t["fn"].get("path", "")) == st.path:
            cur = bev.call_args(bb)[1]
            touching = [b2 for b2, t2 in fb.calls() if b2 != bb and t2["args"] and fb.reaches(b2, bb) and t2["arg_tys"] and t2["arg_tys"][0].startswith("&mut") and
                        "Cursor" in t2["arg_tys"][0] and bev.call_args(b2)[0] == cur]
            if touching and all(b2 in reads and fb.dominates(b2, bb) for b2 in touching):
                entry_pos = 4 * len(touching)
                muts = [b2 for b2, t2 in st.calls() if t2["arg_tys"] and t2["arg_tys"][0].startswith("&mut") and "Cursor" in t2["arg_tys"][0]]
                for b2, t2 in st.calls():
                    if callee_name(t2["fn"].get("path", "")) == "position" and "Cursor" in t2["fn"].get("path", "") and \
                            sev.call_args(b2)[0] == ("param", st.path, 2) and not any(st.reaches(m, b2) for m in muts):
                        POS_TERMS[sev.call_term(b2)] = entry_pos

    MIN = flow.must_facts(mt, mev)
    MLEN = ("len", ("param", mt.path, 2))
    # pushes of an offset: a usize derived from the u32 read from the wire (other usize vectors, e.g. a list of value boundaries built
    # from 0, the offsets and the end, are not offsets read from the input)
    offp = [(bb, mev.call_args(bb)) for bb, t in mt.calls() if callee_name(t["fn"].get("path", "")) == "push" and "usize" in t["arg_tys"][1]]
    offp = [(bb, a) for (bb, a) in offp if values.contains(W.expand(a[1]), lambda x: is_call(x) and callee_name(x[1]) == "read_u32") or
            values.contains(a[1], lambda x: is_call(x) and callee_name(x[1]) == "read_u32")]
    for bb, a in offp:
        off = uncast(a[1])
        grid = [{"off": o, "len": l, "n": n} for n in (2, 3, 18) for l in (8 * n, 8 * n + 4, 8 * n + 8, 1024)
                for o in (0, 1, 2, 3, 4, 5, 8, l - 8 * n - 4, l - 8 * n, l - 8 * n + 4, l - 4, l - 1, l, l + 1, l + 4, 2 ** 32 - 4) if o >= 0]
        # unaligned offsets must be refused here (nothing later looks at alignment); aligned offsets inside the value area must be kept; aligned
        # offsets beyond it are refused here or by the value-bounds guard below (don't care)
        mm = acceptance_mismatch(flow.rel_facts_at(MIN, bb), {"off": off, "len": MLEN, "n": ("param", mt.path, 1)}, grid,
                                 lambda off, len, n: False if off % 4 else (True if off <= len - 8 * n else None))
        ctx.check("decoder-guards", "multi_tag_message/offset", mm is None, "an offset is kept only if offset % 4 == 0, and always if it lies inside the value area",
                  "offset guard differs from the reference: %s" % mm, mt.loc(bb))
        isread = is_call(values.strip_payload(off), "read_u32") or is_call(W.expand(values.strip_payload(off)), "read_u32")
        ctx.check("decoder-guards", "multi_tag_message/offset-is-the-value-read", isread, "the offset kept is the u32 just read", "offset pushed is %s" % fmt(off), mt.loc(bb))
    ctx.floor("decoder-guards", len(offp), 1, "offset pushes")
    # value slice
    vs = [bb for bb, t in mt.calls() if t["fn"].get("trait") == "core::ops::index::Index" and "Range<usize>" in t["arg_tys"][1]]
    # `bytes.get(start..end)`: the std form of the same guarded slice (None exactly when !(start <= end <= len))
    gets = [bb for bb, t in mt.calls() if callee_name(t["fn"].get("path", "")) == "get" and "slice" in t["fn"].get("path", "") and len(t["arg_tys"]) == 2
            and "Range<usize>" in t["arg_tys"][1] and mev.call_args(bb)[0] == ("param", mt.path, 2)]
    for bb in gets:
        ctx.ok("decoder-guards", "multi_tag_message/value-bounds", "a value is taken with bytes.get(start..end): Some exactly when start <= end <= len", mt.loc(bb))
    for bb in vs:
        a = mev.call_args(bb)
        rng = a[1]
        if rng[0] == "agg" and len(rng[2]) == 2:
            s_t, e_t = rng[2]
            grid = [{"s": s, "e": e, "len": l} for l in (16, 64) for s in (0, 4, l - 4, l, l + 4) for e in (0, 4, l - 4, l, l + 4)]
            mm = acceptance_mismatch(flow.rel_facts_at(MIN, bb), {"s": s_t, "e": e_t, "len": MLEN}, grid, lambda s, e, len: s <= e <= len)
            ctx.check("decoder-guards", "multi_tag_message/value-bounds", mm is None and a[0] == ("param", mt.path, 2), "a value is sliced only if start <= end <= len",
                      "value bounds guard differs from the reference: %s" % mm, mt.loc(bb))
    ctx.floor("decoder-guards", len(vs) + len(gets), 1, "value slice sites")
    # what is stored for a field is the bytes between its offsets - for every tag: a value that is replaced by something else for some tags
    # (padding "nobody reads") breaks decode(encode(m)) == m and canonical re-encoding while accepting exactly the same inputs
    nstore = 0
    for dfn in (mt, ctx.fn(MSG + "::single_tag_message")):
        dev_ = W.ev(dfn.path)
        bparam = next((i for i in range(1, dfn.nargs + 1) if dfn.locals[i]["ty"].replace(" ", "") in ("&[u8]",)), None)
        for bb, t in dfn.calls():
            if not strip_generics(t["fn"].get("path", "")).endswith("RtMessage::add_field"):
                continue
            nstore += 1
            v = W.expand(dev_.call_args(bb)[2])
            for _ in range(6):
                v = values.strip_payload(v)
                if is_call(v) and callee_name(v[1]) in values.VIEW_NAMES + ("to_vec", "to_owned", "into", "from", "clone", "as_slice", "deref", "as_ref") and v[2]:
                    v = W.expand(v[2][0])
                elif is_call(v) and callee_name(v[1]) in ("ok_or", "ok_or_else", "unwrap", "expect") and v[2]:
                    v = W.expand(v[2][0])
                elif is_call(v) and callee_name(v[1]) == "get" and "slice" in v[1] and len(v[2]) == 2:
                    # bytes.get(a..b): the same bytes as bytes[a..b] whenever it is Some
                    v = ("index", W.expand(v[2][0]), W.expand(v[2][1]))
                    break
                elif isinstance(v, tuple) and v and v[0] == "obj":
                    ini = W.obj_init(v)
                    if ini is None:
                        break
                    v = W.expand(ini)
                else:
                    break
            okv = isinstance(v, tuple) and v and v[0] == "index" and bparam is not None and v[1] == ("param", dfn.path, bparam) and isinstance(v[2], tuple) and v[2][0] == "agg" and "Range" in str(v[2][1])
            v_obj = values.strip_payload(W.expand(dev_.call_args(bb)[2]))
            if not okv and isinstance(v_obj, tuple) and v_obj and v_obj[0] == "obj" and v_obj[1] == dfn.path:
                # an empty vector filled once by reading the rest of the cursor (`msg.read_to_end(&mut value)`): the remaining bytes of the message
                fills = [(b2, callee_name(c2), ai2) for (b2, c2, ai2, ap2) in dev_.events_on(v_obj[2])
                         if dfn.blocks[b2].term["arg_tys"][ai2].startswith("&mut") and callee_name(c2) not in ("reserve", "reserve_exact")]
                if len(fills) == 1 and fills[0][1] in ("read_to_end",) and fills[0][2] == 1 and "Cursor" in dfn.blocks[fills[0][0]].term["arg_tys"][0] and dfn.dominates(fills[0][0], bb):
                    okv = True
            ctx.check("decoder-guards", "%s/stored-value-is-the-sliced-bytes" % dfn.path.split("::")[-1], okv, "the value stored for a field is bytes[start..end]",
                      "the value stored for a field is not always the bytes between its offsets: %s" % fmt(v)[:200], dfn.loc(bb))
    ctx.floor("decoder-guards-stores", nstore, 2, "add_field calls in the two decoder functions")
    # tags read with read_exact, failure -> Err
    rex = [bb for bb, t in mt.calls() if callee_name(t["fn"].get("path", "")) == "read_exact"]
    for bb, a in dec_push:
        rels = flow.rel_facts_at(MIN, bb)
        from lib import fact_is_present
        okr = any(r[0] == "Pred" and r[1] == "is_ok" and is_call(r[2]) and callee_name(r[2][1]) == "read_exact" for r in rels) or \
            fact_is_present(rels, lambda x: is_call(x) and callee_name(x[1]) == "read_exact", variant_index=0)
        ctx.check("decoder-guards", "multi_tag_message/tag-bytes-read-completely", okr and len(rex) == 1, "a tag is decoded only after read_exact succeeded",
                  "tag bytes are used although read_exact may have failed", mt.loc(bb))
    # every rejection is one the reference decoder makes too (3b)
    s_t = e_t = None
    for bb in vs + gets:
        rng = mev.call_args(bb)[1]
        if rng[0] == "agg" and len(rng[2]) == 2:
            s_t, e_t = rng[2]
    OFF = uncast(offp[0][1][1]) if offp else None
    if s_t is None or OFF is None:
        raise AnchorMissing("offset push and value slice in multi_tag_message")
    NT = ("param", mt.path, 1)
    plan = [
        (fb, bev, IN, {"len": LEN, "n": N},
         [{"len": l, "n": n} for l in list(range(0, 41)) + [144, 152, 8192, 65536] for n in (0, 1, 2, 3, 5, 17, 18, 19, 1024, 1025, 65535, 2 ** 32 - 1)],
         lambda len, n: len >= 4 and len % 4 == 0 and (n == 0 or (n == 1 and len >= 8) or (2 <= n <= 18 and len >= 8 * n))),
        (st, sev, SIN, dict([("len", ("len", ("param", st.path, 1)))] + [("_pos%d" % i, t_) for i, t_ in enumerate(POS_TERMS)]),
         [dict([("len", l)] + [("_pos%d" % i, POS_TERMS[t_]) for i, t_ in enumerate(POS_TERMS)]) for l in range(0, 41)],
         lambda len, **_: len >= 8 and len % 4 == 0),
        (mt, mev, MIN, {"n": NT, "len": MLEN, "off": OFF, "s": s_t, "e": e_t},
         [{"n": n, "len": l, "off": o, "s": s_, "e": e_} for n in (2, 3, 18) for l in (8 * n, 8 * n + 4, 8 * n + 64)
          for o in (0, 1, 2, 4, l - 8 * n - 4, l - 8 * n, l - 8 * n + 4, l - 4, l, l + 4, 2 ** 32 - 4) if o >= 0
          for s_ in (8 * n, 8 * n + 4, l - 4, l, l + 4) for e_ in (8 * n, 8 * n + 4, l - 4, l, l + 4)],
         lambda n, len, off, s, e: len % 4 == 0 and len >= 8 * n and off % 4 == 0 and off <= len - 8 * n and s <= e <= len),
    ]
    def cursor_within(rel):
        """Lt(len(B), position(C)) is infeasible when C is the cursor over B built by the caller and nothing calls set_position on it on
        the way: std's Read for Cursor advances by the bytes delivered, which end at the buffer's end."""
        if rel[0] != "Lt" or rel[1] != MLEN:
            return False
        pos = uncast(rel[2])
        if not (is_call(pos) and callee_name(pos[1]) == "position" and "Cursor" in pos[1] and pos[2] and pos[2][0] == ("param", mt.path, 3)):
            return False
        if any(callee_name(t["fn"].get("path", "")) == "set_position" for _, t in mt.calls()):
            return False
        for bb, t in fb.calls():
            if strip_generics(t["fn"].get("path", "")) == mt.path:
                a = bev.call_args(bb)
                cur = values.strip_payload(a[2])
                # the cursor object: created by Cursor::new(bytes) in from_bytes
                news = [b2 for b2, t2 in fb.calls() if callee_name(t2["fn"].get("path", "")) == "new" and "Cursor" in t2["fn"].get("path", "")]
                ok_new = len(news) == 1 and bev.call_args(news[0])[0] == a[1]
                setp = [b2 for b2, t2 in fb.calls() if callee_name(t2["fn"].get("path", "")) == "set_position" and fb.reaches(b2, bb)]
                if not ok_new or setp:
                    return False
        return True

    SHORT_READ = ("read_u32", "read_exact", "read_to_end", "read_u64", "read_u16", "read_u8", "read")
    PROPAGATED = {"from_wire": "unknown tag (Tag::from_wire, table checked by rule 1)", "add_field": "tag order (add_field, guard checked by rule 2)",
                  "single_tag_message": "the single-tag decoder's own rejections", "multi_tag_message": "the multi-tag decoder's own rejections"}
    nrej = 0
    for (fn, e, FIN, roles, grid, consistent) in plan:
        ef = flow.edge_facts(fn, e)
        ordn = {}
        for bl in fn.blocks:
            if bl.idx not in fn.reachable():
                continue
            kinds = []
            for st_ in bl.stmts:
                # an Err built here (into the return place, or into the return place of a helper that was inlined)
                if st_["k"] == "assign" and not st_["dst"].get("p") and st_["rv"]["k"] == "agg" and st_["rv"].get("vname") == "Err" and \
                        "Result<" in fn.locals[st_["dst"]["l"]]["ty"] and "Error" in fn.locals[st_["dst"]["l"]]["ty"]:
                    kinds.append("err")
            if bl.term["k"] == "call" and callee_name(bl.term["fn"].get("path", "")) == "from_residual":
                src0 = values.strip_payload(e.call_args(bl.idx)[0])
                while isinstance(src0, tuple) and src0 and src0[0] in ("vfield", "field"):
                    src0 = src0[1]
                if is_call(src0):
                    kinds.append("try")
                # otherwise the residual is a value assembled locally (an inlined helper's Err, counted where it is built)
            for kind in kinds:
                nrej += 1
                short = fn.path.split("::")[-1]
                if kind == "try":
                    src = values.strip_payload(e.call_args(bl.idx)[0])
                    while isinstance(src, tuple) and src[0] in ("vfield", "field"):
                        src = src[1]
                    for _ in range(3):
                        # `read(..).map_err(|_| E)?`: the error still stems from the inner call
                        if is_call(src) and callee_name(src[1]) in ("map_err", "or_else") and src[2]:
                            src = values.strip_payload(src[2][0])
                            while isinstance(src, tuple) and src[0] in ("vfield", "field"):
                                src = src[1]
                    nm = callee_name(src[1]) if is_call(src) else "?"
                    synths = []
                    if nm in ("ok_or", "ok_or_else") and is_call(src) and src[2]:
                        # `a.checked_sub(b).ok_or(err)?` rejects exactly when a < b: judged like an explicit `if a < b { return Err(..) }`
                        inner = values.strip_payload(W.expand(src[2][0]))
                        if is_call(inner) and callee_name(inner[1]) == "checked_sub" and "core::num" in inner[1] and len(inner[2]) == 2:
                            synths = [("Lt", inner[2][0], inner[2][1])]
                        # `s.get(a..b).ok_or(err)?` rejects exactly when b > len(s) or a > b
                        if is_call(inner) and strip_generics(inner[1]).endswith("slice::get") and len(inner[2]) == 2 and inner[2][1][0] == "agg":
                            lab, ops = str(inner[2][1][1]), inner[2][1][2]
                            L_ = ("len", inner[2][0])
                            if lab.endswith("Range::Range") and len(ops) == 2:
                                synths = [("Lt", L_, ops[1]), ("Lt", ops[1], ops[0])]
                            elif lab.endswith("RangeFrom::RangeFrom") and len(ops) == 1:
                                synths = [("Lt", L_, ops[0])]
                            elif lab.endswith("RangeTo::RangeTo") and len(ops) == 1:
                                synths = [("Lt", L_, ops[0])]
                    if synths:
                        verdicts = []
                        for (p_, rels0) in [(p1, r1) for (p1, r1) in flow.path_conditions(fn, e, FIN, bl.idx, ef)]:
                          for synth in synths:
                            rels = list(rels0) + [synth]
                            wit, used = rejection_witness(rels, roles, grid, consistent)
                            env0 = {roles[k_]: 0 for k_ in roles}
                            if cursor_within(synth):
                                verdicts.append((True, "never taken: a Cursor that is only read from does not move past the end of its buffer"))
                            elif rel_holds(synth, env0) is None:
                                verdicts.append((False, "its condition %s(%s, %s) is over quantities the checker does not know" % (synth[0], fmt(synth[1])[:50], fmt(synth[2])[:50])))
                            elif used and wit is None:
                                verdicts.append((True, "checked_sub fails only for inputs the reference rejects"))
                            else:
                                verdicts.append((False, "taken for %s, which the reference decoder accepts" % (wit,)))
                        k = "%s/rejects" % short
                        ordn[k] = ordn.get(k, 0) + 1
                        bad = [v for v in verdicts if not v[0]]
                        ctx.check("rejections-justified", "%s#%d" % (k, ordn[k]), not bad, "; ".join(sorted({v[1] for v in verdicts})),
                                  "%s returns an error that the reference decoder does not: %s" % (short, "; ".join(v[1] for v in bad)), fn.loc(bl.idx))
                        continue
                    why = "input ends before the bytes being read (Cursor read)" if nm in SHORT_READ else PROPAGATED.get(nm)
                    k = "%s/propagates/%s" % (short, nm)
                    ordn[k] = ordn.get(k, 0) + 1
                    ctx.check("rejections-justified", k + ("#%d" % ordn[k] if ordn[k] > 1 else ""), why is not None, "propagates %s" % why,
                              "%s propagates an error from %s, which is not one of the reference decoder's rejection causes known to the checker" % (short, nm),
                              fn.loc(bl.idx))
                    continue
                verdicts = []
                arm = flow.arm_entry(fn, e, bl.idx)     # look past `trace!(..)` / `debug!(..)` diamonds inside the rejecting arm
                for (p_, rels) in flow.path_conditions(fn, e, FIN, arm, ef):
                    # the guard proper: the facts of the branch edge that enters this block
                    guard = []
                    if p_ is not None:
                        for f in ef.get((p_, arm), ()):
                            guard.extend(flow.relational(f))
                    idiom = None
                    unknown = []
                    if p_ is not None:
                        for f in ef.get((p_, arm), ()):
                            # `tags.last().is_some_and(|last| tag <= *last)` taken: the tag-order rejection (guard checked by rule 2)
                            if f[0] in ("eq", "ne") and isinstance(f[2], bool) and is_call(f[1]) and callee_name(f[1][1]) == "is_some_and" and \
                                    values.contains(f[1], lambda x: is_call(x) and callee_name(x[1]) == "last") and (f[2] if f[0] == "eq" else not f[2]):
                                idiom = "tag not above the previous tag (guard checked by rule 2)"
                    for r in (guard or rels):
                        if r[0] in ("Eq", "Ne") and isinstance(r[1], tuple) and r[1][0] == "discr" and \
                                ((r[0] == "Eq" and r[2] == ("int", 0)) or (r[0] == "Ne" and r[2] == ("int", 1))):
                            # `s.get(p..).and_then(|rest| rest.split_at_checked(k))` is None exactly when p + k > len(s)
                            x = values.strip_payload(r[1][1])
                            if is_call(x) and callee_name(x[1]) in ("split_at_checked", "split_first_chunk") and x[2]:
                                # the same, with the closure already applied to the payload of `s.get(p..)`
                                g0 = values.strip_payload(W.expand(x[2][0]))
                                if isinstance(g0, tuple) and g0 and g0[0] == "index" and g0[2][0] == "agg" and str(g0[2][1]).endswith("RangeFrom::RangeFrom"):
                                    k_ = x[2][1] if len(x[2]) > 1 else ("int", 4)
                                    synth = ("Lt", ("len", g0[1]), ("bin", "Add", g0[2][2][0], k_))
                                    wit2, used2 = rejection_witness(list(rels) + [synth], roles, grid, consistent)
                                    if rel_holds(synth, {roles[k2]: 0 for k2 in roles}) is not None and used2 and wit2 is None:
                                        idiom = "input ends before the %s bytes being taken (get(p..) + split_at_checked)" % fmt(k_)
                                    continue
                            if is_call(x) and callee_name(x[1]) == "and_then" and len(x[2]) == 2 and isinstance(x[2][1], tuple) and x[2][1][0] == "closure":
                                g = values.strip_payload(W.expand(x[2][0]))
                                K = P.fns.get(x[2][1][1])
                                kr = values.strip_payload(W.ev(K.path).ret()) if K is not None else None
                                if is_call(g) and strip_generics(g[1]).endswith("slice::get") and g[2][1][0] == "agg" and str(g[2][1][1]).endswith("RangeFrom::RangeFrom") and \
                                        is_call(kr) and callee_name(kr[1]) in ("split_at_checked", "split_first_chunk") and kr[2][0] == ("param", K.path, 2):
                                    k_ = kr[2][1] if len(kr[2]) > 1 else ("int", 4)
                                    synth = ("Lt", ("len", g[2][0]), ("bin", "Add", g[2][1][2][0], k_))
                                    wit2, used2 = rejection_witness(list(rels) + [synth], roles, grid, consistent)
                                    if rel_holds(synth, {roles[k2]: 0 for k2 in roles}) is not None and used2 and wit2 is None:
                                        idiom = "input ends before the %s bytes being taken (get(p..) + split_at_checked)" % fmt(k_)
                                    continue
                        if r[0] == "NotPred" and r[1] == "is_ok" and is_call(r[2]) and callee_name(r[2][1]) in SHORT_READ:
                            idiom = "short read"
                        elif r[0] in ("Le", "Lt", "Eq") and values.contains(r[1], lambda x: is_call(x, "Tag::from_wire")) \
                                and values.contains(r[2], lambda x: is_call(x) and callee_name(x[1]) == "last"):
                            idiom = "tag not above the previous tag (guard checked by rule 2)"
                        elif r[0] in ("Eq", "Ne") and isinstance(r[1], tuple) and r[1][0] == "discr" and is_call(values.strip_payload(r[1][1])) and \
                                callee_name(values.strip_payload(r[1][1])[1]) == "get" and "slice" in values.strip_payload(r[1][1])[1] and \
                                ((r[0] == "Eq" and r[2] == ("int", 0)) or (r[0] == "Ne" and r[2] == ("int", 1))):
                            idiom = "value range outside the message (slice::get returned None)"
                        elif r[0] == "Lt" and "off" in roles and uncast(r[1]) == roles["off"] and previous_of(e, r[2], roles["off"]):
                            idiom = "offset below the previous offset (the reference requires monotone offsets)"
                        elif r[0] in ("Lt", "Le", "Eq", "Ne") and guard:
                            env0 = {roles[k_]: 0 for k_ in roles}
                            if rel_holds(r, env0) is None:
                                unknown.append("%s(%s, %s)" % (r[0], fmt(r[1])[:50], fmt(r[2])[:50]))
                    wit, used = rejection_witness(rels, roles, grid, consistent)
                    if idiom:
                        verdicts.append((True, idiom))
                    elif unknown:
                        verdicts.append((False, "its condition %s is over quantities the checker does not know" % ", ".join(unknown)))
                    elif used and wit is None:
                        verdicts.append((True, "path condition excludes every input the reference accepts"))
                    elif used:
                        verdicts.append((False, "taken for %s, which the reference decoder accepts" % wit))
                    else:
                        verdicts.append((False, "its condition is over quantities the checker does not know"))
                k = "%s/rejects" % short
                ordn[k] = ordn.get(k, 0) + 1
                bad = [v for v in verdicts if not v[0]]
                ctx.check("rejections-justified", "%s#%d" % (k, ordn[k]), not bad, "; ".join(sorted({v[1] for v in verdicts})),
                          "%s returns an error that the reference decoder does not: %s" % (short, "; ".join(v[1] for v in bad)), fn.loc(bl.idx))
    ctx.floor("rejections-justified", nrej, 13, "error-producing sites in the three decoder functions (13 rejection causes are necessary; 16 today)")

    # ------------------------------------------------------------------ (4) writer / reader agreement
    nle = 0
    for fn in P.fns.values():
        if not (fn.file.endswith("message.rs") or fn.file.endswith("request.rs") or fn.file.endswith("responder.rs") or fn.file.endswith("online.rs")):
            continue
        for bb, t in fn.calls():
            p = t["fn"].get("path", "")
            if callee_name(p) in ("to_le_bytes", "from_le_bytes", "to_be_bytes", "from_be_bytes", "to_ne_bytes", "from_ne_bytes") and ("core::num" in p or "::num::" in p):
                # the std equivalents of the byteorder calls
                nle += 1
                ctx.check("endianness", "%s/%s@%s" % (fn.path.split("::")[-1], callee_name(p), values.fmt(W.ev(fn.path).call_args(bb)[-1])[:40]), "_le_" in callee_name(p),
                          "%s (little-endian)" % callee_name(p), "%s in %s is not little-endian" % (callee_name(p), fn.path), fn.loc(bb))
            if "byteorder::" in p and (callee_name(p).startswith("read_u") or callee_name(p).startswith("write_u")):
                nle += 1
                le = any("LittleEndian" in s for s in t["fn"].get("substs", [])) or "LittleEndian" in (t["fn"].get("self_ty") or "") or "LittleEndian as" in p
                ctx.check("endianness", "%s/%s@%s" % (fn.path.split("::")[-1], callee_name(p), values.fmt(W.ev(fn.path).call_args(bb)[-1])[:40]), le,
                          "%s::<LittleEndian>" % callee_name(p), "%s in %s is not little-endian (%s)" % (callee_name(p), fn.path, t["fn"].get("substs")), fn.loc(bb))
    ctx.floor("endianness", nle, 9, "byteorder read/write sites in the codec, request parser and response builders")
    enc = ctx.fn(MSG + "::encode")
    eev = W.ev(enc.path)
    r = ok_payload(eev.ret())
    # events on the output buffer in order
    order = {b: i for i, b in enumerate(enc.rpo())}
    evs = []
    if r[0] == "obj":
        for (b, callee, argi, ap) in eev.events_on(r[2]):
            if argi == 0 and enc.blocks[b].term["arg_tys"][0].startswith("&mut"):
                evs.append((order[b], callee_name(callee), eev.call_args(b), b))
    evs.sort()
    kinds = []
    for (_, name, a, b) in evs:
        if name in ("reserve", "reserve_exact"):
            continue
        name, v0 = norm_append(W, name, a)
        v = W.expand(v0) if v0 is not None else None
        if name == "u32":
            u = uncast(v)
            if u == ("len", ("field", ("param", enc.path, 1), "tags")) or (isinstance(u, tuple) and u and u[0] == "len" and len(u) == 3 and u[1] == ("field", ("param", enc.path, 1), "tags")):
                kinds.append("count")
            else:
                kinds.append("offset")
        elif name == "bytes":
            ie = iter_elem(W, v) if v else None
            if is_call(v, "Tag::wire_value"):
                kinds.append("tag")
            elif ie and ie["container"] == ("field", ("param", enc.path, 1), "values"):
                kinds.append("value")
            else:
                kinds.append("write:" + fmt(v))
        else:
            kinds.append(name)
    ctx.check("writer-order", "encode/count-offsets-tags-values", kinds == ["count", "offset", "tag", "value"] and
              all(enc.dominates(evs[i][3], evs[i + 1][3]) or not enc.reaches(evs[i + 1][3], evs[i][3]) for i in range(len(evs) - 1)),
              "encode writes count, offsets, tags, values in that order", "encode writes %s" % kinds, ctx.loc(enc))
    # every header word and value is written unconditionally: once per loop iteration, under no condition on the field data.  (An offset
    # skipped "because it is zero" drops the entry of a field that follows an empty value, and the header no longer has num_tags-1 offsets.)
    selfp = ("param", enc.path, 1)
    SHAPE = (("len", ("field", selfp, "tags")), ("len", ("field", selfp, "values")))

    def shape_only(t):
        if t in SHAPE or (isinstance(t, tuple) and t and t[0] == "int"):
            return True
        if isinstance(t, tuple) and t and t[0] == "len" and len(t) == 3 and ("len", t[1]) in SHAPE:
            return True
        if isinstance(t, tuple) and t and t[0] in ("bin", "cast", "not", "un"):
            return all(shape_only(x) for x in t[1:] if isinstance(x, tuple))
        ie = iter_elem(W, t)
        if ie and ie["what"] == "index" and ie["container"] in (("field", selfp, "tags"), ("field", selfp, "values")):
            return True
        return False
    nw = 0
    for (_, name, a, b), kind in zip([x for x in evs if x[1] not in ("reserve", "reserve_exact")], kinds):
        nw += 1
        badc = None
        for c in enc.control_deps(b):
            cond = W.expand(eev.op(enc.blocks[c].term["op"], (c, "term")))
            if cond[0] == "discr" and is_call(values.strip_payload(cond[1])) and callee_name(values.strip_payload(cond[1])[1]) in ("next", "branch"):
                if kind == "offset" and callee_name(values.strip_payload(cond[1])[1]) == "next":
                    src = W.expand(values.strip_payload(cond[1])[2][0])
                    while isinstance(src, tuple) and src and src[0] == "reader":
                        src = src[1]
                    if src == ("field", selfp, "values"):
                        badc = "the offset loop runs over all of self.values: it writes as many offsets as values, the header has one fewer"
                continue
            if shape_only(cond):
                continue
            badc = "written only when %s" % fmt(cond)[:160]
        ctx.check("writer-unconditional", "encode/%s@%s" % (kind, fmt(W.expand(a[-1]))[:40] if a else ""), badc is None,
                  "the %s write happens on every pass (conditions: loop iteration / message shape only)" % kind,
                  "encode's %s write is conditional on the data: %s; the header layout then disagrees with the tag count for some messages" % (kind, badc), enc.loc(b))
    ctx.floor("writer-unconditional", nw, 4, "layout writes in encode (count, offsets, tags, values)")
    # what is written as an offset is computed from the lengths of self.values, here, at encoding time: a table kept in a field of its own
    # (maintained by add_field, say) is a second copy of that information and can disagree with the values it describes
    noff = 0
    for (_, name, a, b), kind in zip([x for x in evs if x[1] not in ("reserve", "reserve_exact")], kinds):
        if kind != "offset" or not a:
            continue
        noff += 1
        ot = W.expand(a[-1])
        fields_read = {s_[2] for s_ in values.subterms(ot) if isinstance(s_, tuple) and len(s_) == 3 and s_[0] == "field" and s_[1] == selfp}
        from_lengths = any(isinstance(s_, tuple) and s_ and s_[0] == "len" for s_ in values.subterms(ot)) or any(is_call(s_) and callee_name(s_[1]) == "len" for s_ in values.subterms(ot))
        ctx.check("writer-values", "encode/offsets-are-sums-of-value-lengths", fields_read <= {"values"} and from_lengths,
                  "every offset written is computed from the lengths of self.values while encoding",
                  "encode writes offsets taken from %s instead of computing them from the lengths of self.values: a stored table can be stale or inconsistent with the values"
                  % (sorted("self." + f_ for f_ in fields_read - {"values"}) or fmt(ot)[:120]), enc.loc(b))
    ctx.floor("writer-values", noff, 1, "offset writes in encode")
    ef = ctx.fn(MSG + "::encode_framed")
    fev = W.ev(ef.path)
    r = ok_payload(fev.ret())
    magic = ctx.item_bytes("roughenough::REQUEST_FRAMING_BYTES")
    ctx.check("framing", "magic-constant", magic == sp["common"]["framing_magic"].encode(), "REQUEST_FRAMING_BYTES = b'ROUGHTIM'", "framing magic is %r" % magic)
    fk = []
    if r[0] == "obj":
        order = {b: i for i, b in enumerate(ef.rpo())}
        fe = sorted((order[b], callee_name(c), fev.call_args(b), b) for (b, c, argi, ap) in fev.events_on(r[2]) if argi == 0 and ef.blocks[b].term["arg_tys"][0].startswith("&mut"))
        for (_, name, a, b) in fe:
            if name in ("reserve", "reserve_exact"):
                continue
            name, v0 = norm_append(W, name, a)
            name = {"u32": "write_u32", "bytes": "write_all"}.get(name, name)
            v = values.strip_payload(v0) if v0 is not None else None
            if name == "write_all" and v == ("bytes", magic):
                fk.append("magic")
            elif name == "write_u32" and uncast(v)[0] == "len" and is_call(values.strip_payload(uncast(v)[1]), "RtMessage::encode"):
                fk.append("length-of-encoding")
            elif name == "write_all" and is_call(v, "RtMessage::encode") and v[2][0] == ("param", ef.path, 1):
                fk.append("encoding")
            else:
                fk.append("%s(%s)" % (name, fmt(v)))
    if fk[:1] == ["magic"] and len(fk) > 2 and fk != ["magic", "length-of-encoding", "encoding"]:
        # encode() and encode_framed() share a private writer that was inlined into both: after the magic and a length word equal to
        # self.encoded_size() (which encode() asserts to be the length of what it writes) come exactly the writes of encode(), in its order
        selfp_f = ("param", ef.path, 1)
        fk2 = []
        for (_, name, a, b) in [x for x in fe if x[1] not in ("reserve", "reserve_exact")][1:]:
            name, v0 = norm_append(W, name, a)
            v = W.expand(v0) if v0 is not None else None
            if name == "u32":
                u = uncast(v)
                if is_call(u) and u[1].endswith("RtMessage::encoded_size") and u[2] and u[2][0] == selfp_f:
                    fk2.append("length=encoded_size")
                elif isinstance(u, tuple) and u and u[0] == "len" and u[1] == ("field", selfp_f, "tags"):
                    fk2.append("count")
                else:
                    fk2.append("offset")
            elif name == "bytes":
                ie = iter_elem(W, v) if v else None
                if is_call(v, "Tag::wire_value"):
                    fk2.append("tag")
                elif ie and ie["container"] == ("field", selfp_f, "values"):
                    fk2.append("value")
                else:
                    fk2.append("write:" + fmt(v)[:60])
            else:
                fk2.append(name)
        asserts_len = any(t2["k"] == "call" and "assert_failed" in str(t2["fn"].get("path", "")) for t2 in (bl.term for bl in enc.blocks))
        if fk2 == ["length=encoded_size"] + kinds and kinds == ["count", "offset", "tag", "value"] and asserts_len:
            fk = ["magic", "length-of-encoding", "encoding"]
    ctx.check("framing", "encode_framed/magic-length-body", fk == ["magic", "length-of-encoding", "encoding"], "frame = magic, u32 LE len(encoding), encoding",
              "encode_framed writes %s" % fk, ctx.loc(ef))
    # request.rs mirror
    irr = P.fns.get("roughenough::request::is_rfc_request")
    if irr is None:
        # the private predicate was folded into another function of the request module (e.g. a `detect_framing` returning an enum): find the
        # comparison with the magic there
        for f2 in P.fns.values():
            if not f2.path.startswith("roughenough::request::") or f2.derived:
                continue
            e2 = W.ev(f2.path)
            for b2, t2 in f2.calls():
                nm2 = callee_name(t2["fn"].get("path", ""))
                if nm2 in ("eq", "starts_with", "ne") and any(x == ("bytes", magic) for x in e2.call_args(b2)):
                    irr = f2
                    r_found = e2.call_term(b2)
        if irr is None:
            raise AnchorMissing("comparison of the request's first bytes with the framing magic in the request module")
    iev = W.ev(irr.path)
    r = iev.ret() if irr.path.endswith("::is_rfc_request") else r_found
    okm = False
    if is_call(r) and callee_name(r[1]) in ("eq", "ne"):
        a, b = r[2]

        def unopt(x):
            # `buf.get(..8) == Some(MAGIC)`: the checked form of `buf[..8] == MAGIC` (None, i.e. a shorter buffer, compares unequal)
            x0 = values.strip_payload(x)
            if is_call(x0) and strip_generics(x0[1]).endswith("slice::get") and len(x0[2]) == 2 and isinstance(x0[2][1], tuple) and x0[2][1][0] == "agg":
                return ("index", x0[2][0], x0[2][1])
            return x0
        if any(is_call(values.strip_payload(x)) and strip_generics(values.strip_payload(x)[1]).endswith("slice::get") for x in (a, b)):
            a, b = unopt(a), unopt(b)
        sl, c = (a, b) if a[0] == "index" else (b, a)
        base_ = sl[1] if sl[0] == "index" else None
        if isinstance(base_, tuple) and base_ and base_[0] == "index" and isinstance(base_[2], tuple) and base_[2][0] == "agg" and str(base_[2][1]).endswith("RangeTo::RangeTo"):
            base_ = base_[1]        # `datagram = &buf[..num_bytes]` compared on its first bytes: the same bytes of buf
        okm = sl[0] == "index" and base_ == ("param", irr.path, 1) and sl[2][0] == "agg" and c == ("bytes", magic) and \
            (sl[2][2] == (("int", 0), ("int", len(magic))) or (str(sl[2][1]).endswith("RangeTo::RangeTo") and sl[2][2] == (("int", len(magic)),)))
    if not okm and is_call(r) and callee_name(r[1]) == "starts_with" and len(r[2]) == 2:
        # buf.starts_with(MAGIC) is the same test (and false, not a panic, for inputs shorter than the magic)
        okm = r[2][0] == ("param", irr.path, 1) and r[2][1] == ("bytes", magic)
    ctx.check("framing", "request/magic-compare", okm, "is_rfc_request compares buf[0..8] with the same magic constant", "is_rfc_request is %s" % fmt(r), ctx.loc(irr))
    nrr = ctx.fn("roughenough::request::nonce_from_rfc_request")
    nev = W.ev(nrr.path)
    slices = []
    for bb, t in nrr.calls():
        if t["fn"].get("trait") == "core::ops::index::Index":
            a = nev.call_args(bb)
            if a[0] == ("param", nrr.path, 1) and a[1][0] == "agg":
                # a slice that is only the operand of a split (`buf[8..].split_first_chunk::<4>()`) is not consumed itself: its two parts are,
                # and they are collected below as what the length read and the decoder get
                me = nev.call_term(bb)
                users = [callee_name(t2["fn"].get("path", "")) for b2, t2 in nrr.calls() if b2 != bb and any(values.strip_payload(x) == me for x in nev.call_args(b2))]
                if users and all(u in ("split_first_chunk", "split_at", "split_at_checked", "split_first", "split_last_chunk") for u in users):
                    continue
                slices.append((str(a[1][1]).split("::")[-1], tuple(x[1] if x[0] == "int" else None for x in a[1][2])))
    for bb, t in nrr.calls():
        # the checked form of the same slices: buf.get(8..12) / buf.get(12..)
        if strip_generics(t["fn"].get("path", "")).endswith("slice::get") or strip_generics(t["fn"].get("path", "")).endswith("[T]>::get"):
            a = nev.call_args(bb)
            if len(a) == 2 and a[0] == ("param", nrr.path, 1) and isinstance(a[1], tuple) and a[1][0] == "agg" and "Range" in str(a[1][1]):
                # (as above: a checked slice that is only split further - `buf.get(8..).and_then(|rest| rest.split_first_chunk::<4>())` - is not consumed itself)
                me = nev.call_term(bb)
                SPLITS = ("split_first_chunk", "split_at", "split_at_checked", "split_first", "split_last_chunk")
                users = [(callee_name(t2["fn"].get("path", "")), t2) for b2, t2 in nrr.calls() if b2 != bb and any(values.strip_payload(x) == me or x == me for x in nev.call_args(b2))]
                def splits_only(nm, t2):
                    if nm in SPLITS:
                        return True
                    if nm in ("and_then", "map"):
                        cl = [c[3:] if c.startswith("fn:") else c for c in (t2.get("closures") or [])]
                        return bool(cl) and all(c in P.fns and any(callee_name(t3["fn"].get("path", "")) in SPLITS for _b3, t3 in P.fns[c].calls()) or callee_name(c) in SPLITS for c in cl)
                    return False
                if users and all(splits_only(nm, t2) for nm, t2 in users):
                    continue
                slices.append((str(a[1][1]).split("::")[-1], tuple(x[1] if x[0] == "int" else None for x in a[1][2])))
    from lib import le_u32_source, flat_const_range
    for bb, t in nrr.calls():
        # the length word read from a slice of a slice (`let (header, body) = buf.split_at(12); .. &header[8..]`): the same bytes of buf
        if callee_name(t["fn"].get("path", "")) in ("read_u32", "from_le_bytes"):
            src0 = le_u32_source(W, nev.call_term(bb))
            if src0 is not None:
                b_, lo_, hi_ = flat_const_range(W, src0)
                if b_ == ("param", nrr.path, 1) and hi_ is not None and not (isinstance(src0, tuple) and src0[0] == "index" and src0[1] == b_):
                    slices.append(("Range", (lo_, hi_)))
    for bb, t in nrr.calls():
        # the length word read byte by byte: from_le_bytes([buf[8], buf[9], buf[10], buf[11]])
        if callee_name(t["fn"].get("path", "")) == "from_le_bytes":
            src = le_u32_source(W, nev.call_term(bb))
            if isinstance(src, tuple) and src and src[0] == "index" and src[1] == ("param", nrr.path, 1) and src[2][0] == "agg":
                slices.append((str(src[2][1]).split("::")[-1], tuple(x[1] if x[0] == "int" else None for x in src[2][2])))
    for bb, t in nrr.calls():
        # the message body handed to the decoder, however it was carved out (`&buf[12..]`, `split_first_chunk`, `split_at`)
        if strip_generics(t["fn"].get("path", "")).endswith("RtMessage::from_bytes"):
            src = values.strip_payload(W.expand(nev.call_args(bb)[0]))
            if isinstance(src, tuple) and src and src[0] == "index" and src[1] == ("param", nrr.path, 1) and src[2][0] == "agg":
                slices.append((str(src[2][1]).split("::")[-1], tuple(x[1] if x[0] == "int" else None for x in src[2][2])))
    want = [("Range", (len(magic), len(magic) + 4)), ("RangeFrom", (len(magic) + 4,))]
    ctx.check("framing", "request/length-and-body-offsets", sorted(set(slices)) == sorted(want), "length from buf[8..12], message from buf[12..]",
              "nonce_from_rfc_request slices %s, expected %s" % (slices, want), ctx.loc(nrr))
