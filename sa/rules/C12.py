"""C12 — IETF requests are answered iff they name a supported version and this server."""
import flow
import values
import server_model as sm
from lib import World, is_call, callee_name, tag_of, tagpath, uncast, VERSION, VERSIONS, resolve_fields, iter_elem
from framework import spec
from mir import strip_generics, AnchorMissing
from values import Ev, fmt

EXPLANATION = """
(1) Version scan: SUPPORTED_VERSIONS evaluates to exactly [RfcDraft13]; the VER value is scanned in chunks of the wire width (4) and at
least the first four entries are examined (take(n), n >= 4); a version is returned only on the true edge of
`supported.wire_bytes() == chunk` and it is that element of the supported list.  (2) Gate: the Ok return of the framed parser
requires a supported version, and a request whose SRV differs from expected_srv cannot reach it; expected_srv is
Server.srv_value = long_term_key.srv_value().  (3) The reply states the version: on the non-Google arm make_srep adds VER =
wire_bytes(version) and VERS = supported_versions_wire() (ascending, containing draft-13) to the message that is encoded and
then signed.
The scan over the offered versions is left only when the entries are exhausted or with the match (no early break on another condition).
"Always if ..": a conforming request lists VER < SRV < NONC < ZZZZ in wire order, and the decoder orders tags by declaration order of `Tag`; that the two agree, and
the decoder's other acceptance conditions, are C05's tag-table / decoder rules - obligations of C12 as well.
"""
NOT_DECIDED = "the other conditions of `always if` (size, framing, nonce) are C07's"
TRUSTED = ["slice::chunks / Iterator::take semantics"]

GSV = "roughenough::request::get_supported_version"
RFC = "roughenough::request::nonce_from_rfc_request"


def functional_scan(ctx, W, fn, ev, wire_w):
    """`entries.find_map(|e| SUPPORTED.iter().find(|v| v.wire_bytes() == e).copied())`: the version returned is an element of SUPPORTED_VERSIONS
    whose wire bytes equal the entry.  Returns the number of such forms recognised (and records the two checks)."""
    P = ctx.prog
    r = W.expand(ev.ret())
    alts = r[1] if isinstance(r, tuple) and r and r[0] == "phi" else (r,)
    n = 0
    for a in alts:
        a = values.strip_payload(a)
        if not (is_call(a) and callee_name(a[1]) == "find_map" and isinstance(a[2][1], tuple) and a[2][1][0] == "closure" and a[2][1][1] in P.fns):
            continue
        c1 = a[2][1][1]
        r1 = values.strip_payload(W.ev(c1).ret())
        for _ in range(3):
            if is_call(r1) and callee_name(r1[1]) in ("copied", "cloned") and r1[2]:
                r1 = values.strip_payload(r1[2][0])
        if not (is_call(r1) and callee_name(r1[1]) == "find" and isinstance(r1[2][1], tuple) and r1[2][1][0] == "closure" and r1[2][1][1] in P.fns):
            continue
        n += 1
        cont = W.ev(c1).resolve(W.ev(c1).__class__.__name__ and r1[2][0]) if False else r1[2][0]
        e1 = W.ev(c1)
        cont = values.strip_payload(cont)
        if isinstance(cont, tuple) and cont and cont[0] == "obj":
            init = e1.obj_init(cont[2])
            cont = init[0][1] if len(init) == 1 else cont
        oke = values.contains(cont, lambda s: isinstance(s, tuple) and s and s[0] == "arr") or values.contains(W.expand(cont), lambda s: isinstance(s, tuple) and s and s[0] == "arr")
        ctx.check("version-scan", "match-is-supported-element", oke, "the version returned is an element of SUPPORTED_VERSIONS (find over its iterator)",
                  "the version is searched in %s" % fmt(cont), ctx.loc(fn))
        c2 = r1[2][1][1]
        r2 = W.ev(c2).ret()
        okr = False
        if is_call(r2) and callee_name(r2[1]) == "eq" and len(r2[2]) == 2:
            sides = list(r2[2])
            wb = [x for x in sides if is_call(x, "Version::wire_bytes") and x[2][0] == ("param", c2, 2)]
            other = [x for x in sides if not is_call(x, "Version::wire_bytes")]
            # the other side is the captured entry: closure env field 0 bound to the outer closure's item parameter
            cap = r1[2][1][2]
            okr = bool(wb) and len(other) == 1 and other[0] == ("field", ("param", c2, 1), "0") and cap == (("param", c1, 2),)
        ctx.check("version-scan", "match-is-wire-equality", okr, "an element is returned only where its wire_bytes() equal the request's entry",
                  "the search predicate is %s" % fmt(r2), ctx.loc(fn))
    return n


def _gsv_found_variant(ctx):
    """discriminant of "a supported version was found": Some (1) for Option<Version>, Ok (0) when the scan reports none as an Err"""
    f = ctx.prog.fns.get("roughenough::request::get_supported_version")
    return 0 if f is not None and f.locals[0]["ty"].startswith("core::result::Result<") else 1


def run(ctx):
    W = World(ctx)
    P = ctx.prog
    sp = spec()
    fn = ctx.fn(GSV)
    ev = W.ev(GSV)
    it = P.items.get(GSV + "::SUPPORTED_VERSIONS")
    sup = None
    if it and it.get("val"):
        t = values.const_term(it["val"])
        if t[0] == "arr":
            sup = [x[2] for x in t[1] if x[0] == "enum"]
    ctx.check("version-scan", "supported-list", sup == ["RfcDraft13"], "SUPPORTED_VERSIONS = [RfcDraft13]", "SUPPORTED_VERSIONS evaluates to %s" % sup, ctx.loc(fn))
    chunks = [(bb, ev.call_args(bb)) for bb, t in fn.calls() if callee_name(t["fn"].get("path", "")) in ("chunks", "chunks_exact")]
    takes = [(bb, ev.call_args(bb)) for bb, t in fn.calls() if callee_name(t["fn"].get("path", "")) == "take"]
    wire_w = len(sp["versions"]["RfcDraft13"]["wire"])
    okc = len(chunks) == 1 and chunks[0][1][1] == ("int", wire_w)
    csrc = W.expand(chunks[0][1][0]) if chunks else None
    prefix_limit = None
    if isinstance(csrc, tuple) and csrc and csrc[0] == "field" and csrc[2] == "0" and is_call(csrc[1]) and callee_name(csrc[1][1]) == "split_at":
        # `ver.split_at(min(ver.len(), k)).0` is the first k bytes of the VER value
        mid = W.expand(csrc[1][2][1])
        if is_call(mid) and callee_name(mid[1]) == "min":
            ks = [a[1] for a in mid[2] if isinstance(a, tuple) and a[0] == "int"]
            ls = [a for a in mid[2] if isinstance(a, tuple) and a[0] == "len"]
            if len(ks) == 1 and len(ls) == 1 and values.strip_payload(W.expand(ls[0][1])) == values.strip_payload(W.expand(csrc[1][2][0])):
                prefix_limit = ks[0]
                csrc = csrc[1][2][0]
    if isinstance(csrc, tuple) and csrc and csrc[0] == "index" and csrc[2][0] == "agg" and \
            ((str(csrc[2][1]).endswith("RangeTo::RangeTo") and len(csrc[2][2]) == 1) or (str(csrc[2][1]).endswith("Range::Range") and csrc[2][2][0] == ("int", 0))):
        # `&ver[..min(ver.len(), k)]` / `&ver[0..min(ver.len(), k)]`: the same prefix
        mid = W.expand(csrc[2][2][-1])
        if is_call(mid) and callee_name(mid[1]) == "min":
            ks = [a[1] for a in mid[2] if isinstance(a, tuple) and a[0] == "int"]
            ls = [a for a in mid[2] if isinstance(a, tuple) and a[0] == "len"]
            if len(ks) == 1 and len(ls) == 1 and values.strip_payload(W.expand(ls[0][1])) == values.strip_payload(W.expand(csrc[1])):
                prefix_limit = ks[0]
                csrc = csrc[1]
    src = tagpath(W, csrc) if chunks else None
    okc = okc and src is not None and src[1] == ("VER",) and src[0] == ("param", GSV, 1)
    ctx.check("version-scan", "chunk-width-and-source", okc, "the VER value is split into %d-byte entries" % wire_w,
              "version scan splits %s into chunks of %s" % (fmt(chunks[0][1][0]) if chunks else "?", fmt(chunks[0][1][1]) if chunks else "?"), ctx.loc(fn))
    if takes:
        lim = takes[0][1][1]
        okt = lim[0] == "int" and lim[1] >= 4 and is_call(takes[0][1][0]) and callee_name(takes[0][1][0][1]) in ("chunks", "chunks_exact")
        ctx.check("version-scan", "examines-first-four", okt, "at least the first four entries are examined (limit %s)" % fmt(lim),
                  "only the first %s version entries are examined" % fmt(lim), fn.loc(takes[0][0]))
    elif prefix_limit is not None:
        ctx.check("version-scan", "examines-first-four", prefix_limit >= 4 * wire_w, "the first %d bytes (>= four entries) are examined" % prefix_limit,
                  "only the first %d bytes of the version list are examined" % prefix_limit, ctx.loc(fn))
    else:
        ctx.ok("version-scan", "examines-first-four", "no limit on the number of entries examined", ctx.loc(fn))
    # returns Some(x) only under wire_bytes(x) == chunk
    IN = flow.must_facts(fn, ev)
    somes = []
    for bl in fn.blocks:
        if bl.idx not in fn.reachable():
            continue
        for i, st in enumerate(bl.stmts):
            # `return Some(v)`; `return Ok(v)` when the scan reports "none" as an error (Result<Version, Error>)
            if fn.is_return_assign(st, "Some") or (fn.locals[0]["ty"].startswith("core::result::Result<") and fn.is_return_assign(st, "Ok")):
                somes.append((bl.idx, i, ev.rvalue(st["rv"], (bl.idx, i))))
    for (bb, i, term) in somes:
        x = W.expand(term[2][0])
        rels = flow.rel_facts_at(IN, bb)
        okr = False
        # the inner search written as `SUPPORTED_VERSIONS.iter().find(|v| v.wire_bytes() == entry)` inside the loop over the entries
        xf = values.strip_payload(x)
        for _ in range(3):
            if is_call(xf) and callee_name(xf[1]) in ("copied", "cloned", "deref") and xf[2]:
                xf = values.strip_payload(W.expand(xf[2][0]))
        if is_call(xf) and callee_name(xf[1]) == "find" and len(xf[2]) == 2 and isinstance(xf[2][1], tuple) and xf[2][1][0] == "closure" and xf[2][1][1] in P.fns:
            c2 = xf[2][1][1]
            cont = values.strip_payload(W.expand(xf[2][0]))
            if isinstance(cont, tuple) and cont and cont[0] == "obj":
                ini_ = W.obj_init(cont)
                cont = W.expand(ini_) if ini_ is not None else cont
            oke2 = values.contains(cont, lambda s_: isinstance(s_, tuple) and s_ and s_[0] == "arr")
            r2 = W.ev(c2).ret()
            okr2 = False
            if is_call(r2) and callee_name(r2[1]) == "eq" and len(r2[2]) == 2:
                sides = list(r2[2])
                wb = [y for y in sides if is_call(y, "Version::wire_bytes") and y[2][0] == ("param", c2, 2)]
                other = [y for y in sides if not is_call(y, "Version::wire_bytes")]
                cap = xf[2][1][2]
                ent = W.expand(cap[0]) if cap else None
                is_entry = ent is not None and (iter_elem(W, ent) is not None or values.contains(ent, lambda q: is_call(q) and callee_name(q[1]) in ("chunks", "chunks_exact")))
                okr2 = bool(wb) and len(other) == 1 and other[0] == ("field", ("param", c2, 1), "0") and len(cap) == 1 and is_entry
            ctx.check("version-scan", "match-is-wire-equality", okr2, "an element is returned only where its wire_bytes() equal the request's entry (find predicate)",
                      "the search predicate is %s" % fmt(r2), fn.loc(bb))
            ctx.check("version-scan", "match-is-supported-element", oke2, "the version returned is an element of SUPPORTED_VERSIONS (find over its iterator)",
                      "the version is searched in %s" % fmt(cont)[:160], fn.loc(bb))
            continue
        for r in rels:
            if r[0] == "Eq" and r[1][0] != "discr":
                sides = [W.expand(r[1]), W.expand(r[2])]
                wb = [s for s in sides if is_call(s, "Version::wire_bytes")]
                ch = [s for s in sides if iter_elem(W, s) is not None or values.contains(s, lambda q: is_call(q) and callee_name(q[1]) in ("chunks", "chunks_exact"))]
                if wb and ch and W.expand(wb[0][2][0]) == x:
                    okr = True
        ctx.check("version-scan", "match-is-wire-equality", okr, "Some(v) only where v.wire_bytes() == the request's entry", "Some(%s) is returned without the wire comparison" % fmt(x), fn.loc(bb))
        ie = iter_elem(W, x)
        oke = ie is not None and (ie["container"][0] == "arr" or values.contains(ie["container"], lambda s: s and s[0] == "arr"))
        ctx.check("version-scan", "match-is-supported-element", oke, "the version returned is an element of SUPPORTED_VERSIONS", "returned version is %s" % fmt(x), fn.loc(bb))
    # the scan over the offered versions is left only when the list (or its first entries) is exhausted, or with the match: an early `break` on
    # some other condition (entries assumed sorted, a first unknown entry, ..) hides a supported version that comes later among the first four
    if chunks and somes:
        wb_blocks = [bb for bb, t in fn.calls() if strip_generics(t["fn"].get("path", "")).endswith("Version::wire_bytes")]
        outer = [l for l in fn.loops() if any(bb in l["body"] for bb in wb_blocks)]
        if outer:
            lp = max(outer, key=lambda l: len(l["body"]))
            some_blocks = {bb for (bb, i, term) in somes}
            for (s0, d0) in lp["exits"]:
                if d0 in fn.diverging():
                    continue
                t0 = fn.blocks[s0].term
                cond = ev.op(t0["op"], (s0, "term")) if t0["k"] == "switch" else None
                exhausted = cond is not None and cond[0] == "discr" and is_call(values.strip_payload(cond[1])) and callee_name(values.strip_payload(cond[1])[1]) == "next"
                # the exit that carries the match out: it reaches `return Some(..)` without coming back
                seen_, stk_, hit = set(), [d0], False
                while stk_:
                    n = stk_.pop()
                    if n in seen_ or n in lp["body"]:
                        continue
                    seen_.add(n)
                    if n in some_blocks:
                        hit = True
                        continue
                    stk_.extend(fn.succ(n))
                # (a log line may stand between the comparison and the `return Some(..)`: every way on from the exit builds the Some)
                with_match = hit and (d0 in some_blocks or values.must_pass(fn, list(some_blocks), from_block=d0))
                ctx.check("version-scan", "scan-left-only-when-exhausted-or-matched@%d" % s0, exhausted or with_match,
                          "the scan loop is left by exhaustion of the entries or with the match",
                          "the version scan can stop early (%s): a supported version later among the first four entries is not found" % (fmt(cond)[:120] if cond else "unconditional exit"),
                          fn.loc(s0))
    nfun = 0
    if not somes:
        nfun = functional_scan(ctx, W, fn, ev, wire_w)
    ctx.floor("version-scan", len(somes) + nfun, 1, "Some(..) returns in get_supported_version")

    # ------------------------------------------------------------------ gate
    rf = ctx.fn(RFC)
    rev = W.ev(RFC)
    RIN = flow.must_facts(rf, rev)
    oks = []
    for bl in rf.blocks:
        for i, st in enumerate(bl.stmts):
            if bl.idx in rf.reachable() and rf.is_return_assign(st, "Ok"):
                oks.append(bl.idx)
    for bb in oks:
        rels = flow.rel_facts_at(RIN, bb)
        from lib import fact_is_present
        okv = fact_is_present(rels, lambda x: is_call(x, "get_supported_version"), variant_index=_gsv_found_variant(ctx))
        ctx.check("gate", "ok-requires-supported-version", okv, "Ok only when a supported version was found", "Ok without a supported version", rf.loc(bb))
    ef = flow.edge_facts(rf, rev)
    found = False
    for (s, d), fs in ef.items():
        for f in fs:
            from lib import relational_deep
            for r in relational_deep(W, f):
                if r[0] == "Ne" and ("param", RFC, 2) in (r[1], r[2]):
                    other = r[1] if r[2] == ("param", RFC, 2) else r[2]
                    tp = tagpath(W, other)
                    if tp and tp[1] == ("SRV",):
                        found = True
                        ctx.check("gate", "srv-mismatch-rejected", not any(d == o or rf.feasible_reach(d, {o}) for o in oks), "SRV != expected_srv is rejected",
                                  "a request for another server's SRV can still be answered", rf.loc(s))
    ctx.check("gate", "srv-compared", found, "the request's SRV is compared with expected_srv", "SRV is never compared with expected_srv", ctx.loc(rf))
    cfn, cev, routes = sm.routing(ctx, W)
    calls = [bb for bb, t in cfn.calls() if sm.NONCE_FROM_REQUEST in P.call_targets(t)]
    a = cev.call_args(calls[0])
    rv, sfields, sfn = sm.responder_versions(W)
    sv = sfields.get("srv_value")
    nf = ctx.fn(sm.NONCE_FROM_REQUEST)
    nev = W.ev(nf.path)
    fwd = [nev.call_args(bb)[1] for bb, t in nf.calls() if RFC in P.call_targets(t)]
    if len(a) != 3:
        raise AnchorMissing("nonce_from_request(buf, num_bytes, expected_srv): the call in collect_requests passes %d arguments" % len(a))
    ctx.check("gate", "expected-srv-is-this-servers", a[2] == ("field", ("param", cfn.path, 1), "srv_value") and is_call(sv, "LongTermKey::srv_value") and fwd == [("param", nf.path, 3)],
              "expected_srv = Server.srv_value = long_term_key.srv_value()", "expected_srv is %s (%s)" % (fmt(a[2]), fmt(sv)), cfn.loc(calls[0]))

    # ------------------------------------------------------------------ reply states version
    ms = ctx.fn(sm.MAKE_SREP)
    e2 = Ev(P, ms, binds={2: ("enum", VERSION, "RfcDraft13")})
    live = e2.live()
    seq = sm.sign_sequence(W, e2, (1, ("signer",)), live)
    payload = values.strip_payload(seq[1][1]) if len(seq) >= 2 else None
    okp = is_call(payload, "RtMessage::encode") and payload[2][0][0] == "obj"
    got = {}
    if okp:
        okb, fields, why = sm.message_built(W, e2, payload[2][0], live)
        for (tg, val, bb) in fields:
            got[tg] = (val, bb)
    ver = got.get("VER")
    okver = ver is not None and e2.resolve(ver[0]) == ("bytes", bytes(sp["versions"]["RfcDraft13"]["wire"])) and is_call(ver[0], "Version::wire_bytes") and ver[0][2][0] == ("enum", VERSION, "RfcDraft13")
    ctx.check("reply-version", "VER-in-signed-part", okver, "signed SREP carries VER = wire_bytes(version in use)", "VER in the signed response is %s" % (fmt(ver[0]) if ver else None), ctx.loc(ms))
    vers = got.get("VERS")
    vv = resolve_fields(W, e2, vers[0]) if vers else None
    okvs = is_call(vv, "Version::supported_versions_wire")
    lst = None
    if okvs:
        sw = ctx.fn("roughenough::version::Version::supported_versions_wire")
        swe = W.ev(sw.path)
        r = swe.ret()
        if is_call(r) and callee_name(r[1]) == "concat" and r[2][0][0] == "agg":
            lst = [swe.resolve(x) for x in r[2][0][2]]
            nums = [int.from_bytes(x[1], "little") for x in lst if x[0] == "bytes" and len(x[1]) == 4]
            okvs = len(nums) == len(lst) and nums == sorted(nums) and int.from_bytes(bytes(sp["versions"]["RfcDraft13"]["wire"]), "little") in nums and len(set(nums)) == len(nums)
        else:
            # the list as one constant (`const SUPPORTED_WIRE: [u8; 8]`, assembled at compile time): the compiler's value of it
            rb = swe.resolve(values.strip_payload(r))
            if isinstance(rb, tuple) and rb and rb[0] == "bytes" and len(rb[1]) % 4 == 0 and len(rb[1]) >= 4:
                lst = [("bytes", rb[1][i:i + 4]) for i in range(0, len(rb[1]), 4)]
                nums = [int.from_bytes(x[1], "little") for x in lst]
                okvs = nums == sorted(nums) and int.from_bytes(bytes(sp["versions"]["RfcDraft13"]["wire"]), "little") in nums and len(set(nums)) == len(nums)
            else:
                okvs = False
    ctx.check("reply-version", "VERS-in-signed-part", okvs, "signed SREP carries VERS = ascending list containing draft-13 (%s)" % ([fmt(x) for x in lst] if lst else ""),
              "VERS in the signed response is %s" % (fmt(vv) if vv else None), ctx.loc(ms))
    e1 = Ev(P, ms, binds={2: ("enum", VERSION, "Google")})
    l1 = e1.live()
    g1 = set()
    for bb, t in ms.calls():
        if bb in l1 and strip_generics(t["fn"].get("path", "")).endswith("RtMessage::add_field"):
            g1.add(tag_of(e1.call_args(bb)[1]))
    ctx.check("reply-version", "classic-srep-unchanged", "VER" not in g1 and "VERS" not in g1, "classic SREP carries no VER/VERS", "classic SREP carries %s" % sorted(g1), ctx.loc(ms))

    # ------------------------------------------------------------------ "always if that number is among the first four entries and the other conditions hold":
    # a conforming request lists its tags in ascending *wire* order (VER < SRV < NONC < ZZZZ as little-endian words); the decoder enforces ascending
    # order with the derived ordering of `Tag`, which is the declaration order.  That the two agree, and the decoder's other acceptance conditions,
    # are C05's tag-table / decoder rules - obligations of C12 as well (a decoder that orders SRV before VER refuses every conforming request that
    # names this server).
    import importlib
    from framework import Ctx
    c5 = importlib.import_module("rules.C05")
    sub5 = Ctx("C05", P, ctx.repo, "quick", ctx.feature)
    c5.run(sub5)
    mine5 = [i for i in sub5.instances if i["rule"].startswith(("tag-table", "decoder-guards", "ascending-enforced"))]
    bad5 = [i for i in mine5 if not i["ok"]]
    ctx.check("conforming-request-accepted", "decoder-orders-tags-by-wire-value(C05)", not bad5, "the decoder accepts exactly the well-formed encodings (C05: %d tag-table / decoder instances)" % len(mine5),
              "a conforming framed request can be refused (or a malformed one accepted) by the decoder: " + (bad5[0]["detail"] if bad5 else ""), bad5[0].get("loc") if bad5 else None)
    ctx.floor("conforming-request-accepted", len(mine5), 20, "C05 tag-table / decoder instances")
