"""C09 — exactly one response per accepted request, to its sender, for its own nonce."""
import flow
import values
import server_model as sm
from lib import World, is_call, callee_name, iter_elem, uncast, VERSION, VERSIONS
from framework import spec
from mir import strip_generics, AnchorMissing
from values import Ev, fmt
import audit_facts

EXPLANATION = """
(1) Paired pushes: add_classic_request / add_ietf_request perform exactly one merkle.push_leaf and one requests.push on every
path, and nobody else does.  (2) Routing: the Ok(_, RfcDraft13) arm queues on the responder constructed with Version::RfcDraft13
(and records add_ietf_request), the Ok(_, Google) arm on the one constructed with Version::Google; the nonce and source address
queued are those of this datagram.  (3) Batch life-cycle: in every iteration of the EVT_MESSAGE loop both resets dominate
collect_requests and both send_responses calls follow it before the next iteration or the exit.
(4) Send loop: iterates `requests` to exhaustion (only exit = iterator exhausted; a failed send does not leave the loop), exactly
one send_to per iteration outside any inner loop, destination / nonce / index taken from that iteration's element (C02.5).
(5) Rejected datagrams cause none (C07.3; C07's size-gate rules are obligations here too: the length judged is the count recv_from returned and the receive buffer is larger than MAX_REQUEST_LENGTH).  The serving loop is single-threaded per worker, so its CFG covers every interleaving of arrivals.(6) "Proving its own inclusion": C02's leaf-definition and response-assembly rules (what is hashed as the leaf of a request; INDX, PATH, nonce and destination from one queued element).
(7) Requests still queued in the socket get their pass: C08's wake-up rules (level-triggered registration, bounded loops).
(8) Batch life-cycle as a typestate of every Responder over the whole program (reset -> add* -> send_responses; server_model.responder_typestate), and the request
queue changes only together with the tree (server_model.queue_lockstep), so position i of the queue is leaf i of the tree that is signed.
"""
NOT_DECIDED = "kernel delivery of the datagram"
TRUSTED = ["Vec::push / slice::iter().enumerate() semantics"]


def run(ctx):
    W = World(ctx)
    P = ctx.prog
    chk = audit_facts.Checker(ctx, W)
    ok, why = chk.check("every_accepted_request_queued")
    ctx.check("paired-pushes", "add_request-functions", ok, why, "leaves and queued requests are not pushed pairwise: " + why)

    # ------------------------------------------------------------------ routing
    cfn, cev, routes = sm.routing(ctx, W)
    rv, sfields, sfn = sm.responder_versions(W)
    rb, ct, count, addr = sm.recv_count_term(W)
    seen = {}
    for r in routes:
        v = r["version"]
        key = "%s-arm" % (v or "unknown")
        seen[v] = r
        okv = v is not None and rv.get(r["responder_field"]) == v
        ctx.check("routing", key + "/responder-of-same-version", okv,
                  "%s requests go to %s (constructed with Version::%s)" % (v, r["responder_field"], rv.get(r["responder_field"])),
                  "%s requests are queued on %s, which was constructed for %s" % (v, r["responder_field"], rv.get(r["responder_field"])), cfn.loc(r["bb"]))
        kind, leaf, lw = sm.leaf_of(ctx, W, r)
        args = r["args"]
        # nonce argument = .0 of this datagram's nonce_from_request result; address = recv_from's address
        nonce_arg = [a for a in args[1:] if values.contains(a, lambda s: is_call(s, "nonce_from_request")) and isinstance(a, tuple) and a[0] == "field" and a[2] == "0"]
        addr_arg = [a for a in args[1:] if a == addr]
        ctx.check("routing", key + "/queues-own-nonce-and-sender", bool(nonce_arg) and bool(addr_arg),
                  "queued (nonce, address) = (this datagram's nonce, recv_from's source address)",
                  "queued values are %s" % [fmt(a) for a in args[1:]], cfn.loc(r["bb"]))
        # the callee stores exactly those parameters
        callee = ctx.fn(r["callee"])
        e = W.ev(callee.path)
        for bb, t in callee.calls():
            if callee_name(t["fn"].get("path", "")) == "push" and e.call_args(bb)[0] == ("field", ("param", callee.path, 1), "requests"):
                tup = e.call_args(bb)[1]
                okt = tup[0] == "agg" and all(x[0] == "param" for x in tup[2]) and len(tup[2]) == 2
                if okt:
                    # (nonce, src_addr) as a tuple, or a small struct with those two fields
                    QR = sm.queue_roles(ctx, W)
                    names = [str(n) for n in (tup[3] if len(tup) > 3 and tup[3] else ("0", "1"))]
                    byname = {n: args[x[2] - 1] for n, x in zip(names, tup[2])}
                    okt = byname.get(QR["nonce"]) in nonce_arg and byname.get(QR["addr"]) == addr
                ctx.check("routing", key + "/stores-nonce-then-address", okt, "requests.push((nonce, src_addr)) with the values passed in",
                          "%s pushes %s" % (callee.path, fmt(tup)), callee.loc(bb))
        # statistics op recorded in the same arm
        stat = None
        for bb, t in cfn.calls():
            if t["fn"].get("trait") == "roughenough::stats::ServerStats" and (cfn.dominates(r["bb"], bb) or cfn.dominates(bb, r["bb"])):
                rels = flow.rel_facts_at(flow.must_facts(cfn, cev), bb)
                if sm.version_fact(P, rels) == v:
                    stat = t["fn"].get("trait_method")
        want = {"RfcDraft13": "add_ietf_request", "Google": "add_classic_request"}.get(v)
        ctx.check("routing", key + "/statistic", stat == want, "recorded as %s" % want, "%s arm records %s" % (v, stat), cfn.loc(r["bb"]))
    for v in VERSIONS:
        if v not in seen:
            ctx.violation("routing", "%s-arm/missing" % v, "no routing arm for %s" % v)
    ctx.check("routing", "two-responders", sorted(x for x in rv.values() if x) == sorted(VERSIONS), "one responder per protocol version: %s" % rv,
              "responders are constructed for %s" % rv, ctx.loc(sfn))

    # ------------------------------------------------------------------ batch life-cycle
    pe = ctx.fn(sm.PROCESS)
    pev = W.ev(pe.path)
    coll = [bb for bb, t in pe.calls() if sm.COLLECT in P.call_targets(t)]
    if len(coll) != 1:
        raise AnchorMissing("one collect_requests call in process_events")
    cb = coll[0]
    loops = pe.in_loop(cb)
    inner = min(loops, key=lambda l: len(l["body"])) if loops else None
    ctx.check("batch-lifecycle", "collect-in-loop", inner is not None, "collect_requests runs inside the receive loop", "collect_requests is not inside a loop", pe.loc(cb))
    for kind, name in (("reset", "Responder::reset"), ("send", "Responder::send_responses")):
        sites = [(bb, pev.call_args(bb)[0]) for bb, t in pe.calls() if strip_generics(t["fn"].get("path", "")).endswith(name)]
        fields = sorted(a[2] for bb, a in sites if a[0] == "field")
        ctx.check("batch-lifecycle", "%s/both-responders" % kind, fields == sorted(rv.keys()), "%s is called on both responders" % name,
                  "%s is called on %s (responders: %s)" % (name, fields, sorted(rv.keys())), pe.loc(cb))
        for bb, a in sites:
            if inner is None:
                continue
            same_loop = bb in inner["body"]
            if kind == "reset":
                okd = same_loop and pe.dominates(bb, cb)
                ctx.check("batch-lifecycle", "reset/%s-dominates-collect" % (a[2] if a[0] == "field" else "?"), okd, "reset precedes collect_requests in every iteration",
                          "a batch can start without resetting %s" % fmt(a), pe.loc(bb))
            else:
                # every path from collect to the back edge or a loop exit passes through this send
                tos = {s for (s, d) in inner["backedges"]} | {d for (s, d) in inner["exits"]}
                okd = same_loop and pe.dominates(cb, bb) and values.must_pass(pe, [bb], from_block=pe.succ(cb)[0], to_blocks={inner["header"]} | {d for (s, d) in inner["exits"]})
                ctx.check("batch-lifecycle", "send/%s-after-collect-every-iteration" % (a[2] if a[0] == "field" else "?"), okd,
                          "send_responses follows collect_requests before the next batch or the exit", "a batch can end without send_responses on %s" % fmt(a), pe.loc(bb))

    # the same life-cycle as a typestate over every function of the program (helpers, callers, code after the serving loop)
    sm.responder_typestate(ctx, W, "batch-lifecycle")
    # ... and the queue the responses are numbered by holds exactly the leaves of that tree, in order
    sm.queue_lockstep(ctx, W, "batch-lifecycle")

    # ------------------------------------------------------------------ send loop shape
    sr = ctx.fn(sm.SEND)
    sev = W.ev(sr.path)
    sends = [bb for bb, t in sr.calls() if strip_generics(t["fn"].get("path", "")).endswith("UdpSocket::send_to")]
    ctx.check("send-loop", "one-send-site", len(sends) == 1, "one send_to site", "%d send_to sites in send_responses" % len(sends), ctx.loc(sr))
    for sb in sends:
        loops = sr.in_loop(sb)
        ctx.check("send-loop", "send-in-exactly-one-loop", len(loops) == 1, "send_to is inside the per-request loop and no inner loop",
                  "send_to is nested in %d loops" % len(loops), sr.loc(sb))
        if len(loops) != 1:
            continue
        lp = loops[0]
        # the loop is driven by next() on requests.iter().enumerate(); the only exit is the None edge
        nxt = [bb for bb, t in sr.calls() if bb in lp["body"] and callee_name(t["fn"].get("path", "")) == "next"]
        okn = False
        if len(nxt) == 1:
            src = W.expand(sev.call_args(nxt[0])[0])
            while isinstance(src, tuple) and src[0] == "reader":
                src = src[1]
            REQS = ("field", ("param", sr.path, 1), "requests")
            okn = is_call(src) and callee_name(src[1]) == "enumerate" and W.expand(src[2][0]) in (REQS, ("reader", REQS))
            if not okn:
                # `for i in 0..self.requests.len()` with self.requests untouched inside the loop visits the same elements
                from lib import range_index
                ri = range_index(W, ("vfield", sev.call_term(nxt[0]), "Some", 0))
                okn = ri is not None and ri["container"] == REQS
        ctx.check("send-loop", "iterates-requests", okn, "the loop iterates self.requests.iter().enumerate()", "the send loop is not an iteration over self.requests", sr.loc(sb))
        # edges into blocks that can only panic (failed assertions, expect on encode) are not ways to skip the remaining requests silently:
        # they are panic obligations and belong to C08
        divb = sr.diverging()
        exits = [e for e in lp["exits"] if e[1] not in divb]
        oke = len(exits) == 1
        if oke:
            s0 = exits[0][0]
            tt = sr.blocks[s0].term
            term = sev.op(tt["op"], (s0, "term")) if tt["k"] == "switch" else None
            oke = term is not None and term[0] == "discr" and is_call(term[1]) and callee_name(term[1][1]) == "next"
        ctx.check("send-loop", "only-exit-is-exhaustion", oke, "the loop ends only when the iterator is exhausted (a failed send does not leave it)",
                  "the send loop has other exits: %s" % [sr.loc(e[0]) for e in exits], sr.loc(sb))
        # one send per iteration: every path from the loop header back to the header passes through the send
        okp = values.must_pass(sr, [sb], from_block=[s for s in sr.succ(nxt[0])][0] if nxt else lp["header"], to_blocks={lp["header"]}) if nxt else False
        # the Some edge
        if nxt:
            some_succ = None
            db = sr.blocks[nxt[0]].term["tgt"]
            tt = sr.blocks[db].term
            if tt["k"] == "switch":
                for val, tgt in tt["cases"]:
                    if val == 1:
                        some_succ = tgt
            if some_succ is not None:
                okp = values.must_pass(sr, [sb], from_block=some_succ, to_blocks={lp["header"]})
        ctx.check("send-loop", "send-on-every-iteration", okp, "every iteration that obtains an element sends exactly one datagram",
                  "an iteration can continue to the next element without sending", sr.loc(sb))
    prov, nsend = sm.send_loop_provenance(ctx, W)
    for (key, okk, good, bad, loc) in prov:
        ctx.check("send-loop", key, okk, good, bad, loc)
    # return before the loop only when there is nothing queued
    IN = flow.must_facts(sr, sev)
    for b in sr.exits():
        pass
    early = []
    for bl in sr.blocks:
        if bl.idx in sr.reachable() and bl.term["k"] == "switch":
            term = sev.op(bl.term["op"], (bl.idx, "term"))
            if is_call(term, "Responder::is_empty"):
                early.append(bl.idx)
    ctx.check("send-loop", "early-return-only-when-empty", len(early) == 1, "the only early return is `if self.is_empty()`", "unexpected early returns", ctx.loc(sr))

    # ------------------------------------------------------------------ "proving its own inclusion": what the server hashes as the leaf of a request and how
    # INDX / PATH are picked per queued element are C02's leaf-definition and response-assembly rules; they are obligations of C09 too (a leaf taken over
    # a clamped slice of the datagram answers the right client with a proof of something else).
    import importlib
    from framework import Ctx
    c2 = importlib.import_module("rules.C02")
    sub2 = Ctx("C02", P, ctx.repo, "quick", ctx.feature)
    c2.run(sub2)
    mine2 = [i for i in sub2.instances if i["rule"] in ("leaf-definition", "response-assembly")]
    bad2 = [i for i in mine2 if not i["ok"]]
    ctx.check("own-inclusion", "leaf-and-proof-are-this-requests(C02)", not bad2, "leaf definition and INDX/PATH assembly hold (C02: %d instances)" % len(mine2),
              "a response does not prove the inclusion of the request it answers: " + (bad2[0]["detail"] if bad2 else ""), bad2[0].get("loc") if bad2 else None)
    ctx.floor("own-inclusion", len(mine2), 8, "C02 leaf-definition / response-assembly instances")

    # ------------------------------------------------------------------ "rejected datagrams cause none": which datagrams are rejected by size is C07's
    # size-gate (the count recv_from returned is what is judged, and the buffer is larger than the largest acceptable request, so an oversized datagram
    # is not silently cut down to an acceptable one and answered).
    c7 = importlib.import_module("rules.C07")
    sub7 = Ctx("C07", P, ctx.repo, "quick", ctx.feature)
    c7.run(sub7)
    mine7 = [i for i in sub7.instances if i["rule"] == "size-gate"]
    bad7 = [i for i in mine7 if not i["ok"]]
    ctx.check("rejected-cause-none", "size-gate-sees-the-real-length(C07)", not bad7, "oversized / undersized datagrams are judged by their real length (C07: %d size-gate instances)" % len(mine7),
              "a datagram that must be rejected can be answered: " + (bad7[0]["detail"] if bad7 else ""), bad7[0].get("loc") if bad7 else None)
    ctx.floor("rejected-cause-none", len(mine7), 4, "C07 size-gate instances")

    # ------------------------------------------------------------------ "every accepted request causes exactly one datagram": a request that was read is
    # answered in the same pass (batch-lifecycle above); a request that is still queued in the socket must get its pass.  C08's wake-up rules (level-
    # triggered registration of sources whose handler does a bounded amount of work per event, bounded loops) are obligations of C09 too: with
    # an edge-triggered socket and a bounded number of batches per event the surplus of a burst is answered late or never.
    c8 = importlib.import_module("rules.C08")
    sub8 = Ctx("C08", P, ctx.repo, "quick", ctx.feature)
    c8.run(sub8)
    mine8 = [i for i in sub8.instances if i["rule"] == "wake-up"]
    bad8 = [i for i in mine8 if not i["ok"]]
    ctx.check("wake-up", "queued-requests-get-their-pass(C08)", not bad8 and len(mine8) >= 3, "the request socket keeps signalling while datagrams are pending (C08: %d wake-up instances)" % len(mine8),
              "requests left in the socket after one pass may never be read: " + (bad8[0]["detail"] if bad8 else "wake-up anchors missing"), bad8[0].get("loc") if bad8 else None)
