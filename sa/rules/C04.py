"""C04 — Merkle inclusion proofs are complete and binding for every batch shape (index / sibling / reset structure)."""
import flow
import values
from lib import World, is_call, callee_name, uncast, iter_elem, VERSION, VERSIONS
from framework import spec
from mir import strip_generics, AnchorMissing
from values import Ev, fmt

EXPLANATION = """
Index algebra by abstract interpretation in a parity-affine domain (position = 2k+b, b in {0,1}; the loop bodies are
interpreted once per parity, any idiom computing the same function passes): get_paths selects sibling 2k+(1-b) of the
current level and continues with k; root_from_paths hashes (hash, path) for b=0 and (path, hash) for b=1 with the running
hash seeded by hash_leaf(data) and the PATH chunks in order, and continues with k; compute_root forms parent i of level
L from children 2i, 2i+1 of level L-1 in that order.  Padding: a node is appended to the children level only on the odd-count edge.
Reset: MerkleTree::reset clears every level (loop to exhaustion, no other exit); `levels` is written only by the
constructors, push_leaf, compute_root and reset; Responder::reset calls it.  Both the producing and the verifying side end with the same finalisation.
The walk in get_paths is left only when the current level is empty (never at a fixed depth below 8 levels).
Hashing: hash_leaf = hash([0x00, leaf]), hash_nodes = hash([0x01, left, right]), and MerkleTree::hash feeds every input slice whole and in order into one
digest under self.algorithm, truncated to hash_len() (a proof binds only the bytes the leaf hash covers).
Completes: the panic obligations of C08 that lie inside src/merkle.rs (index, arithmetic, capacity) hold for every sequence of batches the server feeds a reused tree.
Issued position: the server issues INDX = position in Responder.requests and PATH = get_paths(that position); the queue changes only together with the tree
(a push beside a push_leaf, a clear beside the tree's reset, no dedup / retain / remove / sort / truncate, never reassigned), so position i is leaf i.
"""
NOT_DECIDED = "completeness for each of the 255 batch sizes and binding itself (collision resistance); the relational invariant level length = 2 x node_count"
TRUSTED = ["Vec indexing / slice::chunks semantics", "ring digest"]

M = "roughenough::merkle::MerkleTree"


def levels_index(t):
    """For index(index(self.levels, L), X) return (L, X)."""
    if isinstance(t, tuple) and t[0] == "index" and isinstance(t[1], tuple) and t[1][0] == "index":
        inner = t[1]
        if isinstance(inner[1], tuple) and inner[1][0] == "field" and inner[1][2] == "levels":
            return inner[2], t[2]
    return None


def iterator_pairing(ctx, W, cr, ev0):
    """Recognise `levels[P].extend(levels[C].chunks[_exact](2)[.take(n)].map(|pair| self.hash_nodes(&pair[0], &pair[1])).collect())`."""
    P = ctx.prog
    for bb, t in cr.calls():
        if callee_name(t["fn"].get("path", "")) not in ("extend", "append", "extend_from_slice"):
            continue
        a = ev0.call_args(bb)
        tgt = a[0]
        if not (isinstance(tgt, tuple) and tgt[0] == "index" and tgt[1] == ("field", ("param", cr.path, 1), "levels")):
            continue
        src = W.expand(a[1])
        chain = []
        cur = src
        while is_call(cur) and callee_name(cur[1]) in ("collect", "map", "take", "chunks", "chunks_exact", "into_iter", "iter", "by_ref"):
            chain.append(cur)
            if callee_name(cur[1]) in ("chunks", "chunks_exact"):
                break
            cur = W.expand(cur[2][0])
        names = [callee_name(c[1]) for c in chain]
        if "map" not in names or not chain or callee_name(chain[-1][1]) not in ("chunks", "chunks_exact"):
            continue
        ch = chain[-1]
        base = W.expand(ch[2][0])
        prefix = None
        if isinstance(base, tuple) and base[0] == "index" and isinstance(base[2], tuple) and base[2][0] == "agg" and isinstance(base[1], tuple) and base[1][0] == "index":
            # `levels[c][..n]`: the first n nodes of the children level
            lab, ops = str(base[2][1]), base[2][2]
            if lab.endswith("RangeTo::RangeTo") or (lab.endswith("Range::Range") and ops[0] == ("int", 0)):
                prefix = ops[-1]
                base = base[1]
        mp = [c for c in chain if callee_name(c[1]) == "map"][0]
        clo = mp[2][1]
        tk = [c for c in chain if callee_name(c[1]) == "take"]
        detail = fmt(src)[:200]
        pair_ok = False
        if isinstance(clo, tuple) and clo and clo[0] == "closure" and clo[1] in P.fns and ch[2][1] == ("int", 2) and \
                isinstance(base, tuple) and base[0] == "index" and base[1] == ("field", ("param", cr.path, 1), "levels"):
            K = P.fns[clo[1]]
            kev = W.ev(K.path)
            hs = [b2 for b2, t2 in K.calls() if strip_generics(t2["fn"].get("path", "")).endswith("MerkleTree::hash_nodes")]
            if len(hs) == 1 and not K.loops():
                ka = kev.call_args(hs[0])

                def elem(x):
                    x = W.expand(x) if False else x
                    if isinstance(x, tuple) and x and x[0] in ("index", "idx") and x[1] == ("param", K.path, 2) and isinstance(x[2], tuple) and x[2][0] == "int":
                        return abs(x[2][1])
                    return None
                pair_ok = elem(ka[1]) == 0 and elem(ka[2]) == 1 and values.strip_payload(kev.ret()) == kev.call_term(hs[0])
                detail = "hash_nodes(%s, %s) over %s" % (fmt(ka[1]), fmt(ka[2]), fmt(base))
        return {"pair_ok": pair_ok, "detail": detail, "chunks_bb": ch[3][1], "child_level": base[2] if isinstance(base, tuple) and base[0] == "index" else None,
                "parent_level": tgt[2], "take_bb": tk[0][3][1] if tk else None, "prefix": prefix}
    return None


def walker(ctx, W, path, param):
    """The function that actually contains the level walk: `path` itself, or the crate-local method it forwards its position parameter to
    (a thin wrapper such as get_paths -> get_paths_into).  Returns (Fn, local number of the position parameter)."""
    fn = ctx.fn(path)
    def loop_carrier(fn, param):
        """the local that carries the position through the loop: the parameter itself, or (after a helper with a `mut index` parameter was
        inlined) the local that is initialised with it before the loop and updated inside"""
        defs = fn.defs()
        inloop = lambda b: bool(fn.in_loop(b))
        if any(inloop(b) for (b, i, k) in defs.get(param, [])):
            return param
        cur = param
        for _ in range(3):
            nxt = None
            for l, ds in defs.items():
                outs = [(b, i) for (b, i, k) in ds if k == "whole" and not inloop(b) and i != "term"]
                if len(outs) != 1:
                    continue
                rv = fn.blocks[outs[0][0]].stmts[outs[0][1]]["rv"]
                o = (rv["op"].get("cp") or rv["op"].get("mv")) if rv["k"] == "use" else None
                if o and not o.get("p") and o["l"] == cur:
                    if any(inloop(b) for (b, i, k) in ds):
                        return l
                    nxt = l
            if nxt is None:
                break
            cur = nxt
        return param

    for _ in range(3):
        if fn.loops():
            return fn, loop_carrier(fn, param)
        ev = W.ev(fn.path)
        nxt = None
        for bb, t in fn.calls():
            tg = [x for x in ctx.prog.call_targets(t) if x in ctx.prog.fns and ctx.prog.fns[x].impl_self == fn.impl_self]
            if len(tg) != 1:
                continue
            a = ev.call_args(bb)
            pos = [i for i, x in enumerate(a) if uncast(x) == ("param", fn.path, param)]
            if len(pos) == 1:
                nxt = (tg[0], pos[0] + 1)
        if nxt is None:
            return fn, param
        fn, param = ctx.fn(nxt[0]), nxt[1]
    return fn, param


def fold_form_root_from_paths(ctx, W, rp, ev0, fb):
    """`paths.chunks[_exact](hash_len).fold((index, hash_leaf(data)), |(index, hash), path| (index >> 1, if index & 1 == 0 { hash_nodes(hash, path) } else
    { hash_nodes(path, hash) }))`: the same walk as the loop form, with the position and the running hash carried in the accumulator."""
    P = ctx.prog
    a = [W.expand(x) for x in ev0.call_args(fb)]
    src = a[0]
    while isinstance(src, tuple) and src and src[0] == "reader":
        src = src[1]
    for _ in range(3):
        if is_call(src) and callee_name(src[1]) in ("into_iter", "iter", "by_ref") and src[2]:
            src = W.expand(src[2][0])
    ok_src = is_call(src) and callee_name(src[1]) in ("chunks", "chunks_exact") and W.expand(src[2][0]) == ("param", rp.path, 4)
    init = a[1]
    pi = ph = None
    if isinstance(init, tuple) and init[0] == "agg" and init[1] == "tuple":
        for i, c in enumerate(init[2]):
            c = W.expand(c)
            if uncast(c) == ("param", rp.path, 2):
                pi = i
            elif is_call(c, "MerkleTree::hash_leaf") and c[2][1] == ("param", rp.path, 3):
                ph = i
    clo = a[2] if len(a) > 2 else None
    K = P.fns.get(clo[1]) if isinstance(clo, tuple) and clo and clo[0] == "closure" else None
    if not ok_src or pi is None or ph is None or K is None:
        for b in (0, 1):
            ctx.violation("index-algebra", "root_from_paths/order/parity%d" % b,
                          "root_from_paths folds over %s starting from %s: not the PATH chunks with (position, hash_leaf(data))" % (fmt(src)[:80], fmt(init)[:80]), ctx.loc(rp))
        return
    # locals of the closure that receive the accumulator's components
    comp = {}
    for bl in K.blocks:
        for st in bl.stmts:
            if st["k"] == "assign" and not st["dst"].get("p") and st["rv"]["k"] == "use":
                o = st["rv"]["op"].get("mv") or st["rv"]["op"].get("cp")
                if o and o["l"] == 2 and len(o.get("p", [])) == 1 and isinstance(o["p"][0], dict) and "f" in o["p"][0]:
                    comp[o["p"][0]["f"]] = st["dst"]["l"]
    if pi not in comp:
        ctx.violation("index-algebra", "root_from_paths/order/parity0", "the fold closure does not destructure its accumulator", ctx.loc(K))
        return
    upd_ok = True
    for b in (0, 1):
        ev = Ev(P, K, overrides={comp[pi]: ("aff", 2, b)})
        live = ev.live()
        hn = [(bb, ev.call_args(bb)) for bb, t in K.calls() if bb in live and strip_generics(t["fn"].get("path", "")).endswith("MerkleTree::hash_nodes")]
        ok = False
        det = "no hash_nodes call in the fold closure"
        if len(hn) == 1:
            x = [values.strip_payload(W.expand(y)) for y in hn[0][1]]
            first, second = x[1], x[2]
            is_path = lambda t: t == ("param", K.path, 3)
            is_running = lambda t: (isinstance(t, tuple) and t and t[0] == "obj" and ph in comp and t[2] == comp[ph]) or t == ("field", ("param", K.path, 2), str(ph))
            ok = (is_running(first) and is_path(second)) if b == 0 else (is_path(first) and is_running(second))
            det = "hash_nodes(%s, %s)" % (fmt(first), fmt(second))
        ctx.check("index-algebra", "root_from_paths/order/parity%d" % b, ok, "position 2k+%d -> hash_nodes(%s)" % (b, "hash, path" if b == 0 else "path, hash"),
                  "root_from_paths combines in the wrong order for position 2k+%d: %s" % (b, det), ctx.loc(K))
        r = ev.ret()
        nxt = r[2][pi] if isinstance(r, tuple) and r[0] == "agg" and r[1] == "tuple" and len(r[2]) > max(pi, ph) else None
        ctx.check("index-algebra", "root_from_paths/parent/parity%d" % b, nxt == ("aff", 1, 0), "continues with k",
                  "root_from_paths continues with %s instead of k" % (fmt(nxt) if nxt else None), ctx.loc(K))
        carried = r[2][ph] if nxt is not None else None
        if not (len(hn) == 1 and carried is not None and values.strip_payload(W.expand(carried)) == values.strip_payload(ev.call_term(hn[0][0]))):
            upd_ok = False
    ctx.check("index-algebra", "root_from_paths/running-hash", upd_ok, "running hash = hash_leaf(data), then the hash_nodes result of each step (fold accumulator)",
              "the fold in root_from_paths does not carry the hash_nodes result into the next step", ctx.loc(rp))


def count_tracks_level(ctx, W, cr, ev0, hash_bb, child_level, iter_form=None):
    """The pair loop must consume exactly the (padded) children level: with c the node counter tested for oddness,
    the counter is c+1 on the odd edge (where the zero node is appended to the CHILDREN level, before pairing), then halved, and the pair loop runs
    0..counter.  Each update of the counter is classified by evaluating its extracted expression as a function of the previous value."""
    from lib import arith_eval, NotArith
    P = ctx.prog
    key = "compute_root/count-tracks-level"
    loc = cr.loc(hash_bb)
    if iter_form is not None:
        # children are paired by `levels[child].chunks(2)[.take(n)].map(|p| hash_nodes(p[0], p[1]))`: the "inner loop" is that iterator chain
        outer = max(cr.in_loop(hash_bb), key=lambda l: len(l["body"])) if cr.in_loop(hash_bb) else None
        inner = {"header": hash_bb, "body": set()}
        if outer is None:
            return ctx.violation("index-algebra", key, "the pairing of children is not inside the per-level loop", loc)
    else:
        inner = min(cr.in_loop(hash_bb), key=lambda l: len(l["body"])) if cr.in_loop(hash_bb) else None
        outer = max(cr.in_loop(hash_bb), key=lambda l: len(l["body"])) if cr.in_loop(hash_bb) else None
        if inner is None or outer is None or inner is outer:
            return ctx.violation("index-algebra", key, "the pairing of children is not a loop nested in the per-level loop", loc)
    # the parity test and the counter it reads
    T = None
    Lc = None
    for bl in cr.blocks:
        if bl.term["k"] != "switch" or bl.idx not in outer["body"] or bl.idx in inner["body"]:
            continue
        for b2 in [bl.idx] + [p for p in cr.pred(bl.idx)]:
            for st in cr.blocks[b2].stmts:
                if st["k"] == "assign" and st["rv"]["k"] == "binop" and st["rv"]["op"] in ("Rem", "BitAnd") and st["rv"]["b"].get("c", {}).get("int") in (2, 1):
                    if (st["rv"]["op"], st["rv"]["b"]["c"]["int"]) in (("Rem", 2), ("BitAnd", 1)):
                        src = st["rv"]["a"].get("cp") or st["rv"]["a"].get("mv")
                        if src and not src.get("p"):
                            T, Lc = bl.idx, src["l"]
    if T is None:
        return ctx.violation("index-algebra", key, "no parity test of the node counter found in the per-level loop (odd levels must be padded)", loc)
    # follow plain copies back to the user variable
    for _ in range(4):
        ds = [d for d in cr.defs().get(Lc, []) if d[2] == "whole"]
        if len(ds) == 1 and ds[0][1] != "term":
            rv = cr.blocks[ds[0][0]].stmts[ds[0][1]]["rv"]
            if rv["k"] == "use" and (rv["op"].get("cp") or rv["op"].get("mv")) and not (rv["op"].get("cp") or rv["op"].get("mv")).get("p"):
                Lc = (rv["op"].get("cp") or rv["op"].get("mv"))["l"]
                continue
        break
    SYM = ("sym", "count")
    evs = Ev(P, cr, overrides={Lc: SYM})
    IN = flow.must_facts(cr, evs)
    classes = {}
    grid = list(range(1, 14))
    for (db, di, kind) in cr.defs().get(Lc, []):
        if kind != "whole" or db not in cr.reachable():
            continue
        t = evs.call_term(db) if di == "term" else evs.rvalue(cr.blocks[db].stmts[di]["rv"], (db, di))
        t = W.expand(t)
        if not values.contains(t, lambda x: x == SYM):
            classes.setdefault("init", []).append((db, t))
            continue
        try:
            vals = [arith_eval(t, {SYM: c}) for c in grid]
        except NotArith:
            classes.setdefault("other", []).append((db, t))
            continue
        if vals == [c + 1 for c in grid]:
            classes.setdefault("inc", []).append((db, t))
        elif vals == [c // 2 for c in grid]:
            classes.setdefault("halve", []).append((db, t))
        elif vals == [(c + 1) // 2 for c in grid]:
            classes.setdefault("halve-ceil", []).append((db, t))
        elif vals == grid:
            pass
        else:
            classes.setdefault("other", []).append((db, t))
    hdr = inner["header"]
    oh = outer["header"]
    problems = []
    if classes.get("other"):
        problems.append("the node counter is updated in an unexpected way: %s" % [fmt(t) for b, t in classes["other"]])
    inits = classes.get("init", [])
    okinit = len(inits) >= 1 and all(t[0] == "len" and t[1] == ("index", ("field", ("param", cr.path, 1), "levels"), ("int", 0)) for b, t in inits) and all(b not in outer["body"] for b, t in inits)
    if not okinit:
        problems.append("the node counter does not start as levels[0].len(): %s" % [fmt(t) for b, t in inits])

    def odd_at(b):
        for r in flow.rel_facts_at(IN, b):
            if r[0] == "Ne" and isinstance(r[1], tuple) and r[1][0] == "bin" and r[1][1] in ("Rem", "BitAnd") and r[1][2] == SYM and r[2] == ("int", 0):
                return True
            if r[0] == "Eq" and isinstance(r[1], tuple) and r[1][0] == "bin" and r[1][1] in ("Rem", "BitAnd") and r[1][2] == SYM and r[2] == ("int", 1):
                return True
        return False

    halves = classes.get("halve", []) + classes.get("halve-ceil", [])
    if iter_form is not None and iter_form.get("take_bb") is None and not halves:
        pass    # the counter only drives the per-level loop; it must still follow the level sizes
    if len(halves) != 1 or halves[0][0] not in outer["body"] or halves[0][0] in inner["body"] or (iter_form is None and not cr.dominates(halves[0][0], hdr)):
        problems.append("the node counter is not halved exactly once per level before the pairing loop")
    else:
        hb = halves[0][0]
        ceil = bool(classes.get("halve-ceil"))
        incs = classes.get("inc", [])
        if ceil and incs:
            # `if n odd { pad; n += 1 }  n = n.div_ceil(2)`: after the increment n is even, so rounding up is plain halving; fine as long as the
            # increment is the one on the odd edge and comes before the halving
            if not (len(incs) == 1 and odd_at(incs[0][0]) and cr.reaches(incs[0][0], hb, avoid={oh}) and incs[0][0] not in inner["body"]):
                problems.append("the node counter is both incremented and halved rounding up")
        if not ceil:
            if len(incs) != 1:
                problems.append("an odd level is padded but the node counter is %s" % ("never incremented" if not incs else "incremented at %d places" % len(incs)))
            else:
                ib = incs[0][0]
                if not odd_at(ib):
                    problems.append("the node counter is incremented outside the odd-count branch")
                if not (cr.reaches(ib, hb, avoid={oh}) and ib not in inner["body"]):
                    problems.append("the node counter is incremented after it was halved for this level (the level being paired keeps its odd size)")
    # the zero node goes onto the children level, on the odd edge, before pairing
    npad = 0
    for pb, pt in cr.calls():
        if callee_name(pt["fn"].get("path", "")) != "push":
            continue
        a = ev0.call_args(pb)
        from lib import zero_fill
        if zero_fill(W, ev0, a[1]) is None:
            continue
        npad += 1
        tgt = a[0]
        if not (tgt[0] == "index" and child_level is not None and tgt[2] == child_level):
            problems.append("the padding node is appended to %s, not to the level whose nodes are paired (%s)" % (fmt(tgt), fmt(child_level)))
        if not odd_at(pb):
            problems.append("the padding node is appended outside the odd-count branch")
        if not (cr.reaches(pb, hdr, avoid={oh}) and pb not in inner["body"]):
            problems.append("the padding node is appended after the level has been paired")
    if npad == 0 and not classes.get("halve-ceil"):
        problems.append("no padding node is appended")
    # the pairing loop runs 0..counter
    okr = False
    if iter_form is not None:
        # no `take`: every chunk is consumed; `take(n)`: n must be the halved counter
        if iter_form.get("prefix") is not None:
            # `levels[c][..n].chunks_exact(2)`: n must be the padded, not yet halved counter, and the halving (`counter = parents.len()`) comes after
            cb_ = iter_form["chunks_bb"]
            pa = evs.call_args(cb_)[0]
            pa = W.expand(pa)
            ptm = pa[2][2][-1] if isinstance(pa, tuple) and pa[0] == "index" and isinstance(pa[2], tuple) and pa[2][0] == "agg" else None
            okr = ptm == SYM and len(halves) == 1 and cr.dominates(cb_, halves[0][0]) and iter_form.get("take_bb") is None
        elif iter_form.get("take_bb") is None:
            okr = True
        else:
            tb = iter_form["take_bb"]
            okr = evs.call_args(tb)[1] == SYM and len(halves) == 1 and cr.dominates(halves[0][0], tb)
    rngs = []
    for bl in cr.blocks:
        if iter_form is None and bl.idx in outer["body"] and bl.idx not in inner["body"] and cr.dominates(bl.idx, hdr):
            for i, st in enumerate(bl.stmts):
                if st["k"] == "assign" and st["rv"]["k"] == "agg" and str(st["rv"].get("adt", "")).endswith("ops::range::Range"):
                    rngs.append((bl.idx, i, evs.rvalue(st["rv"], (bl.idx, i))))
    if len(rngs) == 1:
        rb, ri, rt = rngs[0]
        okr = rt[0] == "agg" and rt[2][0] == ("int", 0) and rt[2][1] == SYM
        if okr and len(halves) == 1:
            hb = halves[0][0]
            hidx = [di for (db, di, kind) in cr.defs().get(Lc, []) if db == hb and kind == "whole"]
            okr = cr.dominates(hb, rb) and (hb != rb or (hidx and hidx[0] != "term" and hidx[0] < ri))
    if not okr:
        problems.append("the pairing loop does not run over 0..counter")
    ctx.check("index-algebra", key, not problems,
              "counter = levels[0].len(); per level: +1 with a zero node appended to the children level when odd, halved, then 0..counter pairs are hashed",
              "compute_root does not consume exactly the padded children level: " + "; ".join(problems), loc)


def run(ctx):
    W = World(ctx)
    P = ctx.prog

    # ------------------------------------------------------------------ what is hashed (a proof binds only what the leaf hash covers)
    import merkle_hash
    merkle_hash.check_hashing(ctx, W, "hashing")

    # ------------------------------------------------------------------ get_paths
    gp, IDX = walker(ctx, W, M + "::get_paths", 2)
    for b in (0, 1):
        ev = Ev(P, gp, overrides={IDX: ("aff", 2, b)})
        live = ev.live()
        sib = []
        for bb, t in gp.calls():
            if bb not in live:
                continue
            if t["fn"].get("trait") == "core::ops::index::Index":
                term = ev.call_term(bb)
                li = levels_index(term)
                if li:
                    sib.append((bb, li))
        ok = len(sib) == 1 and sib[0][1][1] == ("aff", 2, 1 - b)
        ctx.check("index-algebra", "get_paths/sibling/parity%d" % b, ok, "position 2k+%d -> sibling 2k+%d" % (b, 1 - b),
                  "get_paths picks sibling %s for position 2k+%d (expected 2k+%d)" % ([fmt(s[1][1]) for s in sib], b, 1 - b), ctx.loc(gp))
        # next index
        nxt = []
        for (db, di, kind) in gp.defs().get(IDX, []):
            if kind == "whole" and di != "term" and db in live and gp.in_loop(db):     # updates inside the walk (not the initialisation from the parameter)
                nxt.append(ev.rvalue(gp.blocks[db].stmts[di]["rv"], (db, di)))
        ctx.check("index-algebra", "get_paths/parent/parity%d" % b, nxt == [("aff", 1, 0)], "continues with k",
                  "get_paths continues with %s instead of k = index div 2" % [fmt(n) for n in nxt], ctx.loc(gp))
        # the level read and the level emptiness test use the same level variable which advances by one
    ev0 = W.ev(gp.path)
    # level counter: increments by exactly one per iteration
    lv = [l for l in range(len(gp.locals)) if any(k == "whole" for (_, _, k) in gp.defs().get(l, [])) and gp.locals[l]["ty"] == "usize" and l != IDX
          and len([d for d in gp.defs().get(l, []) if d[2] == "whole"]) == 2]
    okl = False
    for l in lv:
        ds = [d for d in gp.defs()[l] if d[2] == "whole" and d[1] != "term"]
        rvs = [Ev(P, gp, overrides={l: ("aff", 1, 0)}).rvalue(gp.blocks[d[0]].stmts[d[1]]["rv"], (d[0], d[1])) for d in ds]
        if ("int", 0) in rvs and ("aff", 1, 1) in rvs:
            okl = True
    ctx.check("index-algebra", "get_paths/level-advances-by-one", okl, "level starts at 0 and advances by one per path element",
              "cannot establish that get_paths walks the levels 0,1,2,...", ctx.loc(gp))

    # the walk goes all the way up: it is left only when the current level is empty (the level above the root), never at a fixed depth that a
    # batch of up to 255 requests (8 levels) can exceed
    gev = W.ev(gp.path)
    gef = flow.edge_facts(gp, gev)
    sibs = [bb for bb, t in gp.calls() if t["fn"].get("trait") == "core::ops::index::Index" and levels_index(gev.call_term(bb))]
    wl = [l for l in gp.loops() if any(b in l["body"] for b in sibs)]
    if wl:
        lp = max(wl, key=lambda l: len(l["body"]))
        for (s0, d0) in lp["exits"]:
            if d0 in gp.diverging():
                continue
            rels = [r for f in gef.get((s0, d0), ()) for r in flow.relational(f)]
            empty = any((r[0] == "Pred" and r[1] == "is_empty") or (r[0] == "Eq" and isinstance(r[1], tuple) and r[1][0] == "len" and r[2] == ("int", 0)) or
                        (r[0] in ("Eq", "Ne") and isinstance(r[1], tuple) and r[1][0] == "discr" and is_call(values.strip_payload(r[1][1])) and
                         callee_name(values.strip_payload(r[1][1])[1]) in ("get", "first", "next")) for r in rels)
            caps = [r[1][1] if r[1][0] == "int" else r[2][1] for r in rels if r[0] in ("Le", "Lt") and isinstance(r[1], tuple) and isinstance(r[2], tuple) and
                    (r[1][0] == "int") != (r[2][0] == "int")]
            okx = empty or (bool(caps) and min(caps) >= 8)
            ctx.check("index-algebra", "get_paths/walks-to-the-top@%d" % s0, okx, "the walk ends when the level is empty (above the root)",
                      "get_paths stops climbing at a fixed depth (%s): for batches deeper than that the PATH is cut short and does not reach the root" % (caps or [fmt(r[1])[:40] for r in rels]),
                      gp.loc(s0))
    else:
        ctx.violation("index-algebra", "get_paths/walks-to-the-top", "no loop containing the sibling lookup found in get_paths", ctx.loc(gp))

    # ------------------------------------------------------------------ root_from_paths
    rp = ctx.fn(M + "::root_from_paths")
    ev0 = W.ev(rp.path)
    folds = [bb for bb, t in rp.calls() if callee_name(t["fn"].get("path", "")) == "fold" and "Iterator" in t["fn"].get("path", "")]
    has_loop_hash = any(rp.in_loop(bb) for bb, t in rp.calls() if strip_generics(t["fn"].get("path", "")).endswith("MerkleTree::hash_nodes"))
    if folds and not has_loop_hash:
        fold_form_root_from_paths(ctx, W, rp, ev0, folds[0])
    for b in (() if (folds and not has_loop_hash) else (0, 1)):
        ev = Ev(P, rp, overrides={2: ("aff", 2, b)})
        live = ev.live()
        hn = [(bb, ev.call_args(bb)) for bb, t in rp.calls() if bb in live and strip_generics(t["fn"].get("path", "")).endswith("MerkleTree::hash_nodes")
              and rp.in_loop(bb)]
        ok = False
        det = "no hash_nodes call in the loop"
        if len(hn) == 1:
            a = [W.expand(x) for x in hn[0][1]]
            first, second = a[1], a[2]

            def is_path(t):
                ie = iter_elem(W, t)
                return ie is not None and is_call(ie["container"]) and callee_name(ie["container"][1]) in ("chunks", "chunks_exact") and ie["container"][2][0] == ("param", rp.path, 4)

            def is_running(t):
                return values.contains(t, lambda s: is_call(s, "MerkleTree::hash_leaf") and s[2][1] == ("param", rp.path, 3)) or (isinstance(t, tuple) and t[0] in ("loopvar", "obj"))

            if b == 0:
                ok = is_running(first) and is_path(second) and not is_path(first)
            else:
                ok = is_path(first) and is_running(second) and not is_path(second)
            det = "hash_nodes(%s, %s)" % (fmt(first), fmt(second))
        ctx.check("index-algebra", "root_from_paths/order/parity%d" % b, ok,
                  "position 2k+%d -> hash_nodes(%s)" % (b, "hash, path" if b == 0 else "path, hash"),
                  "root_from_paths combines in the wrong order for position 2k+%d: %s" % (b, det), ctx.loc(rp))
        nxt = []
        for (db, di, kind) in rp.defs().get(2, []):
            if kind == "whole" and di != "term" and db in live:
                nxt.append(ev.rvalue(rp.blocks[db].stmts[di]["rv"], (db, di)))
        ctx.check("index-algebra", "root_from_paths/parent/parity%d" % b, nxt == [("aff", 1, 0)], "continues with k",
                  "root_from_paths continues with %s instead of k" % [fmt(n) for n in nxt], ctx.loc(rp))
    # the running hash is reassigned from that hash_nodes result in every iteration
    if folds and not has_loop_hash:
        rp_done = True
    hl = [l for l in range(len(rp.locals)) if rp.locals[l].get("name") and rp.locals[l]["ty"].startswith("alloc::vec::Vec<u8")]
    upd = False
    for l in range(len(rp.locals)):
        ds = [d for d in rp.defs().get(l, []) if d[2] == "whole"]
        terms = []
        for d in ds:
            terms.append(ev0.call_term(d[0]) if d[1] == "term" else ev0.rvalue(rp.blocks[d[0]].stmts[d[1]]["rv"], (d[0], d[1])))
        if any(is_call(t, "MerkleTree::hash_leaf") for t in terms) and any(
                values.contains(t, lambda s: is_call(s, "MerkleTree::hash_nodes")) and rp.in_loop(d[0]) for t, d in zip(terms, ds)):
            upd = True
    if not (folds and not has_loop_hash):
        ctx.check("index-algebra", "root_from_paths/running-hash", upd, "running hash = hash_leaf(data), then the hash_nodes result of each step",
                  "root_from_paths does not carry the hash_nodes result into the next step", ctx.loc(rp))

    # ------------------------------------------------------------------ compute_root
    cr = ctx.fn(M + "::compute_root")
    ev0 = W.ev(cr.path)
    ivar = None
    for bb, t in cr.calls():
        if strip_generics(t["fn"].get("path", "")).endswith("MerkleTree::hash_nodes"):
            for a in ev0.call_args(bb)[1:]:
                li = levels_index(a)
                if li:
                    for s in values.subterms(li[1]):
                        if isinstance(s, tuple) and s and s[0] == "vfield" and s[2] == "Some" and is_call(s[1]) and callee_name(s[1][1]) == "next":
                            ivar = s
    itf = iterator_pairing(ctx, W, cr, ev0) if ivar is None else None
    if ivar is None and itf is None:
        ctx.violation("index-algebra", "compute_root/children", "cannot find hash_nodes(levels[..][f(i)], levels[..][g(i)]) over a range variable", ctx.loc(cr))
    elif ivar is None:
        ctx.check("index-algebra", "compute_root/children", itf["pair_ok"], "parent i = hash_nodes(child 2i, child 2i+1): chunks of two, hashed as (pair[0], pair[1])",
                  "compute_root pairs %s" % itf["detail"], cr.loc(itf["chunks_bb"]))
        pl_, cl_ = itf["parent_level"], itf["child_level"]
        okp = cl_ == ("bin", "Sub", pl_, ("int", 1)) or pl_ == ("bin", "Add", cl_, ("int", 1))
        ctx.check("index-algebra", "compute_root/parent-level", okp, "the parents are appended to the level above their children",
                  "parent hashes go to level %s, children come from level %s" % (fmt(pl_), fmt(cl_)), cr.loc(itf["chunks_bb"]))
        count_tracks_level(ctx, W, cr, ev0, itf["chunks_bb"], cl_, iter_form=itf)
    else:
        ev = Ev(P, cr, assume={ivar: ("aff", 1, 0)})
        for bb, t in cr.calls():
            if strip_generics(t["fn"].get("path", "")).endswith("MerkleTree::hash_nodes"):
                a = ev.call_args(bb)
                l1, l2 = levels_index(a[1]), levels_index(a[2])
                ok = l1 is not None and l2 is not None and l1[1] == ("aff", 2, 0) and l2[1] == ("aff", 2, 1) and l1[0] == l2[0]
                ctx.check("index-algebra", "compute_root/children", ok, "parent i = hash_nodes(child 2i, child 2i+1) of one level",
                          "compute_root pairs %s and %s" % (fmt(a[1]), fmt(a[2])), cr.loc(bb))
                # result is pushed to the next level
                res = ev.call_term(bb)
                pushed = [(pb, ev.call_args(pb)) for pb, pt in cr.calls() if callee_name(pt["fn"].get("path", "")) == "push"]
                tgt = [pa[0] for pb, pa in pushed if pa[1] == res]
                okp = False
                if len(tgt) == 1 and l1 is not None and tgt[0][0] == "index":
                    child_level, parent_level = l1[0], tgt[0][2]
                    okp = child_level == ("bin", "Sub", parent_level, ("int", 1)) or parent_level == ("bin", "Add", child_level, ("int", 1))
                ctx.check("index-algebra", "compute_root/parent-level", okp, "the parent is pushed to the level above its children",
                          "parent hash is pushed to %s, children come from level %s" % ([fmt(x) for x in tgt], fmt(l1[0]) if l1 else "?"), cr.loc(bb))
                count_tracks_level(ctx, W, cr, ev0, bb, l1[0] if l1 else None)
    # padding guard
    IN = flow.must_facts(cr, ev0)
    pads = 0
    for bb, t in cr.calls():
        if callee_name(t["fn"].get("path", "")) == "push":
            a = ev0.call_args(bb)
            from lib import zero_fill
            tgt_is_level = isinstance(a[0], tuple) and a[0][0] == "index" and a[0][1] == ("field", ("param", cr.path, 1), "levels")
            fresh = is_call(a[1], "from_elem") or a[1][0] in ("repeat", "obj")
            if tgt_is_level and fresh and not values.contains(a[1], lambda x: is_call(x, "MerkleTree::hash_nodes")):
                pads += 1
                rels = flow.rel_facts_at(IN, bb)

                def oddfact(r):
                    if not (isinstance(r[1], tuple) and r[1] and r[1][0] == "bin" and r[1][1] in ("Rem", "BitAnd")):
                        return False
                    two = r[1][3] == (("int", 2) if r[1][1] == "Rem" else ("int", 1))
                    return two and ((r[0] == "Ne" and r[2] == ("int", 0)) or (r[0] == "Eq" and r[2] == ("int", 1)))
                okg = any(oddfact(r) for r in rels)
                ctx.check("padding", "compute_root/padding-only-when-odd", okg, "padding node pushed only on the odd-count edge",
                          "padding node is pushed without the `count % 2 != 0` guard", cr.loc(bb))
                okz = zero_fill(W, ev0, a[1]) is not None
                ctx.check("padding", "compute_root/padding-is-zero", okz, "padding node is all zero bytes", "padding node is %s" % fmt(a[1]), cr.loc(bb))
    ctx.floor("padding", pads, 1, "padding pushes in compute_root")

    # ------------------------------------------------------------------ reset completeness and writers of `levels`
    rs = ctx.fn(M + "::reset")
    rev = W.ev(rs.path)
    clears = [bb for bb, t in rs.calls() if callee_name(t["fn"].get("path", "")) == "clear"]
    ok = False
    det = "no clear() call"
    if len(clears) == 1:
        cb = clears[0]
        a = W.expand(rev.call_args(cb)[0])
        ie = iter_elem(W, a)
        loops = rs.in_loop(cb)
        okc = ie is not None and ie["container"] == ("field", ("param", rs.path, 1), "levels") and ie["what"] == "elem" and not ie["fields"]
        oke = False
        if loops:
            lp = loops[0]
            exits = lp["exits"]
            # only exit: the `next() == None` edge out of the header region
            oke = len(exits) == 1
            if oke:
                src = exits[0][0]
                tt = rs.blocks[src].term
                oke = tt["k"] == "switch" and rev.op(tt["op"], (src, "term"))[0] == "discr"
        ok = okc and oke and bool(loops)
        det = "clear() on %s, loop exits %s" % (fmt(a), loops[0]["exits"] if loops else None)
    if not clears:
        # `self.levels.iter_mut().for_each(Vec::clear)` / `.for_each(|l| l.clear())`: std visits every element
        for bb, t in rs.calls():
            if callee_name(t["fn"].get("path", "")) != "for_each" or not all(rs.dominates(bb, x) for x in rs.exits()):
                continue
            fa = [W.expand(x) for x in rev.call_args(bb)]
            src = fa[0]
            while isinstance(src, tuple) and src and src[0] == "reader":
                src = src[1]
            if is_call(src) and callee_name(src[1]) in ("iter_mut", "into_iter") and src[2]:
                src = W.expand(src[2][0])
            whole = src == ("field", ("param", rs.path, 1), "levels")
            f2 = fa[1] if len(fa) > 1 else None
            clears_item = False
            fnitems = [c[3:] for c in (t.get("closures") or []) if c.startswith("fn:")]
            if any(callee_name(c) == "clear" and "Vec" in c for c in fnitems):
                clears_item = True
            if isinstance(f2, tuple) and f2 and f2[0] == "closure" and f2[1] in P.fns:
                K = P.fns[f2[1]]
                kev = W.ev(K.path)
                cl = [b2 for b2, t2 in K.calls() if callee_name(t2["fn"].get("path", "")) == "clear"]
                clears_item = len(cl) == 1 and values.strip_payload(kev.call_args(cl[0])[0]) == ("param", K.path, 2) and all(K.dominates(cl[0], x) for x in K.exits())
            if whole and clears_item:
                ok = True
            det = "for_each over %s" % fmt(src)[:100]
    ctx.check("reset", "reset/clears-every-level", ok, "reset clears every element of `levels` (iteration to exhaustion)",
              "MerkleTree::reset does not clear every level: " + det, ctx.loc(rs))
    writers = set()
    for fn in P.fns.values():
        if fn.impl_self != M and "roughenough::merkle" not in fn.path:
            continue
        e = W.ev(fn.path)
        for (b, callee, argi, ap) in e.events_on(1):
            if ap[1][:1] == ("levels",) and fn.blocks[b].term["arg_tys"][argi].startswith("&mut") and 1 <= fn.nargs:
                if fn.locals[1]["ty"].startswith("&mut"):
                    writers.add(fn.path)
        for bl in fn.blocks:
            for st in bl.stmts:
                if st["k"] == "assign" and st["rv"]["k"] == "ref" and st["rv"].get("mut"):
                    pl = st["rv"]["place"]
                    if pl["l"] == 1 and any(isinstance(x, dict) and x.get("name") == "levels" for x in pl.get("p", [])):
                        writers.add(fn.path)
    allowed = {M + "::push_leaf", M + "::compute_root", M + "::reset"}
    ctx.check("reset", "levels/who-writes", writers == allowed, "`levels` is mutated only by %s" % sorted(x.split("::")[-1] for x in writers),
              "`levels` is mutated by %s (expected exactly push_leaf, compute_root, reset)" % sorted(writers))
    adt = P.adts.get(M)
    priv = adt is not None and all(f["vis"] != "pub" for f in adt["variants"][0]["fields"] if f["name"] == "levels")
    ctx.check("reset", "levels/private", priv, "`levels` is a private field", "`levels` is not private")
    rr = ctx.fn("roughenough::responder::Responder::reset")
    rrev = W.ev(rr.path)
    called = {}
    for bb, t in rr.calls():
        a = rrev.call_args(bb)
        called[strip_generics(t["fn"].get("path", ""))] = (bb, a[0] if a else None)
    okm = M + "::reset" in called and called[M + "::reset"][1] == ("field", ("param", rr.path, 1), "merkle") and all(
        rr.dominates(called[M + "::reset"][0], e) for e in rr.exits())
    ctx.check("reset", "Responder::reset/resets-merkle", okm, "Responder::reset calls self.merkle.reset() on every path",
              "Responder::reset does not always reset its Merkle tree")
    okq = any(callee_name(k) == "clear" and v[1] == ("field", ("param", rr.path, 1), "requests") and all(rr.dominates(v[0], e) for e in rr.exits())
              for k, v in called.items())
    ctx.check("reset", "Responder::reset/clears-requests", okq, "Responder::reset clears the queued requests on every path",
              "Responder::reset does not always clear self.requests")

    # ------------------------------------------------------------------ same finalisation on both sides
    def wrappers(fn):
        e = W.ev(fn.path)
        r = e.ret()
        out = []
        while is_call(r) and r[1].startswith(M + "::") and len(r[2]) == 2:
            out.append(callee_name(r[1]))
            r = r[2][1]
        return out
    w1, w2 = wrappers(cr), wrappers(rp)
    ctx.check("finalisation", "compute_root-vs-root_from_paths", w1 == w2, "both sides finalise with %s" % (w1 or "nothing"),
              "compute_root finalises with %s but root_from_paths with %s" % (w1, w2))

    # ------------------------------------------------------------------ the tree operations complete for every batch the server feeds them
    # "for every batch (also on a reused tree) root and paths are produced": an index or arithmetic panic inside the tree for some sequence of batch
    # sizes is a violation of C04 as much as of C08.  The panic obligations of C08 that lie in the Merkle module are obligations here.
    if ctx.extra.get("structure_rules_only"):
        return
    # "the path and index issued for position i": the server issues INDX = position in Responder.requests and PATH = get_paths(that position), so
    # position i of the queue must be leaf i of the tree - the queue changes only together with the tree (server_model.queue_lockstep)
    import server_model as sm
    sm.queue_lockstep(ctx, W, "issued-position")
    import importlib
    from framework import Ctx
    c8 = importlib.import_module("rules.C08")
    sub8 = Ctx("C08", P, ctx.repo, "quick", ctx.feature)
    c8.run(sub8)
    mine = [i for i in sub8.instances if i["rule"] == "no-panic" and str(i.get("loc") or "").startswith("src/merkle.rs")]
    bad8 = [i for i in mine if not i["ok"]]
    ctx.check("completes", "no-panic-in-the-tree-for-any-batch-sequence(C08)", not bad8,
              "no reachable panic inside the Merkle module when driven by the server (%d obligations)" % len(mine),
              "a tree operation can panic for some sequence of batches: " + (bad8[0]["detail"] if bad8 else ""), bad8[0].get("loc") if bad8 else None)
    ctx.floor("completes", len(mine), 10, "panic obligations inside src/merkle.rs reachable from process_events")
