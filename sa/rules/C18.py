"""C18 — under concurrent multi-worker load every request is answered once, validly (confinement and provisioning)."""
import values
import server_model as sm
from lib import World, is_call, callee_name
from mir import strip_generics, AnchorMissing
from values import fmt

EXPLANATION = """
Schedule-independence is argued statically as non-interference between workers: (1) each worker's UDP socket comes from a bind executed once per
iteration of the spawn loop with reuse_address(true) and reuse_port(true) set before it; (2) no Mutex::lock (or other blocking synchronisation) is reachable
from Server::process_events; the config mutex is taken only in main and in the worker prologue; (3) shared-state inventory: the closure passed to spawn captures
exactly the Arc<Mutex<config>>, the worker's own UdpSocket and the Arc<StatsQueue>; the only statics with interior mutability in the library and the server binary are
listed (KEEP_RUNNING); Server holds a Box<dyn ServerStats> without a Send bound, so it is !Send and the serving state cannot be moved or shared between threads
(confirmed by a compile_fail witness in the thorough tier); no `unsafe impl Send/Sync` exists in the crate.  (4) Per-worker behaviour is C08 + C09; one long-term key for all workers is C10.3.The shared configuration is read-only once it exists: no call takes the `dyn ServerConfig` (or its mutex guard) by &mut, so every worker builds its Server from the same values.
"""
NOT_DECIDED = "kernel distribution of datagrams among the sockets; actual thread schedules"
TRUSTED = ["SO_REUSEPORT semantics", "crossbeam ArrayQueue is a lock-free MPMC queue"]

MAIN = "roughenough_server::main"
SERVER = "roughenough::server::Server"


def run(ctx):
    W = World(ctx)
    P = ctx.prog
    main = ctx.fn(MAIN)
    mev = W.ev(MAIN)
    # ------------------------------------------------------------------ (1) socket provisioning
    bs = ctx.fn("roughenough_server::bind_socket")
    bev = W.ev(bs.path)
    nb = 0
    for bb, t in bs.calls():
        if callee_name(t["fn"].get("path", "")) == "bind":
            nb += 1
            recv = bev.call_args(bb)[0]
            flags = {}
            for s in values.subterms(recv):
                if is_call(s) and callee_name(s[1]) in ("reuse_port", "reuse_address"):
                    flags[callee_name(s[1])] = s[2][1]
            ctx.check("socket-provisioning", "reuse-flags-before-bind", flags.get("reuse_port") == ("int", 1) and flags.get("reuse_address") == ("int", 1),
                      "bind on a builder with reuse_address(true) and reuse_port(true)", "worker sockets are bound with flags %s" % {k: fmt(v) for k, v in flags.items()}, bs.loc(bb))
            addr = bev.call_args(bb)[1]
            if not values.contains(addr, lambda s: is_call(s) and s[1].endswith("udp_socket_addr")):
                # the address resolved by the caller and passed in: every call site must pass config.udp_socket_addr()
                cands = []
                for (cp, cbb) in P.callers(bs.path):
                    cargs = [W.expand(x) for x in W.ev(cp).call_args(cbb)]
                    cands.append(W.expand(W.bind_params(addr, bs.path, cargs)))
                if cands and all(values.contains(c, lambda s: is_call(s) and s[1].endswith("udp_socket_addr")) for c in cands):
                    addr = cands[0]
            ctx.check("socket-provisioning", "bound-to-configured-address", values.contains(addr, lambda s: is_call(s) and s[1].endswith("udp_socket_addr")),
                      "bound to config.udp_socket_addr()", "bound to %s" % fmt(addr), bs.loc(bb))
    ctx.floor("socket-provisioning", nb, 1, "bind calls in bind_socket")
    from lib import spawn_contexts
    sctx = spawn_contexts(ctx, W)
    spawns = [(d["main_bb"], d["term"]) for d in sctx if d["main_bb"] is not None]
    worker = [d for d in sctx if d["looped"]]
    if len(worker) != 1:
        raise AnchorMissing("one worker spawn inside the spawn loop")
    wd = worker[0]
    wf, wev, sb, st = wd["fn"], wd["ev"], wd["bb"], wd["term"]
    binds = [bb for bb, t in wf.calls() if bb in wd["body"] and strip_generics(t["fn"].get("path", "")).endswith("bind_socket")]
    ctx.check("socket-provisioning", "one-socket-per-worker", len(binds) == 1 and wf.dominates(binds[0], sb), "each iteration binds a fresh socket for its worker",
              "workers do not each get their own socket", wf.loc(sb))
    clos = [c for c in st.get("closures", []) if not c.startswith("fn:")]
    entry = P.fns.get(clos[0]) if clos else None
    if entry is None:
        raise AnchorMissing("worker entry closure")
    def captured(clo):
        """the values a closure term captures; a captured value of a small local struct (`WorkerContext { cfg, socket, queue }`) stands for its fields"""
        out = []
        for x in clo[2]:
            x0 = values.strip_payload(x)
            if isinstance(x0, tuple) and len(x0) >= 3 and x0[0] == "agg" and isinstance(x0[1], str) and x0[1].rsplit("::", 1)[0] in P.adts and x0[1].startswith("roughenough_server::"):
                out.extend(x0[2])
            else:
                out.append(x)
        return out
    # the socket captured is this iteration's bind result
    cterm = wev.call_args(sb)[1]
    okcap = cterm[0] == "closure" and any(values.strip_payload(x) == wev.call_term(binds[0]) for x in captured(cterm)) if binds else False
    ctx.check("socket-provisioning", "closure-captures-this-iterations-socket", okcap, "the worker closure captures the socket bound in the same iteration",
              "the worker closure captures %s" % fmt(cterm), wf.loc(sb))

    # every socket bound to the serving address is read by a worker: with SO_REUSEPORT the kernel spreads datagrams over ALL sockets of the
    # group, so a socket that is bound and kept alive without a thread reading it silently swallows its share of the requests
    BIND = "roughenough_server::bind_socket"
    binders = {BIND}
    changed = True
    while changed:
        changed = False
        for f in P.fns.values():
            if f.path in binders or not f.path.startswith("roughenough_server"):
                continue
            r = W.ev(f.path).ret()
            if "UdpSocket" in f.locals[0]["ty"] and values.contains(r, lambda x: is_call(x) and strip_generics(x[1]) in binders):
                binders.add(f.path)
                changed = True
    nserve = 0
    for f in P.fns.values():
        if f.path in binders or f.derived:
            continue
        fev = None
        for bb, t in f.calls():
            if strip_generics(t["fn"].get("path", "")) not in binders:
                continue
            nserve += 1
            fev = fev or W.ev(f.path)
            ct = fev.call_term(bb)
            handed = False
            for sb2, t2 in f.calls():
                nm = callee_name(t2["fn"].get("path", ""))
                a2 = fev.call_args(sb2)
                if nm in ("spawn", "spawn_unchecked", "spawn_scoped") and "thread" in t2["fn"].get("path", ""):
                    if any(x[0] == "closure" and any(values.strip_payload(u) == ct for u in captured(x)) for x in a2 if isinstance(x, tuple) and x):
                        handed = True
                elif nm == "drop" and a2 and values.strip_payload(a2[0]) == ct and all(f.dominates(sb2, s3) or not f.reaches(sb2, s3) for s3, _t in spawns):
                    handed = True
                elif strip_generics(t2["fn"].get("path", "")).endswith("Server::new") and any(values.strip_payload(x) == ct for x in a2):
                    handed = True
            if not handed:
                # closed when its scope ends, before any worker is started
                from lib import value_holders, normal_drops
                dbl = normal_drops(f, value_holders(f, bb))
                sp_here = [s3 for s3, _t in spawns] if f.path == main.path else []
                if dbl and all(values.must_pass(f, dbl, from_block=f.succ(bb)[0], to_blocks={s3}) for s3 in sp_here if f.reaches(bb, s3)) and \
                        (sp_here or values.must_pass(f, dbl, from_block=f.succ(bb)[0])):
                    handed = True
            k = "%s/bound-socket-%d" % (f.path.split("::")[-1], len([i for i in ctx.instances if i["rule"] == "socket-provisioning" and "/bound-socket-" in i["key"]]) + 1)
            ctx.check("socket-provisioning", k, handed, "the socket bound here is moved into a worker thread (or closed before the workers start)",
                      "%s binds a socket to the serving address that no worker thread receives: the kernel still delivers a share of the requests to it and they are never answered" % f.path,
                      f.loc(bb))
    ctx.floor("socket-provisioning", nserve, 1, "calls that bind a serving socket")

    # ------------------------------------------------------------------ (2) no blocking lock in the serving loop
    reach, ext, parent = P.reach([sm.PROCESS])
    blocking = [e for e in ext if any(x in e for x in ("Mutex", "RwLock", "Condvar", "mpsc::", "Barrier", "::park", "thread::sleep", "JoinHandle"))]
    ctx.check("no-blocking-in-serving-loop", "process_events", not blocking, "nothing reachable from process_events locks, waits or sleeps (%d functions, %d external callees)" % (len(reach), len(ext)),
              "the serving loop can block on %s (chain %s)" % (blocking[:2], [P.chain(parent, b) for b in blocking[:1]]), ctx.loc(P.fns[sm.PROCESS]))
    lockers = sorted({f.path for f in P.fns.values() for bb, t in f.calls() if callee_name(t["fn"].get("path", "")) == "lock" and "Mutex" in t["fn"].get("path", "")
                      and not f.path.startswith("roughenough_client") and not f.path.startswith("roughenough_kms")})
    allowed = {MAIN, "roughenough_server::polling_loop", "roughenough_server::bind_socket"}
    ctx.check("no-blocking-in-serving-loop", "who-locks-the-config", set(lockers) <= allowed, "the config mutex is locked only in %s" % [x.split("::")[-1] for x in lockers],
              "a mutex is locked in %s" % sorted(set(lockers) - allowed))

    # ------------------------------------------------------------------ (3) shared-state inventory
    caps = []
    for u in entry.upvars:
        ty = u["place"]["ty"]
        a_ = P.adts.get(ty)
        if a_ is not None and ty.startswith("roughenough_server::") and len(a_.get("variants", [])) == 1:
            caps.extend(f_["ty"] for f_ in a_["variants"][0]["fields"])      # a private struct bundling the worker's arguments: its fields are what is captured
        else:
            caps.append(ty)
    caps = sorted(caps)
    def kind(ty):
        if ty.startswith("alloc::sync::Arc<std::sync::") and "Mutex<" in ty and "ServerConfig" in ty:
            return "config"
        if ty == "mio::net::udp::UdpSocket":
            return "own-socket"
        if ty.startswith("alloc::sync::Arc<crossbeam_queue::array_queue::ArrayQueue<"):
            return "stats-queue"
        if ty.replace("&'static ", "&") in ("&core::sync::atomic::Atomic<bool>", "&core::sync::atomic::AtomicBool", "&std::sync::atomic::AtomicBool"):
            # a shared reference to an atomic flag: allowed when it is the shutdown flag itself (the static the workers otherwise read directly)
            from lib import closure_env_terms
            envm = closure_env_terms(W, entry.path)
            if any(v == ("static", "roughenough_server::KEEP_RUNNING") or values.contains(v, lambda s: s == ("static", "roughenough_server::KEEP_RUNNING")) for v in envm.values()):
                return "shutdown-flag"
        return "OTHER:" + ty
    kinds = sorted(kind(c) for c in caps)
    ctx.check("shared-state", "worker-closure-captures", [k for k in kinds if k != "shutdown-flag"] == ["config", "own-socket", "stats-queue"], "worker closure captures exactly: config mutex, its own socket, the stats queue",
              "worker closure captures %s" % kinds, ctx.loc(entry))
    statics = {k: v for k, v in P.items.items() if v["kind"].startswith("Static") and v.get("crate") in ("roughenough", "roughenough_server")}
    mutable = sorted(k for k, v in statics.items() if v.get("mutable_static") or not v.get("freeze", True))
    ctx.check("shared-state", "statics-with-interior-mutability", mutable == ["roughenough_server::KEEP_RUNNING"], "the only mutable static is KEEP_RUNNING (an atomic flag)",
              "mutable statics: %s" % mutable)
    adt = P.adts.get(SERVER)
    dyn = [f for f in adt["variants"][0]["fields"] if "dyn roughenough::stats::ServerStats" in f["ty"]]
    ctx.check("shared-state", "Server-is-not-Send", bool(dyn) and not any("Send" in f["ty"] for f in dyn), "Server owns a Box<dyn ServerStats> without a Send bound: !Send",
              "Server no longer contains a !Send field; serving state could be moved across threads")
    unsafe_impls = [im for im in P.impls if im.get("trait") in ("core::marker::Send", "core::marker::Sync") and im.get("crate") in ("roughenough", "roughenough_server")]
    ctx.check("shared-state", "no-unsafe-impl-Send-Sync", not unsafe_impls, "no manual Send/Sync impls in the crate", "manual Send/Sync impls: %s" % [i["self_ty"] for i in unsafe_impls])
    # Server is constructed inside the worker thread (polling_loop), not in main
    callers = sorted({c[0] for c in P.callers(SERVER + "::new")})
    ctx.check("shared-state", "Server-built-on-its-worker-thread", callers == ["roughenough_server::polling_loop"] and any(q == "roughenough_server::polling_loop" for q, bb in P.callees(entry)),
              "Server::new runs inside the worker thread (polling_loop)", "Server::new is called from %s" % callers)
    # every worker builds its Server from the same configuration object, one after the other under the mutex.  They only get the same long-term
    # key, port and limits if nobody changes that object once the workers exist: no call in the server binary or library takes the shared
    # configuration by `&mut` (after construction it is only ever read)
    muts = []
    for f in P.fns.values():
        if f.path.startswith("roughenough_client") or f.path.startswith("roughenough_kms") or f.derived:
            continue
        for bb, t in f.calls():
            a0 = (t.get("arg_tys") or [""])[0]
            if a0.startswith("&mut") and "ServerConfig" in a0:
                muts.append((f, bb, strip_generics(t["fn"].get("path", ""))))
    ctx.check("shared-state", "shared-config-is-read-only", not muts, "no call takes the shared `dyn ServerConfig` (or its mutex guard) mutably: every worker reads the same configuration",
              "%s takes the shared configuration mutably (%s): a worker that starts later builds its Server from a different configuration than the first one "
              "(another long-term key, port or limit)" % (muts[0][0].path if muts else None, muts[0][2] if muts else None), muts[0][0].loc(muts[0][1]) if muts else None)
    # ------------------------------------------------------------------ (4) per-worker behaviour: the single-worker structure rules of C09 must hold
    import importlib
    from framework import Ctx
    c9 = importlib.import_module("rules.C09")
    sub = Ctx("C09", P, ctx.repo, "quick", ctx.feature)
    c9.run(sub)
    bad = [i for i in sub.instances if not i["ok"]]
    ctx.check("per-worker-behaviour", "one-response-per-request-structure(C09)", not bad, "every worker answers each accepted request exactly once (C09 structure rules hold: %d instances)" % len(sub.instances),
              "a worker does not answer every accepted request exactly once: " + (bad[0]["detail"] if bad else ""), bad[0].get("loc") if bad else None)

    # "no worker dies": the panic obligations of the serving code (C08's analysis, same roots and audited sites) are obligations of C18 too
    c8 = importlib.import_module("rules.C08")
    sub8 = Ctx("C08", P, ctx.repo, "quick", ctx.feature)
    c8.run(sub8)
    bad8 = [i for i in sub8.instances if not i["ok"]]
    ctx.check("per-worker-behaviour", "no-worker-dies(C08)", not bad8, "no reachable panic in a worker's serving code (C08 no-panic obligations hold: %d instances)" % len(sub8.instances),
              "a worker thread can die: " + (bad8[0]["detail"] if bad8 else ""), bad8[0].get("loc") if bad8 else None)

    # thorough: compile-fail witness
    if ctx.tier == "thorough" and ctx.feature == "default":
        import witness
        ok, why = witness.server_not_send(ctx.repo)
        ctx.check("shared-state", "witness/Server-not-Send-compile-fail", ok, why, "compile-fail witness: " + why)
