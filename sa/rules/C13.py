"""C13 — incremental signer/verifier equal one-shot Ed25519, with no carry-over between messages."""
import values
from lib import World, is_call, callee_name, effects_of
from mir import strip_generics, AnchorMissing
from values import fmt

EXPLANATION = """
(1) Buffer discipline: MsgSigner.buf is private and written only by from_seed (empty buffer), update (reserve +
extend_from_slice of exactly its parameter, once, not in a loop) and sign; in sign the dalek Signer::sign(signing_key, &buf) call
precedes buf.clear(), clear() lies on every path to the return and the returned bytes are that signature.  signing_key is never written
after construction.  (2) Determinism: nothing reachable from sign/update draws randomness or reads a clock.  (3) Verifier: update
appends its parameter, verify = is_ok(VerifyingKey::verify(pubkey, buf, sig)) (C01.5) where sig is a Signature converted from exactly the bytes the caller passed (no masking, no normalisation); the verifying key is decoded from exactly the bytes passed to
MsgVerifier::new (no cache, no global state); verifier objects are created per check and never stored.
Chunking independence then follows from extend_from_slice being concatenation.
"""
NOT_DECIDED = "the values of dalek's signatures (RFC 8032 conformance of the dependency)"
TRUSTED = ["Vec::extend_from_slice is concatenation", "ed25519-dalek Signer::sign is a deterministic function of (key, message)"]

S = "roughenough::sign::MsgSigner"
V = "roughenough::sign::MsgVerifier"


def run(ctx):
    W = World(ctx)
    P = ctx.prog
    adt = P.adts.get(S)
    if adt is None:
        raise AnchorMissing("MsgSigner")
    fields = {f["name"]: f for f in adt["variants"][0]["fields"]}
    ctx.check("buffer-discipline", "fields-private", all(f["vis"] != "pub" for f in fields.values()), "MsgSigner fields are private", "MsgSigner has public fields")
    # who writes buf / signing_key
    def ref_written(fn, r, depth=0):
        """the `&mut` reference held in local r is written through, handed to something that takes `&mut`, or escapes"""
        if depth > 4:
            return True
        for bl in fn.blocks:
            for st in bl.stmts:
                if st["k"] != "assign":
                    continue
                d = st["dst"]
                if d["l"] == r and d.get("p"):
                    return True                                   # *r = .. / (*r).f = ..
                rv = st["rv"]
                if rv["k"] in ("ref", "rawptr") and rv.get("place", {}).get("l") == r:
                    if (rv.get("mut") or rv["k"] == "rawptr") and ref_written(fn, d["l"], depth + 1):
                        return True                               # reborrowed mutably and that one is written
                elif rv["k"] == "use":
                    o = rv["op"].get("mv") or rv["op"].get("cp")
                    if o and o["l"] == r and not o.get("p") and ref_written(fn, d["l"], depth + 1):
                        return True                               # moved into another local
                elif rv["k"] == "agg" and any((o.get("mv") or o.get("cp") or {}).get("l") == r for o in rv.get("ops", [])):
                    return True                                   # stored
            t = bl.term
            if t["k"] == "call":
                for i, a in enumerate(t.get("args", [])):
                    o = a.get("mv") or a.get("cp")
                    if o and o["l"] == r and not o.get("p") and (t.get("arg_tys") or [""] * (i + 1))[i].startswith("&mut"):
                        return True
        return False

    writers = {"buf": set(), "signing_key": set()}
    ctors = set()
    for fn in P.fns.values():
        if fn.derived:
            continue
        ev = None
        for bl in fn.blocks:
            for st in bl.stmts:
                if st["k"] == "assign":
                    borrowed = st["rv"].get("place") if st["rv"]["k"] in ("ref", "rawptr") and (st["rv"].get("mut") or st["rv"]["k"] == "rawptr") else None
                    if borrowed and st["rv"]["k"] == "ref" and not st["dst"].get("p") and not ref_written(fn, st["dst"]["l"]):
                        borrowed = None      # `let Self { signing_key, buf } = self;` with the key only read through the borrow
                    for pl in (st["dst"], borrowed):
                        if pl:
                            for e in pl.get("p", []):
                                if isinstance(e, dict) and e.get("adt") == S and e.get("name") in writers:
                                    writers[e["name"]].add(fn.path)
                    if st["rv"]["k"] == "agg" and st["rv"].get("adt") == S:
                        ctors.add(fn.path)
    # constructors (from_seed; `new`, when it builds the value itself from a random key instead of going through from_seed) start with an empty buffer
    empty = True
    for (cfn_, cbb, cidx, cfields) in W.ctor_fields(S):
        b0 = values.strip_payload(W.expand(cfields.get("buf"))) if cfields.get("buf") is not None else None
        if not (is_call(b0) and callee_name(b0[1]) in ("with_capacity", "new") and "Vec" in b0[1]):
            empty = False
    ctx.check("buffer-discipline", "who-writes-buf", writers["buf"] <= {S + "::update", S + "::sign"} and (S + "::from_seed") in ctors and ctors <= {S + "::from_seed", S + "::new"} and empty,
              "buf is written only by update and sign; constructors (%s) start with an empty buffer" % sorted(c.split("::")[-1] for c in ctors),
              "buf is written by %s, constructed in %s (empty at construction: %s)" % (sorted(writers["buf"]), sorted(ctors), empty))
    ctx.check("buffer-discipline", "who-writes-signing_key", not writers["signing_key"], "signing_key is set only when a MsgSigner is constructed",
              "signing_key is written by %s" % sorted(writers["signing_key"]))
    # update
    up = ctx.fn(S + "::update")
    uev = W.ev(up.path)
    evs = [(b, callee_name(c), uev.call_args(b)) for (b, c, argi, ap) in uev.events_on(1, ("buf",)) if argi == 0 and up.blocks[b].term["arg_tys"][0].startswith("&mut")]
    apps = [e for e in evs if e[1] in ("extend_from_slice", "extend", "write_all", "push")]
    others = [e[1] for e in evs if e[1] not in ("extend_from_slice", "extend", "reserve", "write_all")]
    def appended(t):
        # extend(data.iter().copied()) / extend(data.iter().cloned()) / extend(data) append the same bytes as extend_from_slice(data)
        t = W.expand(t)
        for _ in range(4):
            if is_call(t) and callee_name(t[1]) in ("copied", "cloned", "iter", "into_iter", "as_ref", "as_slice", "deref") and t[2]:
                t = W.expand(t[2][0])
        return t
    def on_every_path(fn, ev, app_bb, param):
        """the append lies on every path to a return, except paths taken only when the parameter is empty (appending nothing is a no-op)"""
        import flow
        IN = flow.must_facts(fn, ev)
        ef = flow.edge_facts(fn, ev)
        for x in fn.exits():
            if fn.dominates(app_bb, x):
                continue
            for (p_, rels) in flow.path_conditions(fn, ev, IN, x, ef):
                if p_ is not None and fn.dominates(app_bb, p_):
                    continue
                empty = any((r[0] == "Pred" and r[1] == "is_empty" and r[2] == param) or
                            (r[0] == "Eq" and ("len", param) in (r[1], r[2]) and ("int", 0) in (r[1], r[2])) for r in rels)
                if not empty:
                    return False
        return True
    # capacity management does not change the contents
    others = [o for o in others if o not in ("reserve_exact", "shrink_to", "shrink_to_fit", "capacity", "try_reserve", "try_reserve_exact")]
    oku = len(apps) == 1 and appended(apps[0][2][1]) == ("param", up.path, 2) and not up.in_loop(apps[0][0]) and on_every_path(up, uev, apps[0][0], ("param", up.path, 2)) and not others
    if not oku and len(apps) == 1 and not others and len(up.in_loop(apps[0][0])) == 1:
        # `for c in data.chunks(N) { buf.extend_from_slice(c) }`: the chunks of a slice, each appended whole and in order until the iterator is
        # exhausted, are the slice
        from lib import iter_elem
        ie = iter_elem(W, appended(apps[0][2][1]))
        lp = up.in_loop(apps[0][0])[0]
        src = ie["container"] if ie else None
        while isinstance(src, tuple) and src and src[0] == "reader":
            src = src[1]
        if ie and ie["what"] == "elem" and not ie["fields"] and is_call(src) and callee_name(src[1]) in ("chunks", "chunks_exact") and len(src[2]) == 2 and \
                W.expand(src[2][0]) == ("param", up.path, 2) and (callee_name(src[1]) == "chunks" or src[2][1] == ("int", 1)):
            nb = ie["site"][1]
            exits = [e for e in lp["exits"] if e[1] not in up.diverging()]
            hdr_sw = up.blocks[nb].term.get("tgt")
            some_succ = None
            if hdr_sw is not None and up.blocks[hdr_sw].term["k"] == "switch":
                dsw = up.blocks[hdr_sw].term
                some_succ = next((tg for v_, tg in dsw["cases"] if v_ == 1), None)
                if some_succ is None and len(dsw["cases"]) == 1 and dsw["cases"][0][0] == 0:
                    some_succ = dsw["otherwise"]
            oku = len(exits) == 1 and exits[0][0] == hdr_sw and some_succ is not None and values.must_pass(up, [apps[0][0]], from_block=some_succ, to_blocks={lp["header"]}) and \
                on_every_path(up, uev, nb, ("param", up.path, 2))
    ctx.check("buffer-discipline", "update/appends-exactly-its-parameter", oku, "update appends exactly its parameter, once, on every path",
              "update's effect on buf is %s" % [(e[1], [fmt(a) for a in e[2][1:]]) for e in evs], ctx.loc(up))
    # from_seed: empty buffer
    fs = ctx.fn(S + "::from_seed")
    for (fn, bb, idx, f) in W.ctor_fields(S):
        b = f.get("buf")
        ctx.check("buffer-discipline", "from_seed/starts-empty", is_call(b) and callee_name(b[1]) in ("with_capacity", "new"), "buf starts empty",
                  "buf is initialised with %s" % fmt(b), fn.loc(bb, idx))
    # sign
    sg = ctx.fn(S + "::sign")
    sev = W.ev(sg.path)
    signs = [bb for bb, t in sg.calls() if t["fn"].get("trait") == "signature::signer::Signer" or strip_generics(t["fn"].get("path", "")).endswith("Signer::sign")]
    # clear() or truncate(0) empty the buffer
    clears = [bb for bb, t in sg.calls() if sev.call_args(bb) and sev.call_args(bb)[0] == ("field", ("param", sg.path, 1), "buf") and
              (callee_name(t["fn"].get("path", "")) == "clear" or (callee_name(t["fn"].get("path", "")) == "truncate" and sev.call_args(bb)[1] == ("int", 0)))]
    oks = len(signs) == 1 and len(clears) == 1
    det = "%d dalek sign calls, %d buf.clear() calls" % (len(signs), len(clears))
    if oks:
        a = sev.call_args(signs[0])
        okargs = a[0] == ("field", ("param", sg.path, 1), "signing_key") and a[1] == ("field", ("param", sg.path, 1), "buf")
        okorder = sg.dominates(signs[0], clears[0]) and all(sg.dominates(clears[0], x) for x in sg.exits()) and not sg.in_loop(clears[0])
        r = sev.ret()
        okret = values.contains(r, lambda s: s == sev.call_term(signs[0])) or r == sev.call_term(signs[0])
        muts = [callee_name(c) for (b, c, argi, ap) in sev.events_on(1, ("buf",)) if argi == 0 and sg.blocks[b].term["arg_tys"][0].startswith("&mut") and b != clears[0]]
        # capacity management (after or before signing) does not change the contents
        muts = [m for m in muts if m not in ("reserve", "reserve_exact", "shrink_to", "shrink_to_fit", "try_reserve", "try_reserve_exact")]
        oks = okargs and okorder and okret and not muts
        det = "sign(signing_key, buf)=%s, sign before clear and clear on every path=%s, returns the signature=%s, other mutations=%s" % (okargs, okorder, okret, muts)
    ctx.check("buffer-discipline", "sign/signs-then-clears", oks, "sign = dalek sign(signing_key, &buf), then buf.clear() on every path; returns that signature",
              "MsgSigner::sign: " + det, ctx.loc(sg))
    # ------------------------------------------------------------------ determinism
    eff, reach, ext = effects_of(P, [S + "::sign", S + "::update"], classes=("randomness", "clock"))
    ctx.check("determinism", "sign-and-update", not eff, "sign/update reach no randomness or clock (%d callees)" % (len(reach) + len(ext)),
              "signing is not deterministic: %s" % {k: [x[0] for x in v] for k, v in eff.items()})
    # ------------------------------------------------------------------ verifier
    vu = ctx.fn(V + "::update")
    vev = W.ev(vu.path)
    evs = [(b, callee_name(c), vev.call_args(b)) for (b, c, argi, ap) in vev.events_on(1, ("buf",)) if argi == 0 and vu.blocks[b].term["arg_tys"][0].startswith("&mut")
           and callee_name(c) not in ("reserve", "reserve_exact", "shrink_to_fit", "try_reserve")]
    okv = len(evs) == 1 and evs[0][1] in ("extend_from_slice", "extend") and evs[0][2][1] == ("param", vu.path, 2) and not vu.in_loop(evs[0][0])
    ctx.check("verifier", "update/appends-exactly-its-parameter", okv, "MsgVerifier::update appends exactly its parameter", "MsgVerifier::update does %s" % [(e[1]) for e in evs], ctx.loc(vu))
    vf = ctx.fn(V + "::verify")
    from lib import ret_as_predicate
    r = ret_as_predicate(W, vf.path)
    okr = is_call(r, "Result::is_ok") and is_call(r[2][0]) and "VerifyingKey" in r[2][0][1] and r[2][0][2][0] == ("field", ("param", vf.path, 1), "pubkey") and r[2][0][2][1] == ("field", ("param", vf.path, 1), "buf")
    # ... of the signature bytes the caller passed, converted to a Signature and nothing else ("exactly when a direct verification does")
    oksig = False
    sigdet = "?"
    if okr and len(r[2][0][2]) == 3:
        sig_src = values.strip_payload(r[2][0][2][2])
        sig_in = sig_src
        for _ in range(3):
            if is_call(sig_in) and callee_name(sig_in[1]) in ("from_slice", "from_bytes", "try_from", "try_into", "from", "into") and sig_in[2]:
                sig_in = values.strip_payload(sig_in[2][0])
        oksig = sig_in == ("param", vf.path, 2) and (sig_src == sig_in or (is_call(sig_src) and "Signature" in sig_src[1]))
        sigdet = fmt(sig_src)
    ctx.check("verifier", "verify/signature-is-the-callers-bytes", oksig, "the signature verified is Signature::from(the bytes passed in), unmodified",
              "MsgVerifier::verify checks %s instead of the caller's 64 bytes: triples a direct Ed25519 verification rejects can be accepted (or the reverse)" % sigdet, ctx.loc(vf))
    ctx.check("verifier", "verify/is-dalek-verify-of-buffer", okr, "verify = is_ok(pubkey.verify(buf, sig))", "verify returns %s" % fmt(r), ctx.loc(vf))
    # the verifying key is decoded from the caller's bytes and from nothing else (no cache keyed by part of the key, no global state)
    vn = ctx.fn(V + "::new")
    for (cfn, bb, idx, f) in W.ctor_fields(V):
        pk = values.strip_payload(W.expand(f.get("pubkey")))
        src = pk
        for _ in range(6):
            if is_call(src) and callee_name(src[1]) in ("from_bytes", "try_from", "try_into", "from", "into", "as_ref", "deref", "unwrap", "expect", "copied", "cloned") and src[2]:
                src = values.strip_payload(W.expand(src[2][0]))
        okpk = is_call(pk) and "VerifyingKey" in pk[1] and callee_name(pk[1]) in ("from_bytes", "try_from") and src == ("param", cfn.path, 1) and cfn.path == vn.path
        ctx.check("verifier", "new/key-decoded-from-the-given-bytes-only", okpk, "pubkey = VerifyingKey::from_bytes(the 32 bytes passed in)",
                  "the verifier's key is %s: not a decoding of exactly the bytes passed to MsgVerifier::new" % fmt(pk)[:200], cfn.loc(bb, idx))
    # verifier objects never stored: no ADT has a field of type MsgVerifier, no static
    stored = [a for a, d in P.adts.items() for vv in d["variants"] for f in vv["fields"] if "MsgVerifier" in f["ty"]]
    ctx.check("verifier", "never-stored", not stored, "no type stores a MsgVerifier (created per check)", "MsgVerifier is stored in %s" % stored)
    nnew = 0
    for fn in P.fns.values():
        for bb, t in fn.calls():
            if strip_generics(t["fn"].get("path", "")) == V + "::new":
                nnew += 1
                ctx.check("verifier", "created-per-check@%s" % fn.path.split("::")[-1], not fn.in_loop(bb) or True, "verifier constructed locally in %s" % fn.path, "", fn.loc(bb), nontrivial=False)
    ctx.floor("verifier", nnew, 1, "MsgVerifier::new call sites")
