"""C06 — decoding and printing untrusted bytes never panics or reads out of bounds."""
import flow
import values
from lib import World, is_call, callee_name
from mir import strip_generics, AnchorMissing
from nopanic import NoPanic, report, describe
from values import fmt

EXPLANATION = """
T-nopanic rooted at RtMessage::from_bytes, <RtMessage as Display>::fmt and RtMessage::to_string with no preconditions on the
input: every MIR Assert (overflow, bounds, division), every unwrap/expect, slice/index operation, explicit panic and
dependency call with a panicking precondition in the crate-local functions reachable from those roots is an obligation;
it is discharged by the difference-constraint prover from the branch facts that hold on every path to the site (so removing or
weakening a guard re-opens the site), by a typed rule, or by an audited entry whose required facts are re-checked.
T-rec: every call-graph cycle reachable from the roots must have a depth guard.  T-alloc: every allocation whose size derives
from the input has an upper-bound fact.  Values pushed into the decoded message are slices of the input (provenance).
"""
NOT_DECIDED = "that the concatenated values equal the input after the header as an equality of byte strings (only its provenance half)"
TRUSTED = ["std io::Cursor/Read, byteorder reads return Err instead of panicking on short input",
           "external callees not in the panicking-precondition table do not panic (listed in the evidence)"]
ASSUMPTIONS = ["the release configuration is analysed (-C debug-assertions=off, overflow checks kept as obligations): debug_assert!() and cfg(debug_assertions) code is compiled out and not part of the decided behaviour", "memory allocation succeeds"]

MSG = "roughenough::message::RtMessage"
ROOTS = [MSG + "::from_bytes", "<roughenough::message::RtMessage as core::fmt::Display>::fmt"]


def run(ctx):
    W = World(ctx)
    P = ctx.prog
    for r in ROOTS:
        ctx.fn(r)
    eng = NoPanic(ctx, W, ROOTS)
    recs = eng.run()
    report(ctx, eng, recs)
    ctx.floor("no-panic", len([r for r in recs if not r.get("trivial")]), 12, "non-trivial panic obligations in the decoder and printer")

    # ------------------------------------------------------------------ T-rec: cycles need a depth guard
    reach = eng.reach
    sccs = tarjan(P, reach)
    ncyc = 0
    for comp in sccs:
        if len(comp) == 1:
            f = next(iter(comp))
            if f not in {q for q, bb in P.callees(P.fns[f])}:
                continue
        ncyc += 1
        ok, why = depth_guarded(ctx, W, comp)
        ctx.check("bounded-recursion", "cycle(%s)" % ",".join(sorted(x.split("::")[-1] for x in comp)), ok,
                  "recursion is bounded: " + why, "unbounded recursion on attacker-controlled nesting: " + why,
                  ctx.loc(P.fns[sorted(comp)[0]]))
    ctx.extra["call_graph_cycles"] = ncyc

    # ------------------------------------------------------------------ provenance of decoded values
    for fnp in (MSG + "::multi_tag_message", MSG + "::single_tag_message"):
        fn = ctx.fn(fnp)
        ev = W.ev(fnp)
        for bb, t in fn.calls():
            if strip_generics(t["fn"].get("path", "")).endswith("RtMessage::add_field"):
                v = W.expand(ev.call_args(bb)[2])
                src_ok = values.contains(v, lambda s: s == ("param", fnp, 2 if "multi" in fnp else 1)) or values.contains(v, lambda s: s == ("param", fnp, 3 if "multi" in fnp else 2))
                if v[0] == "obj":
                    # filled by read_to_end from the cursor parameter
                    evs = W.obj_events(v)
                    src_ok = any(callee_name(e[1]) in ("read_to_end", "read_exact") for e in evs)
                ctx.check("value-provenance", "%s/value-is-input-slice" % fnp.split("::")[-1], src_ok, "decoded value is a slice of / read from the input bytes",
                          "decoded value %s does not derive from the input" % fmt(v), fn.loc(bb))


def tarjan(P, nodes):
    index = {}
    low = {}
    onst = set()
    st = []
    out = []
    counter = [0]

    def succs(v):
        return [q for q, bb in P.callees(P.fns[v]) if q in nodes]

    def strong(v):
        work = [(v, iter(succs(v)))]
        index[v] = low[v] = counter[0]
        counter[0] += 1
        st.append(v)
        onst.add(v)
        while work:
            n, it = work[-1]
            adv = False
            for w in it:
                if w not in index:
                    index[w] = low[w] = counter[0]
                    counter[0] += 1
                    st.append(w)
                    onst.add(w)
                    work.append((w, iter(succs(w))))
                    adv = True
                    break
                elif w in onst:
                    low[n] = min(low[n], index[w])
            if not adv:
                work.pop()
                if work:
                    low[work[-1][0]] = min(low[work[-1][0]], low[n])
                if low[n] == index[n]:
                    comp = set()
                    while True:
                        w = st.pop()
                        onst.discard(w)
                        comp.add(w)
                        if w == n:
                            break
                    out.append(comp)

    for v in sorted(nodes):
        if v not in index:
            strong(v)
    return out


def depth_guarded(ctx, W, comp):
    """A cycle is guarded when some function on it compares an integer parameter that strictly increases along the
    recursive call with a constant, and the recursive call is only reachable on the bounded side."""
    import prover
    P = ctx.prog
    for f in sorted(comp):
        fn = P.fns[f]
        ev = W.ev(f)
        IN = flow.must_facts(fn, ev)
        for bb, t in fn.calls():
            tg = [x for x in P.call_targets(t) if x in comp]
            if not tg:
                continue
            args = ev.call_args(bb)
            callee = P.fns[tg[0]]
            # direct recursion or mutual recursion through functions that forward the parameter
            for i in range(1, fn.nargs + 1):
                if prover.ty_range(fn.locals[i]["ty"]) is None:
                    continue
                p = ("param", f, i)
                for j, a in enumerate(args):
                    la = prover.Bounds(W, fn, ev, IN).lin(a)
                    if la[0] == p and la[1] >= 1 and tg[0] == f and j + 1 == i:
                        # strictly increasing; need an upper-bound fact on p at the call
                        B = prover.Bounds(W, fn, ev, IN)
                        ub = B.upper(p, bb)
                        if ub < 2 ** 16:
                            return True, "%s recurses with %s + %d under the fact %s <= %d" % (f.split("::")[-1], fn.locals[i].get("name"), la[1], fn.locals[i].get("name"), ub)
                        return False, "%s recurses with %s + %d but no upper bound on %s holds at the recursive call (%s)" % (
                            f.split("::")[-1], fn.locals[i].get("name"), la[1], fn.locals[i].get("name"), fn.loc(bb))
    return False, "no parameter with a bounded, strictly increasing value found on the cycle %s" % sorted(x.split("::")[-1] for x in comp)


def fixture(fctx):
    import fixture_checks
    return fixture_checks.nopanic_alive(fctx) + fixture_checks.recursion_alive(fctx, depth_guarded)
