"""C11 — signed midpoint is the server clock in the protocol's unit with a 5 s radius."""
import values
import server_model as sm
from lib import World, is_call, callee_name, le_written, arith_eval, NotArith, uncast, VERSION, VERSIONS
from framework import spec
from mir import strip_generics, AnchorMissing
from values import Ev, fmt

EXPLANATION = """
Per version (make_srep specialised on Version): (1) the MIDP value, as an extracted arithmetic expression over
as_secs(d) and subsec_nanos(d) with d = now.duration_since(UNIX_EPOCH), equals secs*U + floor(nanos*U/10^9) for U the protocol's units per
second (10^6 classic, 1 IETF) on a grid of clock values (expression equivalence, truncation toward zero); RADI is the constant
5*U; (2) `now` is the make_srep parameter, bound at the single call site to SystemTime::now() called once per batch outside the per-request loop;
(3) MIDP is written with write_u64::<LittleEndian> into an 8-byte field and RADI with write_u32::<LittleEndian> into a 4-byte field, added under
their own tags inside the signed message.
"""
NOT_DECIDED = "the clock itself; bracketing by an external clock"
TRUSTED = ["std Duration::as_secs / subsec_nanos", "byteorder"]


def run(ctx):
    W = World(ctx)
    P = ctx.prog
    sp = spec()
    ms = ctx.fn(sm.MAKE_SREP)
    for v in VERSIONS:
        U = sp["versions"][v]["midp_unit_per_second"]
        ev = Ev(P, ms, binds={2: ("enum", VERSION, v)})
        live = ev.live()
        fields = {}
        for bb, t in ms.calls():
            if bb in live and strip_generics(t["fn"].get("path", "")).endswith("RtMessage::add_field"):
                a = ev.call_args(bb)
                from lib import tag_of
                if tag_of(a[1]) in ("MIDP", "RADI"):
                    fields[tag_of(a[1])] = (a[2], bb, a[0])
        for tg, width in (("MIDP", 8), ("RADI", 4)):
            if tg not in fields:
                ctx.violation("encoding", "%s/%s-present" % (v, tg), "%s is not added to the signed response for %s" % (tg, v), ctx.loc(ms))
                continue
            val, bb, msgobj = fields[tg]
            w = le_written(W, val)
            ok = w is not None and w["size"] == width and w["width"] == width and w["endian"] == "LittleEndian" and not w["signed"]
            ctx.check("encoding", "%s/%s-little-endian-u%d" % (v, tg, width * 8), ok, "%s = u%d LE in a %d-byte field" % (tg, width * 8, width),
                      "%s is encoded as %s" % (tg, w), ms.loc(bb))
            if not ok:
                continue
            # the value written (evaluate under the version: re-evaluate the write's operand with this ev)
            wb = w["bb"]
            wargs = ev.call_args(wb)
            vt = wargs[0] if callee_name(ms.blocks[wb].term["fn"].get("path", "")).startswith("to_") else wargs[1]
            if tg == "RADI":
                want = sp["versions"][v]["radius_value"]
                vv = ev.resolve(vt)
                ctx.check("units", "%s/RADI" % v, vv == ("int", want) and want == sp["common"]["radius_seconds"] * U, "RADI = %d (= 5 s in units of 1/%d s)" % (want, U),
                          "RADI for %s is %s, expected %d" % (v, fmt(vv), want), ms.loc(wb))
            else:
                expr = ev.resolve(vt)
                # inline crate-local helper
                # find leaves: as_secs(d) and subsec_nanos(d)
                secs = [s for s in values.subterms(expr) if is_call(s, "Duration::as_secs")]
                nanos = [s for s in values.subterms(expr) if is_call(s, "Duration::subsec_nanos")]
                derived = {"as_micros": lambda S, N: S * 10 ** 6 + N // 1000, "as_millis": lambda S, N: S * 1000 + N // 10 ** 6,
                           "as_nanos": lambda S, N: S * 10 ** 9 + N, "subsec_micros": lambda S, N: N // 1000, "subsec_millis": lambda S, N: N // 10 ** 6}
                others = [s for s in values.subterms(expr) if is_call(s) and callee_name(s[1]) in derived and "Duration" in s[1]]
                bad = None
                try:
                    for S, Nn in ((0, 0), (1, 0), (0, 999), (0, 1000), (1, 999999999), (1759400000, 123456789), (7258118400, 500000000), (253402300799, 999999999)):
                        env = {}
                        for s in secs:
                            env[s] = S
                        for n in nanos:
                            env[n] = Nn
                        for o in others:
                            env[o] = derived[callee_name(o[1])](S, Nn)
                        got = arith_eval(expr, env)
                        want = S * U + (Nn * U) // 10 ** 9
                        if got != want:
                            bad = "clock %d.%09d s -> %d, expected %d" % (S, Nn, got, want)
                            break
                except NotArith as e:
                    bad = "not plain arithmetic over as_secs/subsec_nanos (%s): %s" % (e, fmt(expr))
                ctx.check("units", "%s/MIDP-expression" % v, bad is None and bool(secs or others), "MIDP = secs*%d + nanos*%d/10^9 (truncating)" % (U, U),
                          "MIDP for %s is wrong: %s" % (v, bad or "does not use as_secs()"), ms.loc(wb))
                # d = duration_since(now param, epoch)
                ds = set()
                for s in secs + nanos + others:
                    ds.add(values.strip_payload(s[2][0]))
                okd = len(ds) == 1 and is_call(next(iter(ds)), "SystemTime::duration_since") and next(iter(ds))[2][0] == ("param", ms.path, 3)
                ctx.check("clock", "%s/MIDP-from-now-parameter" % v, okd, "MIDP is computed from the `now` parameter's duration since the epoch only",
                          "MIDP derives from %s" % [fmt(d) for d in ds], ms.loc(wb))
    # one clock reading per batch
    sr = ctx.fn(sm.SEND)
    sev = W.ev(sr.path)
    nows = [bb for bb, t in sr.calls() if strip_generics(t["fn"].get("path", "")).endswith("SystemTime::now")]
    calls = [bb for bb, t in sr.calls() if sm.MAKE_SREP in P.call_targets(t)]
    ok = len(nows) == 1 and len(calls) == 1 and not sr.in_loop(nows[0]) and not sr.in_loop(calls[0]) and sev.call_args(calls[0])[2] == sev.call_term(nows[0])
    ctx.check("clock", "one-reading-per-batch", ok, "SystemTime::now() is read once per batch, outside the per-request loop, and passed to make_srep",
              "clock is read %d times (in loop: %s); make_srep calls: %d" % (len(nows), [bool(sr.in_loop(b)) for b in nows], len(calls)), ctx.loc(sr))
    # every response of the batch carries the SREP signed in this invocation (not one kept from an earlier batch, whose midpoint is an older reading)
    mrs = [bb for bb, t in sr.calls() if sm.MAKE_RESPONSE in P.call_targets(t)]
    for mb in mrs:
        a = [W.expand(x) for x in sev.call_args(mb)]
        mrf = P.fns.get(sm.MAKE_RESPONSE)
        if mrf is not None and mrf.nargs >= 1 and "Responder" not in mrf.locals[1]["ty"]:
            a = [None] + a          # an associated function without `self`: every argument counts
        srep_args = [x for x in a[1:] if values.contains(x, lambda y: is_call(y) and sm.MAKE_SREP.endswith(strip_generics(y[1]).split("::")[-1]) and "make_srep" in y[1]) or
                     values.contains(x, lambda y: isinstance(y, tuple) and y and y[0] == "field" and "srep" in str(y[2]).lower())]
        # the SREP message itself, or fields taken from it (`srep.get_field(SIG)` looked up once per batch and passed down)
        ct0 = sev.call_term(calls[0]) if calls else None
        def only_from(x, depth=0):
            """x is this invocation's SREP or a part of it (a field looked up in it, its encoding), on every alternative"""
            if depth > 8 or not isinstance(x, tuple) or not x:
                return False
            if x == ct0:
                return True
            if x[0] == "phi":
                return all(only_from(y, depth + 1) for y in x[1])
            if x[0] == "agg":
                # a small struct / tuple carrying the per-batch values: every component that concerns the SREP must stem from this batch's
                concerns = lambda y: values.contains(y, lambda z: z == ct0 or (isinstance(z, tuple) and z and z[0] == "field" and "srep" in str(z[2]).lower()))
                return any(concerns(y) for y in x[2]) and all(only_from(y, depth + 1) for y in x[2] if concerns(y))
            if x[0] in ("vfield", "field", "variant", "index", "reader", "cast"):
                return only_from(x[1], depth + 1)
            if x[0] == "call" and x[2]:
                rest_const = all(isinstance(y, tuple) and y and y[0] in ("enum", "int", "str", "bytes", "static") for y in x[2][1:])
                return rest_const and only_from(x[2][0], depth + 1)
            return False
        mentions = [x for x in a[1:] if ct0 is not None and values.contains(x, lambda y: y == ct0)]
        from_this = [x for x in mentions if only_from(x)]
        other_srep = [x for x in a[1:] if x not in from_this and (x in mentions or values.contains(x, lambda y: isinstance(y, tuple) and y and y[0] == "field" and "srep" in str(y[2]).lower()))]
        srep_args = other_srep or srep_args
        fresh = bool(from_this) and not other_srep
        ctx.check("clock", "responses-carry-this-batchs-SREP", fresh, "make_response is given the SREP returned by this invocation's make_srep(.., now, ..)",
                  "the SREP put into responses is %s: it can be one signed for an earlier batch, whose midpoint is not the clock reading of this batch" % [fmt(x)[:160] for x in srep_args[:2]], sr.loc(mb))
    ctx.floor("clock", len(mrs), 1, "make_response calls in send_responses")
    others = [c for c in P.callers(sm.MAKE_SREP) if not c[0].startswith("roughenough_") and c[0] != sm.SEND]
    ctx.check("clock", "make_srep-callers", not others, "make_srep is only called from send_responses", "make_srep is also called from %s" % sorted(c[0] for c in others))
