"""C17 — request statistics conserve events, stay bounded, and match the traffic served."""
import flow
import values
import server_model as sm
from lib import World, is_call, callee_name, iter_elem, uncast
from mir import strip_generics, AnchorMissing
from values import fmt
from prover import Bounds

EXPLANATION = """
(1) Per-operation shape, exhaustive over the 8 recording operations x 2 implementations: in PerClientStats every add_* first calls too_many_entries();
on its true edge nothing else is written; on the false edge exactly one entry(addr) is taken and exactly the operation's own counter is incremented by one
(+ bytes_sent += the bytes parameter for responses); AggregatedStats increments the corresponding counter(s) unconditionally.  too_many_entries
increments num_overflows exactly when it returns true.  (2) Operation -> getter matrix: M[op][getter] = (fields written by op) intersects (fields read by getter, closures
included) is identical for both implementations and equals the name-derived specification.  (3) Bound: every insertion into `clients` happens under the fact
clients.len() < max_clients and nothing else inserts.  (4) Merge, exhaustive over the counter fields: ClientStats::merge adds each counter of `other` to the same-named
field of self; receive_client_stats merges every element of every popped vector until the queue is empty.  (5) Wiring: routing arms record the matching request
operation (C09.2); after each send exactly one of add_{classic,rfc}_response(ip, n) with n the Ok value of send_to (by version) or add_failed_send_attempt is
recorded; send_client_stats clears the recorder only after the snapshot was pushed, and re-arms the one-shot status timer on every path.
The reporter's table is written only through entry(addr)..merge (cleared right after report()) and every popped snapshot goes through the merge loop.Receive wiring: every way out of the Ok arm of recv_from (next iteration or return) passes exactly one add_{ietf,classic,invalid}_request, recorded where the
datagram was classified that way and for the sender's IP address.
"""
NOT_DECIDED = "arithmetic totals for a given history (follow from 1-5 by counting); force_push on a full queue evicts an unread snapshot (observation, not a claim)"
TRUSTED = ["HashMap::entry().or_insert_with_key inserts at most one key", "crossbeam ArrayQueue"]
EXHAUSTIVE = True

PC = "roughenough::stats::per_client::PerClientStats"
AG = "roughenough::stats::aggregated::AggregatedStats"
CS = "roughenough::stats::ClientStats"
TRAIT = "roughenough::stats::ServerStats"
OPS = ["add_ietf_request", "add_classic_request", "add_invalid_request", "add_failed_send_attempt", "add_retried_send_attempt", "add_health_check",
       "add_rfc_response", "add_classic_response"]
SPEC = {
    "add_ietf_request": {"total_valid_requests", "num_rfc_requests"},
    "add_classic_request": {"total_valid_requests", "num_classic_requests"},
    "add_invalid_request": {"total_invalid_requests"},
    "add_failed_send_attempt": {"total_failed_send_attempts"},
    "add_retried_send_attempt": {"total_retried_send_attempts"},
    "add_health_check": {"total_health_checks"},
    "add_rfc_response": {"total_responses_sent", "num_rfc_responses_sent", "total_bytes_sent"},
    "add_classic_response": {"total_responses_sent", "num_classic_responses_sent", "total_bytes_sent"},
}
GETTERS = sorted(set().union(*SPEC.values()))


def impl_methods(P, adt):
    for im in P.impls:
        if im.get("trait") == TRAIT and im.get("self_adt") == adt:
            return im["methods"]
    raise AnchorMissing("impl ServerStats for " + adt)


def field_writes(fn, ev, adts):
    out = []
    for bl in fn.blocks:
        if bl.idx not in fn.reachable():
            continue
        for i, st in enumerate(bl.stmts):
            if st["k"] == "assign" and st["dst"].get("p"):
                flds = [e for e in st["dst"]["p"] if isinstance(e, dict) and "f" in e]
                if flds and flds[-1].get("adt") in adts:
                    out.append((flds[-1]["adt"], flds[-1].get("name"), ev.rvalue(st["rv"], (bl.idx, i)), bl.idx, i, st["dst"]))
    return out


def field_reads(P, W, fnpath, adts, depth=0):
    out = set()
    fn = P.fns.get(fnpath)
    if fn is None or depth > 3:
        return out

    def walk(x):
        if isinstance(x, dict):
            if "l" in x and x.get("p"):
                for e in x["p"]:
                    if isinstance(e, dict) and "f" in e and e.get("adt") in adts:
                        out.add((e["adt"], e.get("name")))
            for k, v in x.items():
                if k != "dst":
                    walk(v)
        elif isinstance(x, list):
            for v in x:
                walk(v)
    for bl in fn.blocks:
        for st in bl.stmts:
            walk(st)
        walk({k: v for k, v in bl.term.items() if k != "dst"})
    for q, bb in P.callees(fn):
        if q in P.fns and P.fns[q].kind == "closure":
            out |= field_reads(P, W, q, adts, depth + 1)
        elif q in P.fns and P.fns[q].impl_self == fn.impl_self and q != fnpath:
            # a getter expressed through other getters of the same type reads what they read
            out |= field_reads(P, W, q, adts, depth + 1)
    return out


def run(ctx):
    W = World(ctx)
    P = ctx.prog
    pcm, agm = impl_methods(P, PC), impl_methods(P, AG)
    written = {PC: {}, AG: {}}

    # ------------------------------------------------------------------ (1) per-operation shape
    TME = PC + "::too_many_entries"
    for op in OPS:
        # --- aggregated
        fn = ctx.fn(agm[op])
        ev = W.ev(fn.path)
        ws = field_writes(fn, ev, (AG,))
        incs = {}
        ok = True
        for (adt, f, val, b, i, dst) in ws:
            v = val
            if v[0] == "bin" and v[1] == "Add" and v[2] == ("field", ("param", fn.path, 1), f):
                incs[f] = v[3]
            else:
                ok = False
            if not all(fn.dominates(b, e) for e in fn.exits()) or fn.in_loop(b):
                ok = False
        want_n = 2 if "response" in op else 1
        one = [f for f, d in incs.items() if d == ("int", 1)]
        byt = [f for f, d in incs.items() if d[0] == "param"]
        ok = ok and len(incs) == want_n and len(one) == 1 and (len(byt) == 1 if "response" in op else not byt)
        written[AG][op] = set(incs)
        ctx.check("per-op-shape", "aggregated/%s" % op, ok, "%s: %s" % (op, {f: fmt(d) for f, d in incs.items()}),
                  "AggregatedStats::%s does not increment exactly its own counter%s: %s" % (op, " and bytes" if "response" in op else "", {f: fmt(d) for f, d in incs.items()}), ctx.loc(fn))
        # --- per client
        fn = ctx.fn(pcm[op])
        ev = W.ev(fn.path)
        IN = flow.must_facts(fn, ev)
        ws = field_writes(fn, ev, (CS, PC))
        incs = {}
        ok = True
        why = []
        for (adt, f, val, b, i, dst) in ws:
            rels = flow.rel_facts_at(IN, b)
            guarded = any(r[0] == "False" and is_call(r[1], "PerClientStats::too_many_entries") for r in rels)
            if not guarded:
                ok = False
                why.append("%s written without the overflow guard" % f)
            base = ev.place({"l": dst["l"], "p": dst["p"][:-1]}, (b, i)) if len(dst["p"]) > 1 else None
            v = val
            if adt == CS and v[0] == "bin" and v[1] == "Add" and isinstance(v[2], tuple) and v[2][0] == "field" and v[2][2] == f:
                incs[f] = v[3]
                ent = v[2][1]
                if not (is_call(ent, "or_insert_with_key") and is_call(ent[2][0], "entry") and values.strip_payload(ent[2][0][2][1]) in (("param", fn.path, 2),)):
                    ok = False
                    why.append("%s is not incremented on entry(addr)" % f)
            else:
                ok = False
                why.append("unexpected write to %s.%s" % (adt.split("::")[-1], f))
            if fn.in_loop(b):
                ok = False
        entries = [bb for bb, t in fn.calls() if callee_name(t["fn"].get("path", "")) == "entry"]
        tme = [bb for bb, t in fn.calls() if TME in P.call_targets(t)]
        one = [f for f, d in incs.items() if d == ("int", 1)]
        byt = [f for f, d in incs.items() if d == ("param", fn.path, 3)]
        want_n = 2 if "response" in op else 1
        ok = ok and len(entries) == 1 and len(tme) == 1 and len(incs) == want_n and len(one) == 1 and (len(byt) == 1 if "response" in op else not byt)
        # overflow path: nothing written
        written[PC][op] = set(incs)
        ctx.check("per-op-shape", "per-client/%s" % op, ok, "%s: overflow guard, one entry(addr), %s" % (op, {f: fmt(d) for f, d in incs.items()}),
                  "PerClientStats::%s: %s %s" % (op, "; ".join(why) or "wrong number of increments / entries", {f: fmt(d) for f, d in incs.items()}), ctx.loc(fn))
    tm = ctx.fn(TME)
    tev = W.ev(TME)
    TIN = flow.must_facts(tm, tev)
    ws = field_writes(tm, tev, (PC,))
    r = tev.ret()
    cmp_ok = r[0] == "bin" and r[1] == "Ge" and uncast(r[3]) == ("field", ("param", TME, 1), "max_clients") and r[2][0] == "len"
    okw = len(ws) == 1 and ws[0][1] == "num_overflows" and ws[0][2][0] == "bin" and ws[0][2][3] == ("int", 1) and any(f == ("eq", r, True) for f in flow.facts_at(TIN, ws[0][3]))
    ctx.check("per-op-shape", "too_many_entries", cmp_ok and okw, "too_many_entries = clients.len() >= max_clients; counts one overflow exactly when true",
              "too_many_entries is %s with writes %s" % (fmt(r), [(w[1], fmt(w[2])) for w in ws]), ctx.loc(tm))

    # ------------------------------------------------------------------ (2) op -> getter matrix
    for impl, methods, adts in ((PC, pcm, (CS,)), (AG, agm, (AG,))):
        reads = {}
        for g in GETTERS:
            reads[g] = {f for (a, f) in field_reads(P, W, methods[g], adts)}
            ctx.touched.add(methods[g])
        for op in OPS:
            got = {g for g in GETTERS if reads[g] & written[impl][op]}
            ctx.check("op-getter-matrix", "%s/%s" % (impl.split("::")[-1], op), got == SPEC[op], "%s is visible through %s" % (op, sorted(got)),
                      "%s::%s is reflected in %s, expected %s" % (impl.split("::")[-1], op, sorted(got), sorted(SPEC[op])), ctx.loc(P.fns[methods[op]]))

    # ------------------------------------------------------------------ (3) bound
    ins = []
    for fn in P.fns.values():
        if fn.impl_self != PC:
            continue
        ev = W.ev(fn.path)
        IN = None
        for bb, t in fn.calls():
            n = callee_name(t["fn"].get("path", ""))
            if n in ("entry", "insert", "extend", "or_insert", "or_insert_with", "or_insert_with_key", "try_insert") and "hash" in t["fn"].get("path", "").lower():
                a = ev.call_args(bb)
                tgt = W.expand(a[0])
                if n.startswith("or_insert"):
                    continue
                if values.contains(tgt, lambda s: s == ("field", ("param", fn.path, 1), "clients")) or tgt == ("field", ("param", fn.path, 1), "clients"):
                    IN = IN or flow.must_facts(fn, ev)
                    rels = flow.rel_facts_at(IN, bb)
                    guarded = any(r[0] == "False" and is_call(r[1], "PerClientStats::too_many_entries") for r in rels)
                    ins.append((fn.path, bb, guarded))
    for (fp, bb, g) in ins:
        ctx.check("bounded-clients", "%s/insertion-guarded" % fp.split("::")[-1], g, "insertion only when too_many_entries() is false (len < max_clients)",
                  "an address can be inserted although the limit is reached", P.fns[fp].loc(bb))
    ctx.floor("bounded-clients", len(ins), 8, "insertions into `clients`")
    fields = {f["name"]: f for f in P.adts[PC]["variants"][0]["fields"]}
    ctx.check("bounded-clients", "clients-private", fields["clients"]["vis"] != "pub" and fields["max_clients"]["vis"] != "pub", "clients/max_clients are private", "clients is public")
    mc = [c for c in W.ctor_fields(PC)]
    okmax = all(uncast(c[3].get("max_clients")) in (("int", P.items["roughenough::stats::MAX_CLIENTS"]["val"]["int"]),) or c[3].get("max_clients", ("x",))[0] == "param" for c in mc)
    ctx.check("bounded-clients", "limit-is-MAX_CLIENTS", okmax and bool(mc), "max_clients = MAX_CLIENTS", "max_clients is %s" % [fmt(c[3].get("max_clients")) for c in mc])

    # ------------------------------------------------------------------ (4) merge
    mg = ctx.fn(CS + "::merge")
    mev = W.ev(mg.path)
    ws = field_writes(mg, mev, (CS,))
    counters = [f["name"] for f in P.adts[CS]["variants"][0]["fields"] if f["ty"] in ("u32", "u64", "usize") ]
    seen = {}
    for (adt, f, val, b, i, dst) in ws:
        okf = val[0] == "bin" and val[1] == "Add" and {val[2], val[3]} == {("field", ("param", mg.path, 1), f), ("field", ("param", mg.path, 2), f)}
        seen[f] = okf
    for c in counters:
        ctx.check("merge", "field/%s" % c, seen.get(c, False), "self.%s += other.%s" % (c, c), "merge does not add other.%s to self.%s (%s)" % (c, c, "missing" if c not in seen else "wrong operands"), ctx.loc(mg))
    # guard: only on same address
    rp = ctx.fn("roughenough::stats::reporter::Reporter::receive_client_stats")
    rev = W.ev(rp.path)
    merges = [bb for bb, t in rp.calls() if mg.path in P.call_targets(t)]
    pops = [bb for bb, t in rp.calls() if callee_name(t["fn"].get("path", "")) == "pop"]
    okr = len(merges) == 1 and len(pops) == 1
    det = "%d merge sites, %d pop sites" % (len(merges), len(pops))
    if okr:
        mb, pb = merges[0], pops[0]
        loops = rp.in_loop(mb)
        a = rev.call_args(mb)
        ent = a[0]
        el = W.expand(a[1])
        ie = iter_elem(W, el)
        okent = is_call(ent, "or_insert_with_key") and is_call(ent[2][0], "entry") and values.contains(ent[2][0][2][1], lambda s: isinstance(s, tuple) and s[0] == "field" and s[2] == "ip_addr")
        # outer loop: exits only when pop() is None; inner loop over the popped vector to exhaustion
        outer = [l for l in rp.loops() if pb in l["body"]]
        oko = False
        if outer:
            o = max(outer, key=lambda l: len(l["body"]))
            ex = o["exits"]
            oko = len(ex) == 1 and rp.blocks[ex[0][0]].term["k"] == "switch" and rev.op(rp.blocks[ex[0][0]].term["op"], (ex[0][0], "term"))[0] == "discr" and is_call(rev.op(rp.blocks[ex[0][0]].term["op"], (ex[0][0], "term"))[1]) and callee_name(rev.op(rp.blocks[ex[0][0]].term["op"], (ex[0][0], "term"))[1][1]) == "pop"
        inner = [l for l in loops if pb not in l["body"]]
        oki = False
        if inner:
            il = inner[0]
            ex = il["exits"]
            oki = len(ex) == 1 and rp.blocks[ex[0][0]].term["k"] == "switch"
        # every snapshot popped goes through the merging loop: no path from the Some edge of pop() back to the outer header avoids it
        okall = False
        if outer and inner:
            o = max(outer, key=lambda l: len(l["body"]))
            tpop = rp.blocks[pb].term
            dsw = rp.blocks[tpop["tgt"]].term if tpop.get("tgt") is not None else None
            some_succ = None
            if dsw and dsw["k"] == "switch":
                for val, tgt in dsw["cases"]:
                    if val == 1:
                        some_succ = tgt
                if some_succ is None and len(dsw["cases"]) == 1 and dsw["cases"][0][0] == 0:
                    some_succ = dsw["otherwise"]
            if some_succ is not None:
                okall = values.must_pass(rp, [inner[0]["header"]], from_block=some_succ, to_blocks={o["header"]})
        okr = okent and oko and oki and okall and ie is not None
        det = "entry keyed by the element's ip_addr=%s, drains queue=%s, visits every element=%s, every snapshot goes through the merge loop=%s" % (okent, oko, oki, okall)
    if not okr and len(merges) == 1 and not pops:
        # `for client in iter::from_fn(|| queue.pop()).flatten() { .. merge(&client) }`: one loop over the elements of every snapshot the queue
        # yields until pop() returns None; the merge is on every pass and the loop is left only when that iterator is exhausted
        mb = merges[0]
        a = rev.call_args(mb)
        ent, el = a[0], W.expand(a[1])
        ie = iter_elem(W, el)
        okent = is_call(ent, "or_insert_with_key") and is_call(ent[2][0], "entry") and values.contains(ent[2][0][2][1], lambda s: isinstance(s, tuple) and s[0] == "field" and s[2] == "ip_addr")
        src = ie["container"] if ie else None
        while isinstance(src, tuple) and src and src[0] == "reader":
            src = src[1]
        okq = False
        if is_call(src) and callee_name(src[1]) == "flatten" and src[2]:
            inner_ = W.expand(src[2][0])
            while isinstance(inner_, tuple) and inner_ and inner_[0] == "reader":
                inner_ = inner_[1]
            if is_call(inner_) and callee_name(inner_[1]) == "from_fn" and inner_[2] and isinstance(inner_[2][0], tuple) and inner_[2][0][0] == "closure" and inner_[2][0][1] in P.fns:
                cf = P.fns[inner_[2][0][1]]
                cr_ = values.strip_payload(W.ev(cf.path).ret())
                okq = is_call(cr_) and callee_name(cr_[1]) == "pop" and ("Queue" in cr_[1] or "queue" in cr_[1]) and not cf.loops()
        lps = rp.in_loop(mb)
        oki = False
        if len(lps) == 1 and ie is not None and ie["what"] == "elem" and not ie["fields"]:
            lp = lps[0]
            exits = [e_ for e_ in lp["exits"] if e_[1] not in rp.diverging()]
            nb = ie["site"][1]
            oki = len(exits) == 1 and exits[0][0] == rp.blocks[nb].term.get("tgt") and all(rp.dominates(mb, s0) for s0, d0 in lp["backedges"])
        okr = okent and okq and oki
        det = "flattened queue iterator: entry keyed by the element's ip_addr=%s, iterator = from_fn(|| queue.pop()).flatten()=%s, merge on every pass and loop left only on exhaustion=%s" % (okent, okq, oki)
    ctx.check("merge", "receive_client_stats/merges-every-element-of-every-snapshot", okr, "every element of every popped snapshot is merged into its address's entry until the queue is empty",
              "receive_client_stats: " + det, ctx.loc(rp))

    # the reporter's table only accumulates: between two reports it is written through entry(addr).or_insert..(..).merge(..) and nothing else
    # (an insert / extend / remove would replace or drop sums that earlier snapshots contributed); report() may clear it after writing
    RP = "roughenough::stats::reporter::Reporter"
    nmut = 0
    for f in P.fns.values():
        if f.derived or f.impl_self != RP:
            continue
        fev = W.ev(f.path)
        for (b, callee, argi, ap) in fev.events_on(1, ("client_stats",)):
            tys = f.blocks[b].term.get("arg_tys") or []
            if argi >= len(tys) or not tys[argi].startswith("&mut"):
                continue
            nm = callee_name(callee)
            if nm in ("deref_mut", "borrow_mut", "as_mut"):
                continue
            nmut += 1
            ok_m = nm == "entry" or nm in ("reserve", "shrink_to_fit", "shrink_to")
            if nm == "clear":
                # emptied right after the report was written: a call to report() dominates the clear() and nothing is merged in between
                reps = [rb for rb, t2 in f.calls() if strip_generics(t2["fn"].get("path", "")) == RP + "::report"] if not f.path.endswith("::report") else [0]
                for rb in reps:
                    if rb != 0 and not f.dominates(rb, b):
                        continue
                    seen, dq = set(), list(f.succ(rb)) if rb != 0 else [0]
                    while dq:
                        n = dq.pop()
                        if n in seen or n == b or (rb != 0 and n == rb):
                            continue
                        seen.add(n)
                        dq.extend(f.succ(n))
                    merged_between = any(f.blocks[n].term["k"] == "call" and (callee_name(f.blocks[n].term["fn"].get("path", "")) in ("entry", "insert", "extend") or
                                         strip_generics(f.blocks[n].term["fn"].get("path", "")) == RP + "::receive_client_stats") for n in seen)
                    if not merged_between:
                        ok_m = True
            ctx.check("merge", "reporter-table/%s@%s" % (nm, f.path.split("::")[-1]), ok_m, "client_stats is updated through %s in %s" % (nm, f.path.split("::")[-1]),
                      "%s applies %s to the reporter's per-address table: sums merged from earlier snapshots can be replaced or dropped" % (f.path.split("::")[-1], nm), f.loc(b))
    ctx.floor("merge", nmut, 2, "mutations of Reporter.client_stats (entry in receive_client_stats, clear in report)")

    # ------------------------------------------------------------------ (5) wiring in the send loop
    sr = ctx.fn(sm.SEND)
    sev = W.ev(sr.path)
    SIN = flow.must_facts(sr, sev)
    sends = [bb for bb, t in sr.calls() if strip_generics(t["fn"].get("path", "")).endswith("UdpSocket::send_to")]
    recs = [(bb, t["fn"].get("trait_method"), sev.call_args(bb)) for bb, t in sr.calls() if t["fn"].get("trait") == TRAIT]
    if len(sends) != 1:
        raise AnchorMissing("one send_to in send_responses")
    sb = sends[0]
    sterm = sev.call_term(sb)
    for v, opname in (("Google", "add_classic_response"), ("RfcDraft13", "add_rfc_response")):
        from values import Ev
        ev2 = Ev(P, sr, assume=sm.version_assume(sr.path, v))
        live = ev2.live()
        live_recs = [(bb, m) for bb, m, a in recs if bb in live]
        names = sorted({m for bb, m in live_recs})
        ctx.check("send-wiring", "%s/operations" % v, names == sorted([opname, "add_failed_send_attempt"]), "%s: a send is recorded as %s or add_failed_send_attempt" % (v, opname),
                  "%s sends are recorded as %s" % (v, names), sr.loc(sb))
    for (bb, m, a) in recs:
        after = sr.dominates(sb, bb) and bb != sb
        ctx.check("send-wiring", "%s/after-send" % m, after, "%s is recorded after the send_to call" % m, "%s is recorded before/without the send" % m, sr.loc(bb))
        if m in ("add_classic_response", "add_rfc_response"):
            n = W.expand(a[2])
            # n = the Ok payload of this send (through the bytes_sent variable)
            # exactly the Ok payload of this iteration's send_to (possibly through a variable initialised to 0): no arithmetic on it
            alts = n[1] if n[0] == "phi" else (n,)
            alts = [uncast(x) for x in alts if x != ("int", 0)]
            from lib import through_conversions
            # `send_to(..).ok().unwrap_or(0)`, `send_to(..).unwrap_or(0)`, `send_to(..).as_ref().map_or(0, |n| *n)`: the payload, or 0 for a failed send
            norm_alts = []
            for x in alts:
                for _ in range(3):
                    if is_call(x) and callee_name(x[1]) in ("unwrap_or", "unwrap_or_default") and x[2] and (len(x[2]) == 1 or x[2][1] == ("int", 0)):
                        x = ("vfield", x[2][0], "Some" if "option::Option" in x[1] else "Ok", 0)
                    elif is_call(x) and callee_name(x[1]) == "map_or" and len(x[2]) == 3 and x[2][1] == ("int", 0) and isinstance(x[2][2], tuple) and x[2][2][0] == "closure":
                        K = P.fns.get(x[2][2][1])
                        kr = values.strip_payload(W.ev(K.path).ret()) if K is not None else None
                        if kr == ("param", K.path, 2):
                            inner = x[2][0]
                            while is_call(inner) and callee_name(inner[1]) in ("as_ref", "as_deref", "copied", "cloned") and inner[2]:
                                inner = inner[2][0]
                            x = ("vfield", inner, "Some" if "option::Option" in x[1] else "Ok", 0)
                        else:
                            break
                    else:
                        break
                norm_alts.append(uncast(x))
            alts = norm_alts
            okn = len(alts) == 1 and alts[0][0] == "vfield" and alts[0][2] in ("Ok", "Some") and is_call(through_conversions(alts[0])[0]) and through_conversions(alts[0])[0][3] == (sr.path, sb) \
                and strip_generics(through_conversions(alts[0])[0][1]).endswith("UdpSocket::send_to")
            if not okn and len(alts) == 1:
                # or the length of the very datagram handed to this send_to (a successful UDP send returns exactly that length)
                x = alts[0]
                pay = W.expand(sev.call_args(sb)[1])
                while is_call(pay) and callee_name(pay[1]) in values.VIEW_NAMES and pay[2]:
                    pay = W.expand(pay[2][0])
                if x[0] == "len" or (is_call(x) and callee_name(x[1]) == "len"):
                    of = W.expand(x[1] if x[0] == "len" else x[2][0])
                    while is_call(of) and callee_name(of[1]) in values.VIEW_NAMES and of[2]:
                        of = W.expand(of[2][0])
                    okn = of == pay
            rels = flow.rel_facts_at(SIN, bb)
            ctx.check("send-wiring", "%s/bytes-are-send-result" % m, okn, "bytes recorded = value returned by send_to (or the length of the datagram passed to it)", "bytes recorded are %s" % fmt(n), sr.loc(bb))
    # exactly one record per iteration: the success flag partitions
    ok_paths = all(values.must_pass(sr, [r[0] for r in recs], from_block=sr.succ(sb)[0], to_blocks={l["header"] for l in sr.in_loop(sb)}) for _ in [0]) if sr.in_loop(sb) else False
    ctx.check("send-wiring", "one-record-per-send", ok_paths, "every iteration records exactly one outcome after sending", "an iteration can finish without recording the outcome of its send", sr.loc(sb))
    # address recorded = address sent to
    dst = W.expand(sev.call_args(sb)[2])
    for (bb, m, a) in recs:
        ipt = W.expand(a[1])
        okip = is_call(ipt) and callee_name(ipt[1]) == "ip" and W.expand(ipt[2][0]) == dst
        ctx.check("send-wiring", "%s/address" % m, okip, "recorded for the destination's IP address", "%s is recorded for %s but the datagram went to %s" % (m, fmt(ipt), fmt(dst)), sr.loc(bb))
    # ------------------------------------------------------------------ (5b) wiring in the receive loop
    # every datagram taken off the socket (the Ok arm of recv_from) is recorded exactly once before the loop goes on or the function returns:
    # as a request of the version it was routed as, or as invalid; for the sender's IP address.
    cfn, cev, routes = sm.routing(ctx, W)
    rb, rct, rcount, raddr = sm.recv_count_term(W)
    okb = None
    for bl in cfn.blocks:
        if bl.idx in cfn.reachable() and bl.term["k"] == "switch":
            cond = W.expand(cev.op(bl.term["op"], (bl.idx, "term")))
            if cond[0] == "discr" and values.strip_payload(cond[1]) == rct:
                cases = {c[0]: c[1] for c in bl.term["cases"]}
                cand = cases[0] if 0 in cases else (bl.term["otherwise"] if 1 in cases else None)
                # a guarded Err arm (`Err(ref e) if ..`) re-tests the discriminant with the Ok case already excluded (-> unreachable)
                if cand is not None and cfn.blocks[cand].term["k"] != "unreachable" and (okb is None or cfn.dominates(bl.idx, okb)):
                    okb = cand
    if okb is None:
        raise AnchorMissing("the match on recv_from's result in collect_requests")
    crecs = {bb: t["fn"].get("trait_method") for bb, t in cfn.calls() if t["fn"].get("trait") == TRAIT}
    hdrs = {l["header"] for l in cfn.loops() if rb in l["body"]}
    counts = {okb: {0}}
    work = [okb]
    ends = {}
    while work:
        b = work.pop()
        cs = {min(c + (1 if b in crecs else 0), 2) for c in counts[b]}
        nxt = cfn.succ(b)
        if cfn.blocks[b].term["k"] == "return" or not nxt:
            if cfn.blocks[b].term["k"] == "return":
                ends.setdefault(b, set()).update(cs)
            continue
        for n in nxt:
            if n in hdrs:
                ends.setdefault(b, set()).update(cs)
                continue
            if not cs <= counts.get(n, set()):
                counts.setdefault(n, set()).update(cs)
                work.append(n)
    badp = sorted((b, sorted(c)) for b, c in ends.items() if c != {1})
    ctx.check("receive-wiring", "one-record-per-datagram", not badp and bool(ends), "every received datagram is recorded exactly once before the next one is read (%d ways out of the Ok arm)" % len(ends),
              "a datagram taken off the socket can be left unrecorded or recorded twice: the path leaving the iteration at %s records it %s times" %
              (cfn.loc(badp[0][0]) if badp else None, badp[0][1] if badp else None), cfn.loc(badp[0][0]) if badp else cfn.loc(rb))
    CIN = flow.must_facts(cfn, cev)
    want = {"Google": "add_classic_request", "RfcDraft13": "add_ietf_request"}
    nrec = 0
    for bb, m in sorted(crecs.items()):
        if m not in ("add_ietf_request", "add_classic_request", "add_invalid_request") or not cfn.reaches(okb, bb):
            continue
        nrec += 1
        rels = flow.rel_facts_at(CIN, bb)
        if m == "add_invalid_request":
            okk = any(r[0] in ("Eq",) and isinstance(r[1], tuple) and r[1][0] == "discr" and is_call(values.strip_payload(r[1][1]), "nonce_from_request") and r[2] == ("int", 1) for r in rels)
            whyk = "recorded on the Err arm of nonce_from_request"
        else:
            v = sm.version_fact(P, rels)
            okk = want.get(v) == m
            whyk = "recorded where the request was accepted as %s" % v
        ctx.check("receive-wiring", "%s/kind" % m, okk, whyk, "%s is recorded on a path where the datagram was not classified that way (%s)" % (m, whyk), cfn.loc(bb))
        ipt = W.expand(cev.call_args(bb)[1])
        okip = is_call(ipt) and callee_name(ipt[1]) == "ip" and W.expand(ipt[2][0]) == W.expand(raddr)
        ctx.check("receive-wiring", "%s/address" % m, okip, "recorded for the sender's IP address", "%s is recorded for %s, the datagram came from %s" % (m, fmt(ipt), fmt(raddr)), cfn.loc(bb))
    ctx.floor("receive-wiring", nrec, 3, "request recordings in collect_requests (ietf, classic, invalid)")

    # send_client_stats: clear only after push
    sc = ctx.fn("roughenough::server::Server::send_client_stats")
    cev = W.ev(sc.path)
    push = [bb for bb, t in sc.calls() if callee_name(t["fn"].get("path", "")) in ("force_push", "push") and "Queue" in t["fn"].get("path", "")]
    clear = [bb for bb, t in sc.calls() if t["fn"].get("trait") == TRAIT and t["fn"].get("trait_method") == "clear"]
    okc = len(push) == 1 and len(clear) == 1 and sc.dominates(push[0], clear[0])
    if okc:
        snap = W.expand(cev.call_args(push[0])[1])
        okc = values.contains(snap, lambda s: is_call(s) and s[1].endswith("ServerStats::iter"))
        if not okc and isinstance(snap, tuple) and snap and snap[0] == "obj":
            # a vector filled from the recorder's iterator (with_capacity + extend) is the same snapshot
            pcs = W.buffer_seq(snap) or []
            okc = any(values.contains(W.expand(x), lambda s: is_call(s) and s[1].endswith("ServerStats::iter")) for x in pcs)
    if len(push) == 1 and len(clear) == 1 and sc.dominates(push[0], clear[0]) and not okc:
        snap = W.expand(cev.call_args(push[0])[1])
        if isinstance(snap, tuple) and snap and snap[0] == "obj":
            # a vector filled by an explicit loop over the recorder's iterator (`for (_, c) in self.stats_recorder.iter() { snapshot.push(*c) }`)
            from lib import iter_elem as _iter_elem
            writes_ = [(b_, callee_name(c_)) for (b_, c_, ai_, ap_) in W.obj_events(snap) if ai_ == 0 and sc.blocks[b_].term["arg_tys"][0].startswith("&mut")
                       and callee_name(c_) not in ("reserve", "reserve_exact", "force_push")]
            if writes_ and all(n_ == "push" for b_, n_ in writes_):
                good_ = True
                for b_, n_ in writes_:
                    ie_ = _iter_elem(W, W.expand(cev.call_args(b_)[1]))
                    if not (ie_ and values.contains(W.expand(ie_["container"]), lambda s_: is_call(s_) and s_[1].endswith("ServerStats::iter"))):
                        good_ = False
                okc = good_
    if len(push) == 1 and len(clear) == 1 and sc.dominates(push[0], clear[0]) and not okc:
        # the snapshot taken through a provided method of the trait (`fn snapshot(&self) -> Vec<_> { self.iter()..collect() }`) that no
        # implementation overrides
        snap = W.expand(cev.call_args(push[0])[1])
        for x in values.subterms(snap):
            if is_call(x) and x[1] in P.fns and x[1].startswith(TRAIT + "::") and x[2] and not P.trait_impl_methods(TRAIT, x[1].split("::")[-1]):
                r2 = W.expand(W.ev(x[1]).ret())
                if values.contains(r2, lambda s: is_call(s) and s[1].endswith("ServerStats::iter") and s[2] and s[2][0] == ("param", x[1], 1)):
                    okc = True
    # the publishing timer is one-shot: every path through send_client_stats must arm it again, or this worker never publishes (nor clears) again
    rearm = [bb for bb, t in sc.calls() if callee_name(t["fn"].get("path", "")) == "set_timeout"]
    okarm = bool(rearm) and values.must_pass(sc, rearm, from_block=0)
    ctx.check("send-wiring", "publishing-timer-rearmed-on-every-path", okarm, "send_client_stats re-arms the status timer on every path",
              "send_client_stats can return without re-arming the one-shot status timer: after that this worker's statistics are never published again", ctx.loc(sc))
    ctx.check("send-wiring", "snapshot-pushed-before-clear", okc, "the recorder is cleared only after its snapshot was pushed to the queue",
              "send_client_stats clears the recorder without having pushed the snapshot", ctx.loc(sc))
