"""C08 — no datagram sequence can crash or wedge a serving worker (panic-freedom of the serving loop)."""
import values
from lib import World, is_call, callee_name
from mir import strip_generics
from nopanic import NoPanic, report
import audit_facts

EXPLANATION = """
T-nopanic over every crate-local function reachable from Server::process_events (request parsing, both responders, Merkle
tree, online key, grease, both statistics recorders through the dyn ServerStats dispatch, health check, statistics publication),
including the argument expressions of every log macro: MIR contains those blocks whatever the runtime log level is.
Each MIR Assert, unwrap/expect, slice/index operation, explicit panic and dependency call with a panicking precondition
is discharged by the difference-constraint prover from branch facts and caller-derived parameter intervals, by a typed rule
(fixed-size little-endian writes, strictly ascending constant add_field sequences, get_field on a message whose producer
always adds that tag, statistics counter increments), or by an entry of audited_sites.json whose required facts are
re-checked on every run.  Anything else is a violation naming the site and the call chain from process_events.
Wake-up: the request socket and the health-check listener, whose handlers read a bounded number of items per event, are registered level-triggered, so
a backlog larger than one batch keeps raising events until it is drained.
"""
NOT_DECIDED = "termination of the receive loop beyond its batch_size bound (depends on the kernel queue); allocation failure; panics inside dependencies on inputs not covered by the panicking-precondition table"
TRUSTED = ["external callees outside the panicking-precondition table do not panic (list in evidence)", "mio/std socket calls return Err instead of panicking", "one UDP send/receive transfers at most 65,535 bytes (16-bit length field)"]
ASSUMPTIONS = ["the release configuration is analysed (-C debug-assertions=off, overflow checks kept as obligations): debug_assert!() and cfg(debug_assertions) code is compiled out and not part of the decided behaviour", "a statistics counter does not wrap (2^32 events from one address within one reporting window / 2^64 total)",
               "the system clock is not before 1970 (C11's quantifier)", "memory allocation succeeds"]

ROOT = "roughenough::server::Server::process_events"


def run(ctx):
    W = World(ctx)
    ctx.fn(ROOT)
    chk = audit_facts.Checker(ctx, W)
    eng = NoPanic(ctx, W, [ROOT], requirement_checker=chk.check)
    recs = eng.run()
    report(ctx, eng, recs)
    ctx.floor("no-panic", len([r for r in recs if not r.get("trivial")]), 60, "non-trivial panic obligations reachable from process_events")
    ctx.floor("no-panic-reach", len(eng.reach), 50, "crate-local functions reachable from process_events")
    # "wedge": the worker reads at most batch_size datagrams per readiness event and then returns to poll().  That only drains a backlog if
    # the kernel keeps signalling while datagrams are pending, i.e. the sources whose handler does a bounded amount of work per event (the
    # request socket, the health-check listener) are registered level-triggered.  Edge-triggered, a burst larger than a batch leaves
    # datagrams queued with no further event, and a valid request sent afterwards waits behind them.
    import server_model as sm
    regs = sm.registrations(ctx, W)
    nreg = 0
    for r in regs:
        if "UdpSocket" in r["source_ty"] or "TcpListener" in r["source_ty"]:
            nreg += 1
            what = "request socket" if "UdpSocket" in r["source_ty"] else "health-check listener"
            ctx.check("wake-up", "%s/level-triggered" % what.replace(" ", "-"), r["opts"] == ["level"],
                      "the %s is registered level-triggered: pending input keeps raising events until it is drained" % what,
                      "the %s is registered with PollOpt::%s, but its handler reads a bounded number of items per event: whatever is still queued after one "
                      "batch raises no further event, so later valid requests are not answered" % (what, "|".join(r["opts"]) or values.fmt(r["opts_term"])), r["fn"].loc(r["bb"]))
    ctx.floor("wake-up", nreg, 2, "poll registrations of the request socket and the health-check listener")
    # the other way to wedge: a loop of the serving path whose exit depends on the socket, a queue or nothing at all (retry until it works, read
    # until empty).  C19 classifies every loop reachable from the thread entries; its verdicts for the loops below process_events are obligations here.
    import importlib
    from framework import Ctx
    c19 = importlib.import_module("rules.C19")
    sub19 = Ctx("C19", ctx.prog, ctx.repo, "quick", ctx.feature)
    c19.run(sub19)
    mine = [i for i in sub19.instances if i["rule"] == "flag-in-loop" and any(i["key"].startswith("C19/flag-in-loop/" + f + "/") for f in eng.reach)]
    bad19 = [i for i in mine if not i["ok"]]
    ctx.check("wake-up", "every-loop-of-the-serving-path-is-bounded(C19)", not bad19, "every loop below process_events is a bounded iteration or an audited one (%d loops)" % len(mine),
              "a loop of the serving path can keep the worker from returning to poll(): " + (bad19[0]["detail"] if bad19 else ""), bad19[0].get("loc") if bad19 else None)
    ctx.floor("wake-up-loops", len(mine), 12, "loops below process_events classified by C19")
    # log macro argument blocks are part of the analysed MIR: count sites inside log expansions
    nlog = 0
    for r in recs:
        fn = ctx.prog.fns[r["fn"]]
        t = fn.blocks[r["bb"]].term
        if t.get("mac") in ("debug", "info", "warn", "error", "trace"):
            nlog += 1
    ctx.extra["sites_inside_log_macro_arguments"] = nlog
    # stale audited entries (keys that no longer exist) are reported, not ignored
    audited = eng.audited
    for key, a in audited.items():
        if a.get("property") in ("C08", None) and key.split("/")[0] and key not in eng.used_audits and any(key.startswith(f + "/") for f in eng.reach):
            ctx.record("audited-entry-live", key, True, "audited entry does not match any current site (stale, harmless)", nontrivial=False)


def fixture(fctx):
    import fixture_checks
    return fixture_checks.nopanic_alive(fctx)
