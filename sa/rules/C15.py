"""C15 — every documented in-range configuration yields a fully serving server (start-up structure)."""
import re

import flow
import values
from lib import World, is_call, callee_name, uncast
from framework import spec
from mir import strip_generics, AnchorMissing
from nopanic import NoPanic, report
from values import fmt
import audit_facts
import server_model as sm

EXPLANATION = """
(0) A started worker reaches its serving loop on its own: nothing reachable from the worker entry waits for another thread (barrier, condition variable, channel
receive, join, park).  (1) No per-worker exclusive bind: every socket bind reachable from a worker thread's entry (the closure passed to spawn inside the worker loop) is made on a
builder with reuse_port(true), or binds port 0.  (2) Lock discipline and start-up panics: the configuration MutexGuard taken in the worker prologue is
dropped before the serving loop, and wherever a function of the server binary locks the same mutex twice the first guard is dropped on every path
before the second lock() (no self-deadlock during start-up); T-nopanic over Server::new and display_config (the code that runs while the guard is held): every potential panic is
proven, typed or audited as an operating-system condition / a fact guaranteed by configuration validation, with the linking facts re-checked.
(3) Validation covers use: seed length, fault ratio and interface:port preconditions of Server::new are implied by is_valid_config, and workers are spawned only
after it returned true.  (4) Worker provisioning: the spawn loop runs 0..num_workers, each iteration binds its own socket and names its thread.
(5) Health check: the handler writes the constant documented response; the listener is registered only when a port is configured; registration is level-triggered or
the handler accepts until WouldBlock.  (7) Started workers keep serving: the panic obligations of the serving path (C08) hold.  The receive loop of collect_requests runs at least once per event for every valid batch_size (its range is evaluated for 1, 2, 64).  (8) Both loaders take every documented setting as written: C16's key-name and wiring rules.  (6) /repo/example.cfg (parsed as data): every key is a documented YAML key, every value is within the documented range.
"""
ASSUMPTIONS = ["the release configuration is analysed (-C debug-assertions=off, overflow checks kept as obligations): debug_assert!() and cfg(debug_assertions) code is compiled out and not part of the decided behaviour"]
NOT_DECIDED = "that workers stay alive and replies arrive (process liveness, thread timing)"
TRUSTED = ["SO_REUSEPORT lets several sockets bind one port", "mio level-triggered registrations re-fire while the source is readable"]

SERVER = "roughenough::server::Server"
MAIN = "roughenough_server::main"


def thread_entries(ctx, W):
    """[(closure path, spawn context)] for every thread spawn of the server binary (see lib.spawn_contexts)."""
    from lib import spawn_contexts
    main = ctx.fn(MAIN)
    out = []
    for d in spawn_contexts(ctx, W):
        if d["entry"]:
            out.append((d["entry"], d, d["looped"]))
    return main, out


def caller_bound(ctx, W, f, term, depth=0):
    """`term` of function / closure f with f's parameters (and, for closures, captured values) replaced by what the single caller passes."""
    P = ctx.prog
    if depth > 3 or not isinstance(term, tuple):
        return term
    if "{closure" in f.path:
        sites = P.closure_sites(f.path)
        if not sites:
            return term
        o = sites[0][0]
        oev = W.ev(o.path)
        for b2, t2 in o.calls():
            if f.path in (t2.get("closures") or []):
                for a in oev.call_args(b2):
                    if isinstance(a, tuple) and a and a[0] == "closure" and a[1] == f.path:
                        ups = a[2]
                        mapping = {("field", ("param", f.path, 1), str(i)): W.expand(u) for i, u in enumerate(ups)}
                        term = W.subst(term, mapping)
                return caller_bound(ctx, W, o, term, depth + 1)
        return term
    cs = P.callers(f.path)
    if len(cs) != 1:
        return term
    cp, cbb = cs[0]
    args = [W.expand(x) for x in W.ev(cp).call_args(cbb)]
    return caller_bound(ctx, W, P.fns[cp], W.bind_params(term, f.path, args), depth + 1)


def run(ctx):
    W = World(ctx)
    P = ctx.prog
    sp = spec()
    main, entries = thread_entries(ctx, W)
    ctx.floor("per-worker-bind", len(entries), 1, "thread entry closures in main")
    worker_entries = [e for e in entries if e[2]]
    ctx.check("worker-provisioning", "workers-spawned-in-a-loop", len(worker_entries) == 1, "one worker entry closure, spawned inside a loop",
              "expected exactly one worker spawn inside a loop, found %d" % len(worker_entries), ctx.loc(main))

    # ------------------------------------------------------------------ (0) a started worker gets to its serving loop on its own: nothing reachable from a worker's
    # entry waits for another thread (a start-up barrier, a condition variable, a channel receive, a join, park).  Whether such a rendezvous ever
    # completes depends on how many threads take part, which differs between configurations (the reporter thread exists only with client_stats on).
    WAITS = ("sync::barrier::Barrier", "sync::Barrier", "Condvar", "sync::mpsc", "thread::park", "JoinHandle", "crossbeam_channel", "thread::scope")
    for (clo, d_, inloop) in worker_entries:
        reach_w, ext_w, parent_w = P.reach([clo])
        waits = sorted(e for e in ext_w if any(w in e for w in WAITS))
        ctx.check("worker-provisioning", "worker-start-waits-for-no-other-thread", not waits,
                  "nothing reachable from the worker entry waits for another thread (%d functions, %d external callees)" % (len(reach_w), len(ext_w)),
                  "a worker can wait for other threads before (or while) serving: %s (chain %s); with another number of participating threads it never gets to its loop"
                  % ([w.split("<")[0] for w in waits[:2]], [P.chain(parent_w, w) for w in waits[:1]]), ctx.loc(P.fns[clo]))

    # ------------------------------------------------------------------ (1) binds reachable per worker
    nb = 0
    for (clo, d_, inloop) in worker_entries:
        reach, ext, parent = P.reach([clo])
        for fnp in sorted(reach):
            fn = P.fns[fnp]
            ev = W.ev(fnp)
            for bb, t in fn.calls():
                p = strip_generics(t["fn"].get("path", ""))
                if callee_name(p) != "bind" or not any(x in p for x in ("Tcp", "Udp", "Socket", "Listener", "Builder")):
                    continue
                nb += 1
                a = ev.call_args(bb)
                recv = a[0]
                reuse = [s for s in values.subterms(recv) if is_call(s) and callee_name(s[1]) == "reuse_port"]
                ok = bool(reuse) and all(s[2][1] == ("int", 1) for s in reuse)
                why = "bound on a builder with reuse_port(true)"
                if not ok:
                    # binding port 0 (ephemeral) is never exclusive
                    addr = a[-1]
                    if values.contains(addr, lambda s: s and s[0] == "str" and s[1].endswith(":0")):
                        ok, why = True, "binds an ephemeral port"
                ctx.check("per-worker-bind", "%s/%s" % (fnp.split("::", 1)[-1], p.split("::")[-2] + "::bind"), ok, why,
                          "every worker thread executes %s without SO_REUSEPORT: the second worker's bind fails (chain: %s)" % (p, " -> ".join(x.split("::")[-1] for x in P.chain(parent, fnp))), fn.loc(bb))
    ctx.extra["binds_reachable_from_worker_entry"] = nb
    ctx.record("per-worker-bind", "inventory", True, "%d bind call(s) reachable from the worker entry" % nb, nontrivial=False)

    # ------------------------------------------------------------------ (4) worker provisioning (and the UDP socket of each worker)
    for (clo, d, inloop) in worker_entries:
        f, fev, sb = d["fn"], d["ev"], d["bb"]
        src = d["range"]
        okr = isinstance(src, tuple) and src and src[0] == "agg" and str(src[1]).endswith("Range::Range") and src[2][0] == ("int", 0) and \
            (values.contains(src[2][1], lambda s_: is_call(s_) and s_[1].endswith("ServerConfig::num_workers")) or
             values.contains(caller_bound(ctx, W, f, src[2][1]), lambda s_: is_call(s_) and s_[1].endswith("ServerConfig::num_workers")))
        ctx.check("worker-provisioning", "loop-is-0..num_workers", okr, "the workers are spawned for 0..config.num_workers()", "the spawn loop does not iterate 0..num_workers", f.loc(sb))
        binds = [bb for bb, t in f.calls() if bb in d["body"] and strip_generics(t["fn"].get("path", "")).endswith("bind_socket")]
        ctx.check("worker-provisioning", "socket-bound-per-iteration", len(binds) == 1 and f.dominates(binds[0], sb), "each iteration binds its own socket before spawning",
                  "the worker socket is not bound once per iteration", f.loc(sb))
        b = fev.call_args(sb)[0]
        named = (is_call(b) and strip_generics(b[1]).endswith("Builder::name")) or values.contains(b, lambda s_: is_call(s_) and strip_generics(s_[1]).endswith("Builder::name"))
        ctx.check("worker-provisioning", "thread-named", named, "each worker thread is named", "worker threads are spawned without a name", f.loc(sb))
    bs = ctx.fn("roughenough_server::bind_socket")
    bev = W.ev(bs.path)
    for bb, t in bs.calls():
        if callee_name(t["fn"].get("path", "")) == "bind":
            recv = bev.call_args(bb)[0]
            flags = {}
            for s in values.subterms(recv):
                if is_call(s) and callee_name(s[1]) in ("reuse_port", "reuse_address"):
                    flags[callee_name(s[1])] = s[2][1]
            ctx.check("worker-provisioning", "udp-socket-reuse-flags", flags.get("reuse_port") == ("int", 1) and flags.get("reuse_address") == ("int", 1),
                      "worker UDP sockets are bound with reuse_address(true) and reuse_port(true)", "worker UDP socket flags: %s" % {k: fmt(v) for k, v in flags.items()}, bs.loc(bb))

    # ------------------------------------------------------------------ (2) lock discipline + start-up panics
    pl = ctx.fn("roughenough_server::polling_loop")
    pev = W.ev(pl.path)
    guards = [l for l, loc in enumerate(pl.locals) if re.match(r"^std::sync::(poison::)?(mutex::)?MutexGuard<", loc["ty"])]
    serve = [bb for bb, t in pl.calls() if strip_generics(t["fn"].get("path", "")).endswith("Server::process_events")]
    if not serve:
        raise AnchorMissing("process_events call in polling_loop")
    okg = bool(guards)
    for g in guards:
        drops = [bl.idx for bl in pl.blocks if bl.term["k"] == "drop" and bl.term["place"]["l"] == g and not bl.term["place"].get("p") and not bl.cleanup]
        okg = okg and bool(drops) and all(any(pl.dominates(d, s) for d in drops) for s in serve)
    ctx.check("lock-discipline", "config-guard-dropped-before-serving", okg, "the config MutexGuard is dropped before the serving loop starts",
              "the configuration mutex is still held while serving (other workers block, a panic poisons it)", ctx.loc(pl))
    locks_in_loop = [bb for bb, t in pl.calls() if callee_name(t["fn"].get("path", "")) == "lock" and pl.in_loop(bb)]
    ctx.check("lock-discipline", "no-lock-in-serving-loop", not locks_in_loop, "no mutex is taken inside the serving loop", "a mutex is locked inside the serving loop", ctx.loc(pl))
    # no function re-locks the configuration mutex while it still holds a guard of it (self-deadlock: the process would keep running with
    # whatever workers got through their prologue, and every later locker blocks forever)
    nlock = 0
    for f2 in P.fns.values():
        if not f2.path.startswith("roughenough_server::"):
            continue
        e2 = W.ev(f2.path)
        locks = [(bb, e2.call_args(bb)[0]) for bb, t in f2.calls() if callee_name(t["fn"].get("path", "")) == "lock" and "Mutex" in t["fn"].get("path", "")]
        nlock += len(locks)
        drops = {}
        for bl in f2.blocks:
            if bl.term["k"] == "drop" and not bl.cleanup and not bl.term["place"].get("p"):
                l = bl.term["place"]["l"]
                if re.match(r"^(core::result::Result<)?std::sync::(poison::)?(mutex::)?MutexGuard<", f2.locals[l]["ty"]):
                    drops.setdefault(l, []).append(bl.idx)
        for (a_bb, a_m) in locks:
            holders = {f2.blocks[a_bb].term["dst"]["l"]}
            nxt = f2.blocks[a_bb].term["tgt"]
            for _ in range(3):
                if nxt is None:
                    break
                tt = f2.blocks[nxt].term
                if tt["k"] == "call" and callee_name(tt["fn"].get("path", "")) in ("unwrap", "expect") and tt["args"] and (tt["args"][0].get("mv") or tt["args"][0].get("cp") or {}).get("l") in holders:
                    holders.add(tt["dst"]["l"])
                    nxt = tt["tgt"]
                else:
                    break
            changed = True
            while changed:
                changed = False
                for bl in f2.blocks:
                    for st in bl.stmts:
                        if st["k"] == "assign" and st["rv"]["k"] == "use" and not st["dst"].get("p"):
                            src = st["rv"]["op"].get("mv")
                            if src and not src.get("p") and src["l"] in holders and st["dst"]["l"] not in holders:
                                holders.add(st["dst"]["l"])
                                changed = True
            dblocks = [d for h in holders for d in drops.get(h, [])]
            for (b_bb, b_m) in locks:
                if b_bb == a_bb or b_m != a_m or not f2.reaches(a_bb, b_bb):
                    continue
                released = bool(dblocks) and values.must_pass(f2, dblocks, from_block=f2.succ(a_bb)[0], to_blocks={b_bb})
                npair = len([i for i in ctx.instances if i["rule"] == "lock-discipline" and "/relock#" in i["key"] and f2.path.split("::")[-1] + "/relock#" in i["key"]]) + 1
                ctx.check("lock-discipline", "%s/relock#%d" % (f2.path.split("::")[-1], npair), released,
                          "the guard taken at %s is dropped before the mutex is locked again at %s" % (f2.loc(a_bb), f2.loc(b_bb)),
                          "%s locks the configuration mutex at %s while the guard taken at %s can still be alive: the thread deadlocks against itself holding the lock, later workers never start"
                          % (f2.path.split("::")[-1], f2.loc(b_bb), f2.loc(a_bb)), f2.loc(b_bb))
    # every Mutex::lock call of the binary is examined above; the floor only guards against the lock sites no longer being recognised at all:
    # the shared configuration needs at least the start-up read in main and the one in the worker prologue (6 sites today)
    ctx.floor("lock-discipline", nlock, 2, "config mutex lock sites in the server binary")
    chk = audit_facts.Checker(ctx, W)
    cloud = {f.path for f in P.fns.values() if "roughenough::kms::awskms" in f.path or "roughenough::kms::gcpkms" in f.path}
    ctx.extra["cloud_provider_code_out_of_scope"] = len(cloud)
    eng = NoPanic(ctx, W, [SERVER + "::new", "roughenough_server::display_config"], rule="startup-no-panic", requirement_checker=chk.check, skip_fns=cloud, stop=cloud)
    recs = eng.run()
    report(ctx, eng, recs, rule="startup-no-panic")
    ctx.floor("startup-no-panic", len([r for r in recs if not r.get("trivial")]), 15, "panic obligations in the start-up code run under the config lock")

    # ------------------------------------------------------------------ (3) validation covers use
    for req in ("seed_length_validated", "fault_percentage_validated", "interface_parse_validated", "worker_threads_named"):
        ok, why = chk.check(req)
        ctx.check("validation-covers-use", req, ok, why, "start-up precondition not guaranteed by validation: " + why)
    ok, why = chk._range_ok("batch_size")
    ctx.check("validation-covers-use", "batch_size-range", ok, why, why)

    # ------------------------------------------------------------------ (5) health check
    hh = ctx.fn(SERVER + "::handle_health_check")
    hev = W.ev(hh.path)
    resp = P.items.get("roughenough::server::HTTP_RESPONSE", {}).get("val", {}).get("str")
    writes = [(bb, hev.call_args(bb)) for bb, t in hh.calls() if callee_name(t["fn"].get("path", "")) in ("write_all", "write")]
    okw = len(writes) == 1 and writes[0][1][1] == ("str", resp) and resp is not None and resp.startswith("HTTP/1.1 200 OK")
    if not okw and len(writes) == 1:
        # the same constant kept as a byte string (`const HTTP_RESPONSE: &[u8] = b"HTTP/1.1 200 OK.."`) or written through as_bytes()
        wv = W.expand(writes[0][1][1])
        txt = wv[1] if isinstance(wv, tuple) and wv and wv[0] == "bytes" else (wv[1].encode() if isinstance(wv, tuple) and wv and wv[0] == "str" else None)
        item = P.items.get("roughenough::server::HTTP_RESPONSE", {}).get("val", {})
        ib = bytes(item["bytes"]) if "bytes" in item else (item["str"].encode() if "str" in item else (bytes(item["ref"]["bytes"]) if isinstance(item.get("ref"), dict) and "bytes" in item["ref"] else None))
        okw = txt is not None and txt.startswith(b"HTTP/1.1 200 OK") and (ib is None or txt == ib)     # a compile-time constant wherever it is declared (module item, associated const)
    ctx.check("health-check", "fixed-http-200-response", okw, "the handler writes the constant `HTTP/1.1 200 OK` response", "health check writes %s" % [fmt(w[1][1]) for w in writes], ctx.loc(hh))
    ok, why = chk.check("health_token_only_when_listener")
    ctx.check("health-check", "registered-only-when-configured", ok, why, why)
    sn = ctx.fn(SERVER + "::new")
    sev = W.ev(sn.path)
    tok = P.items.get("roughenough::server::EVT_HEALTH_CHECK", {}).get("val", {}).get("int")
    level = None
    # Server::new and the closures written in it (`health_check_port().map(|port| { .. poll.register(..) .. })`)
    for (f3, bb, t) in [(f3, bb, t) for f3 in [sn] + [g for g in P.fns.values() if g.path.startswith(sn.path + "::{closure")] for bb, t in f3.calls()]:
        if callee_name(t["fn"].get("path", "")) == "register":
            a = W.ev(f3.path).call_args(bb)
            if tok in [s[1] for s in values.subterms(a[2]) if isinstance(s, tuple) and s and s[0] == "int"] or a[2] == ("int", tok):
                opt = a[4]
                level = is_call(opt) and callee_name(opt[1]) == "level"
    accepts = [bb for bb, t in hh.calls() if callee_name(t["fn"].get("path", "")) == "accept"]
    # "drained": accept() sits in a loop that is left only on edges where this accept returned Err (WouldBlock or a real error);
    # a loop that can also stop on a counter leaves connections behind, which an edge-triggered listener never reports again
    drains = bool(accepts) and all(hh.in_loop(b) for b in accepts)
    if drains:
        HIN = flow.must_facts(hh, hev)
        hef = flow.edge_facts(hh, hev)
        for ab in accepts:
            act = hev.call_term(ab)
            for lp in hh.in_loop(ab):
                for (src, dst) in lp["exits"]:
                    fs = set(HIN.get(src, frozenset())) | set(hef.get((src, dst), ()))
                    rels = []
                    for f in fs:
                        rels.extend(flow.relational(f))
                    on_err = any(r[0] == "Eq" and isinstance(r[1], tuple) and r[1][0] == "discr" and values.strip_payload(r[1][1]) == act and r[2] == ("int", 1) for r in rels) \
                        or any(r[0] == "Ne" and isinstance(r[1], tuple) and r[1][0] == "discr" and values.strip_payload(r[1][1]) == act and r[2] == ("int", 0) for r in rels)
                    if not on_err:
                        drains = False
    ctx.check("health-check", "every-pending-connection-is-served", bool(level) or drains,
              "listener is %s" % ("level-triggered: it keeps signalling while connections are pending" if level else "drained until WouldBlock"),
              "the listener is edge-triggered but the handler can stop accepting while connections are still pending (single accept, or a loop with an exit other than accept() failing): those connections are never answered", ctx.loc(hh))

    # ------------------------------------------------------------------ (6) example.cfg
    txt = ctx.read_repo_file("example.cfg")
    doc = ctx.read_repo_file("src/config/mod.rs")
    keys = set(re.findall(r"^/// `([a-z_]+)` \| `ROUGHENOUGH_", doc, re.M))
    ranges = sp["config"]["ranges"]
    n = 0
    for line in txt.splitlines():
        line = line.split("#")[0].strip()
        if not line:
            continue
        m = re.match(r"^([A-Za-z_]+):\s*(.*)$", line)
        if not m:
            ctx.violation("example-cfg", "line/%s" % line[:20], "example.cfg line is not `key: value`: %r" % line)
            continue
        k, v = m.group(1), m.group(2).strip()
        n += 1
        ctx.check("example-cfg", "key/%s" % k, k in keys, "`%s` is a documented key" % k, "example.cfg uses the undocumented key `%s`" % k)
        if k in ranges:
            try:
                iv = int(v)
                lo, hi = ranges[k]
                ok = (lo is None or iv >= lo) and (hi is None or iv <= hi)
            except ValueError:
                ok = False
            ctx.check("example-cfg", "value/%s" % k, ok, "%s: %s is within the documented range" % (k, v), "example.cfg sets %s to %s, outside the documented range %s" % (k, v, ranges[k]))
        if k == "seed":
            ctx.check("example-cfg", "value/seed", bool(re.fullmatch(r"[0-9a-fA-F]{64}", v)), "seed is 32 bytes of hex", "example.cfg seed is not 64 hex digits")
    ctx.floor("example-cfg", n, 3, "settings in example.cfg")
    req = set(sp["config"]["required"])
    have = set(re.findall(r"^([A-Za-z_]+):", txt, re.M))
    ctx.check("example-cfg", "required-settings-present", req <= have, "example.cfg sets %s" % sorted(req), "example.cfg lacks %s" % sorted(req - have))

    # "a fully serving server": the workers that were started keep serving.  The panic obligations of the serving path (C08: nothing a datagram
    # sequence can do kills a worker) are obligations of C15 too - a worker that dies after N full batches leaves a documented configuration
    # (small batch_size) with fewer serving workers than configured.
    import importlib
    from framework import Ctx
    c8 = importlib.import_module("rules.C08")
    sub8 = Ctx("C08", P, ctx.repo, "quick", ctx.feature)
    c8.run(sub8)
    bad8 = [i for i in sub8.instances if not i["ok"]]
    ctx.check("keeps-serving", "no-worker-dies-while-serving(C08)", not bad8, "no reachable panic in a worker's serving code (C08 obligations hold: %d instances)" % len(sub8.instances),
              "a started worker can die while serving: " + (bad8[0]["detail"] if bad8 else ""), bad8[0].get("loc") if bad8 else None)

    # every valid batch_size (1..=64, is_valid_config) makes the receive loop run at least once per event: a loop that is empty for the
    # smallest documented value starts all workers and answers nothing
    bl = sm.batch_loop(ctx, W)
    its = {n: bl["iterations"](n) for n in (1, 2, 64)}
    okb = all(v is not None and v >= 1 for v in its.values())
    if bl["source"] is None:
        # not a `for` over a range: the first receive must not depend on any counter test
        okb = values.must_pass(bl["fn"], [bl["recv"]], from_block=0)
    ctx.check("keeps-serving", "receive-loop-runs-for-every-valid-batch-size", okb,
              "collect_requests reads at least one datagram per event for batch_size 1, 2, 64 (iterations %s)" % its,
              "for a valid batch_size the receive loop does not run at all (iterations for batch_size 1/2/64: %s, loop over %s): the server starts, "
              "passes its health check and never reads a request" % (its, values.fmt(bl["source"]) if bl["source"] else None), bl["fn"].loc(bl["header"]))

    # "every configuration composed of documented settings": the loaders must take every documented setting as written.  A setting that a loader
    # drops (or stores only when another setting came first) turns a valid configuration into one that validation refuses; the key-name and
    # wiring rules of C16 are therefore obligations of C15 as well.
    import importlib
    from framework import Ctx
    c16 = importlib.import_module("rules.C16")
    sub16 = Ctx("C16", P, ctx.repo, "quick", ctx.feature)
    c16.run(sub16)
    mine16 = [i for i in sub16.instances if i["rule"] in ("wiring", "key-names")]
    bad16 = [i for i in mine16 if not i["ok"]]
    ctx.check("settings-loaded", "documented-settings-are-loaded-as-written(C16)", not bad16, "both loaders store every documented setting (C16 key-name and wiring rules: %d instances)" % len(mine16),
              "a documented setting is not loaded as written, so a valid configuration can be refused or run differently: " + (bad16[0]["detail"] if bad16 else ""),
              bad16[0].get("loc") if bad16 else None)
    ctx.floor("settings-loaded", len(mine16), 40, "C16 key-name / wiring instances")

def fixture(fctx):
    import fixture_checks
    return fixture_checks.nopanic_alive(fctx)
