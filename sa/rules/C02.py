"""C02 — every server response verifies under an independent spec-derived verifier (structural clauses)."""
import flow
import values
import server_model as sm
from lib import (World, is_call, callee_name, tag_of, le_written, iter_elem, uncast, bytelen, intval, resolve_fields,
                 TAG, VERSION, VERSIONS)
from framework import spec
from mir import strip_generics, AnchorMissing
from values import Ev, fmt

EXPLANATION = """
Per protocol version (the relevant functions are specialised on `Version` by folding the version branches):
(1) context strings and wire value equal the spec table; make_cert performs update(dele_ctx) < update(DELE bytes) < sign on
the long-term signer and stores that signature under SIG and the same bytes under DELE; make_srep likewise with the
response context, the message it encodes and SIG/SREP; Responder::new certifies the online key and version it stores;
(2) the Merkle leaf is the whole datagram buf[..num_bytes] for RfcDraft13 and the NONC value for Google;
(3) the byte width of every tree hash (hash() result, padding node, PATH chunk width and modulus) equals the spec width
(64 / 32); (6) the reply is in the protocol of the request: the request-classification rules of C12 hold;
(4) leaf and node tweak constants equal 0x00 / 0x01 and are the first hashed element, and MerkleTree::hash digests every input slice whole and in order under self.algorithm;
(5) make_response adds exactly SIG, NONC, PATH, SREP, CERT, INDX from the batch's SREP message, the request's nonce, get_paths(idx),
this responder's certificate and the same idx, all taken from one enumerate().next() element that also supplies the
destination address; (6) Google responses use encode(), RfcDraft13 encode_framed();
(5b) the tree the responder signs is built under the C04 level-structure facts (odd levels padded, node pairs consumed two by two, levels cleared on
reset), so the signed ROOT is the root the returned PATH recomputes; (5c) responder typestate over the whole program: a request is added and
responses are sent only on a responder that was reset since its last send_responses (in process_events, in helpers, in their callers), so the
tree never holds leaves of an earlier batch, and the queue the responses are numbered by changes only together with the tree (queue_lockstep); (7) add_errors runs only on the true edge of should_add_error(), which is false whenever fault_percentage == 0; the
Bernoulli ratio is (fault_percentage, 100); new_deliberately_invalid is only called from grease.
"""
NOT_DECIDED = ("hash/signature values; number of PATH elements = depth of the batch (loop-count fact); the share of faulty "
               "replies as a number (statistical) - decided is only that the Bernoulli ratio is p/100 and that every transformation the injector can pick is one of the "
               "two known invalidating ones (random SIG, random tag order); that a greased reply fails outright for every verifier")
TRUSTED = ["ring digest::Context (SHA-512, 64-byte output)", "ed25519-dalek Signer::sign", "byteorder WriteBytesExt",
           "rand Bernoulli::from_ratio(n, d) fires with probability n/d"]

MERKLE = "roughenough::merkle::MerkleTree"


def merkle_assume(P, v):
    a = {}
    for fn in P.fns.values():
        if fn.impl_self == MERKLE:
            a[("field", ("param", fn.path, 1), "version")] = ("enum", VERSION, v)
    return a


def run(ctx):
    W = World(ctx)
    P = ctx.prog
    sp = spec()

    # ------------------------------------------------------------------ (1a) version tables
    for acc, key in (("dele_prefix", "dele_ctx"), ("sign_prefix", "srep_ctx"), ("wire_bytes", "wire")):
        fn = ctx.fn("roughenough::version::Version::" + acc)
        for v in VERSIONS:
            ev = Ev(P, fn, binds={1: ("enum", VERSION, v)})
            val = ev.resolve(ev.ret())
            want = sp["versions"][v][key]
            want = bytes(want) if isinstance(want, list) else want.encode("latin-1")
            ctx.check("version-table", "%s/%s" % (acc, v), val == ("bytes", want), "%s(%s) = %r" % (acc, v, want),
                      "%s(%s) evaluates to %s, the protocol says %r" % (acc, v, fmt(val), want), ctx.loc(fn))

    # ------------------------------------------------------------------ (1b) make_cert
    mc = ctx.fn(sm.MAKE_CERT)
    ev = W.ev(mc.path)
    seq = sm.sign_sequence(W, ev, (1, ("signer",)))
    names = [s[0] for s in seq]
    ok_seq = names == ["update", "update", "sign"] and sm.straight_line(mc, [s[2] for s in seq])
    ctx.check("sign-sequence", "make_cert/update-update-sign", ok_seq, "long-term signer: update, update, sign",
              "make_cert's use of the long-term signer is not update(ctx), update(DELE), sign: %s" % names, ctx.loc(mc))
    if ok_seq:
        ctxt, payload = seq[0][1], seq[1][1]
        okc = is_call(ctxt, "Version::dele_prefix") and ctxt[2][0] == ("param", mc.path, 2)
        ctx.check("sign-sequence", "make_cert/context-is-dele-prefix-of-version-param", okc, "first update is version.dele_prefix()",
                  "certificate is signed under %s instead of dele_prefix(version)" % fmt(ctxt), mc.loc(seq[0][2]))
        okp = is_call(values.strip_payload(payload), "RtMessage::encode") and is_call(values.strip_payload(payload)[2][0], "OnlineKey::make_dele") \
            and values.strip_payload(payload)[2][0][2][0] == ("param", mc.path, 3)
        ctx.check("sign-sequence", "make_cert/payload-is-encoded-dele-of-online-key", okp, "second update is online_key.make_dele().encode()",
                  "signed certificate payload is %s, expected encode(make_dele(online_key))" % fmt(payload), mc.loc(seq[1][2]))
        sig = ev.call_term(seq[2][2])
        r = ev.ret()
        okm = False
        why = "return value is not a local message"
        if r[0] == "obj":
            okb, fields, why = sm.message_built(W, ev, r)
            if okb:
                tags = [f[0] for f in fields]
                okm = tags == sp["versions"]["Google"]["cert_tags"] and fields[0][1] == sig and fields[1][1] == payload
                why = "CERT fields %s" % [(f[0], fmt(f[1])) for f in fields]
        ctx.check("sign-sequence", "make_cert/cert-carries-that-signature-and-payload", okm,
                  "CERT = {SIG: signature just made, DELE: the signed bytes}", "CERT message does not pair the signature with the signed DELE bytes: " + why, ctx.loc(mc))

    # make_dele contents
    md = ctx.fn(sm.MAKE_DELE)
    dev = W.ev(md.path)
    r = dev.ret()
    if r[0] == "obj":
        okb, fields, why = sm.message_built(W, dev, r)
        tags = [f[0] for f in fields]
        ctx.check("message-tags", "make_dele/tags", okb and tags == sp["versions"]["Google"]["dele_tags"], "DELE = PUBK, MINT, MAXT",
                  "DELE message tags are %s (%s)" % (tags, why), ctx.loc(md))
        if okb and len(fields) == 3:
            from lib import signer_pubkey
            okpk = signer_pubkey(W, fields[0][1]) == ("field", ("param", md.path, 1), "signer")
            ctx.check("message-tags", "make_dele/pubk-is-online-key", okpk, "PUBK = public key of this online key's signer",
                      "DELE.PUBK is %s" % fmt(fields[0][1]), md.loc(fields[0][2]))
            mint, maxt = fields[1][1], fields[2][1]
            from lib import const_bytes
            mi, ma = const_bytes(W, mint), const_bytes(W, maxt)
            okw = mi == bytes(8) and ma == b"\xff" * 8
            ctx.check("message-tags", "make_dele/window-covers-every-midpoint", okw, "MINT = 8 x 0x00, MAXT = 8 x 0xff",
                      "delegation window is MINT=%r MAXT=%r" % (mi, ma), ctx.loc(md))
    else:
        ctx.violation("message-tags", "make_dele/tags", "make_dele does not return a locally built message")

    # ------------------------------------------------------------------ (1c) make_srep per version
    ms = ctx.fn(sm.MAKE_SREP)
    for v in VERSIONS:
        ev = Ev(P, ms, binds={2: ("enum", VERSION, v)})
        live = ev.live()
        seq = sm.sign_sequence(W, ev, (1, ("signer",)), live)
        names = [s[0] for s in seq]
        ok_seq = names == ["update", "update", "sign"] and sm.straight_line(ms, [s[2] for s in seq])
        ctx.check("sign-sequence", "make_srep/%s/update-update-sign" % v, ok_seq, "online signer: update, update, sign",
                  "make_srep's use of the online signer is %s" % names, ctx.loc(ms))
        if not ok_seq:
            continue
        ctxt = ev.resolve(seq[0][1])
        want = sp["versions"][v]["srep_ctx"].encode("latin-1")
        ctx.check("sign-sequence", "make_srep/%s/context" % v, ctxt == ("bytes", want) and is_call(seq[0][1], "Version::sign_prefix"),
                  "context = sign_prefix(%s) = %r" % (v, want), "SREP is signed under %s" % fmt(ctxt), ms.loc(seq[0][2]))
        payload = values.strip_payload(seq[1][1])
        sig = ev.call_term(seq[2][2])
        okp = is_call(payload, "RtMessage::encode") and payload[2][0][0] == "obj"
        ctx.check("sign-sequence", "make_srep/%s/payload-is-encoded-srep" % v, okp, "signed bytes = encode(SREP message)",
                  "signed SREP payload is %s" % fmt(payload), ms.loc(seq[1][2]))
        if okp:
            srep_obj = payload[2][0]
            okb, fields, why = sm.message_built(W, ev, srep_obj, live)
            tags = [f[0] for f in fields]
            want_tags = sp["versions"][v]["srep_tags"]
            ctx.check("message-tags", "make_srep/%s/tags" % v, okb and tags == want_tags, "SREP tags %s" % want_tags,
                      "SREP tags for %s are %s, spec %s (%s)" % (v, tags, want_tags, why), ctx.loc(ms))
            enc_bb = payload[3][1]
            ok_order = okb and all(ms.dominates(f[2], enc_bb) or values.must_pass(ms, [f[2]], from_block=0, to_blocks={enc_bb}, live=live) for f in fields)
            ctx.check("sign-sequence", "make_srep/%s/all-fields-added-before-encoding" % v, ok_order, "every SREP field is added before encode()",
                      "a field is added to SREP after it was encoded/signed", ctx.loc(ms))
            for (tg, val, bb) in fields:
                if tg == "ROOT":
                    ctx.check("message-tags", "make_srep/%s/ROOT-is-merkle-root-param" % v, val == ("param", ms.path, 4), "ROOT = merkle_root parameter",
                              "ROOT is %s" % fmt(val), ms.loc(bb))
                if tg == "VER":
                    rv = ev.resolve(val)
                    ctx.check("message-tags", "make_srep/%s/VER" % v, rv == ("bytes", bytes(sp["versions"][v]["wire"])), "VER = wire value of %s" % v,
                              "VER is %s" % fmt(rv), ms.loc(bb))
                if tg == "VERS":
                    vv = resolve_fields(W, ev, val)
                    okv = is_call(vv, "Version::supported_versions_wire")
                    ctx.check("message-tags", "make_srep/%s/VERS" % v, okv, "VERS = supported_versions_wire()", "VERS is %s" % fmt(vv), ms.loc(bb))
        r = ev.ret()
        okm = False
        why = ""
        if r[0] == "obj":
            okb, fields, why = sm.message_built(W, ev, r, live)
            if okb and [f[0] for f in fields] == ["SIG", "SREP"]:
                okm = fields[0][1] == sig and values.strip_payload(fields[1][1]) == payload
            why = "%s" % [(f[0], fmt(f[1])) for f in fields]
        ctx.check("sign-sequence", "make_srep/%s/result-pairs-signature-with-signed-bytes" % v, okm, "result = {SIG: signature, SREP: the signed bytes}",
                  "make_srep result does not pair the signature with the signed bytes: " + why, ctx.loc(ms))

    # ------------------------------------------------------------------ (1d) Responder::new certifies what it stores
    cs = W.ctor_fields(sm.RESPONDER)
    if len(cs) != 1:
        raise AnchorMissing("one construction of Responder")
    rfn, rbb, ridx, rfields = cs[0]
    cert = values.strip_payload(rfields.get("cert_bytes"))
    okc = is_call(cert, "RtMessage::encode") and is_call(cert[2][0], "LongTermKey::make_cert")
    if okc:
        mcargs = cert[2][0][2]
        okc = mcargs[1] == rfields.get("version") or (mcargs[1] == ("param", rfn.path, 1) and rfields.get("version") == ("param", rfn.path, 1))
        okk = mcargs[2] == rfields.get("online_key") or (mcargs[2][0] == "obj" and rfields.get("online_key") == mcargs[2])
        # the long-term key parameter of Responder::new, by type (the parameter list is not part of the property)
        ltkp = next((i for i in range(1, rfn.nargs + 1) if "LongTermKey" in rfn.locals[i]["ty"]), 3)
        okc = okc and okk and mcargs[0] == ("param", rfn.path, ltkp)
    ctx.check("sign-sequence", "Responder::new/certifies-stored-key-and-version", okc,
              "cert_bytes = encode(ltk.make_cert(version stored, online key stored))",
              "Responder's certificate is not made for the online key / version it stores: " + fmt(cert), rfn.loc(rbb, ridx))
    mk = rfields.get("merkle")
    ctx.check("sign-sequence", "Responder::new/merkle-tree-of-same-version", is_call(mk, "MerkleTree::new") and mk[2][0] == rfields.get("version"),
              "merkle = MerkleTree::new(version stored)", "Responder's Merkle tree is built for %s" % fmt(mk), rfn.loc(rbb, ridx))

    # ------------------------------------------------------------------ (2) leaf definition
    cfn, cev, routes = sm.routing(ctx, W)
    rv, sfields, sfn = sm.responder_versions(W)
    seenv = set()
    for r in routes:
        v = r["version"]
        kind, leaf, why = sm.leaf_of(ctx, W, r)
        if v is None:
            ctx.violation("leaf-definition", "route@%s/version-unknown" % callee_name(r["callee"]), "cannot determine the protocol version of this routing arm", cfn.loc(r["bb"]))
            continue
        seenv.add(v)
        want = sp["versions"][v]["leaf"]
        ctx.check("leaf-definition", "%s/leaf-kind" % v, kind == want, "Merkle leaf for %s is the %s (%s)" % (v, kind, why),
                  "Merkle leaf for %s requests is %s (%s); the protocol hashes the %s" % (v, kind, why, want), cfn.loc(r["bb"]))
    for v in VERSIONS:
        if v not in seenv:
            ctx.violation("leaf-definition", "%s/route-missing" % v, "no routing arm for %s requests in collect_requests" % v)

    # ------------------------------------------------------------------ (3) node width, (4) tweaks
    hf = ctx.fn(MERKLE + "::hash")
    for v in VERSIONS:
        assume = merkle_assume(P, v)
        want = sp["versions"][v]["node_width"]
        ev = Ev(P, hf, assume=assume)
        ev.live()
        n = bytelen(W, ev, ev.ret())
        ctx.check("node-width", "%s/hash-output" % v, n == want, "hash() yields %d bytes" % want,
                  "tree hash for %s is %s bytes wide, the protocol says %d" % (v, n, want), ctx.loc(hf))
        # padding node in compute_root
        cr = ctx.fn(MERKLE + "::compute_root")
        ev2 = Ev(P, cr, assume=assume)
        pads = []
        from lib import zero_fill
        for bb, t in cr.calls():
            if callee_name(t["fn"].get("path", "")) == "push" and bb in ev2.live():
                z = zero_fill(W, ev2, ev2.call_args(bb)[1])
                if z is not None:
                    pads.append((bb, intval(W, ev2, z)))
        ctx.check("node-width", "%s/padding-node" % v, bool(pads) and all(p[1] == want for p in pads), "padding node is %d zero bytes" % want,
                  "padding node width for %s is %s, expected %d" % (v, [p[1] for p in pads], want), ctx.loc(cr))
        rp = ctx.fn(MERKLE + "::root_from_paths")
        ev3 = Ev(P, rp, assume=assume)
        chunks = [(bb, intval(W, ev3, ev3.call_args(bb)[1])) for bb, t in rp.calls() if callee_name(t["fn"].get("path", "")) in ("chunks", "chunks_exact")]
        ctx.check("node-width", "%s/path-chunk-width" % v, len(chunks) == 1 and chunks[0][1] == want, "PATH is split into %d-byte elements" % want,
                  "PATH chunk width for %s is %s, expected %d" % (v, [c[1] for c in chunks], want), ctx.loc(rp))
        mods = []
        for bl in rp.blocks:
            for i, st in enumerate(bl.stmts):
                if st["k"] == "assign" and st["rv"]["k"] == "binop" and st["rv"]["op"] == "Rem":
                    # only a remainder of the PATH length (the position parity test `index % 2` is not a width)
                    lhs = ev3.op(st["rv"]["a"], (bl.idx, i))
                    if values.contains(lhs, lambda x: isinstance(x, tuple) and x and x[0] == "len" and x[1] == ("param", rp.path, 4)):
                        mods.append(intval(W, ev3, ev3.op(st["rv"]["b"], (bl.idx, i))))
        ctx.check("node-width", "%s/path-length-modulus" % v, all(m == want for m in mods), "PATH length checked modulo %d" % want,
                  "PATH length modulus for %s is %s, expected %d" % (v, mods, want), ctx.loc(rp), nontrivial=bool(mods))
    import merkle_hash
    merkle_hash.check_hashing(ctx, W, "tweaks")

    # the inclusion path of every position is complete only if the tree structure rules of C04 hold
    import audit_facts
    chk = audit_facts.Checker(ctx, W)
    okm, whym = chk.check("merkle_level_structure")
    ctx.check("merkle-structure", "paths-and-root-agree", okm, whym, "the Merkle path / root construction is inconsistent, so issued paths do not recompute the signed root: " + whym)

    # ------------------------------------------------------------------ (5) response assembly
    mr = ctx.fn(sm.MAKE_RESPONSE)
    ev = W.ev(mr.path)
    r = ev.ret()
    fields = []
    if r[0] == "obj":
        okb, fields, why = sm.message_built(W, ev, r)
    else:
        okb, why = False, "not a locally built message"
    tags = [f[0] for f in fields]
    ctx.check("response-assembly", "make_response/tags", okb and tags == sp["versions"]["Google"]["response_tags"], "response tags SIG NONC PATH SREP CERT INDX",
              "response tags are %s (%s)" % (tags, why), ctx.loc(mr))
    # Every field value of the response is looked at as the caller sees it: make_response's parameters are replaced by the arguments of its
    # (only) call in send_responses, so it does not matter whether a value is passed in or read from `self` inside make_response.
    sr = ctx.fn(sm.SEND)
    sev = W.ev(sr.path)
    sites = [bb for bb, t in sr.calls() if mr.path in P.call_targets(t)]
    if len(sites) != 1:
        raise AnchorMissing("one make_response call in send_responses")
    args = [W.expand(a) for a in sev.call_args(sites[0])]
    selfp = ("param", sr.path, 1)
    bound = {}
    for (tg, val, bb) in fields:
        v0 = values.strip_payload(val)
        if tg == "INDX":
            w = le_written(W, v0)
            okf = w is not None and w["size"] == 4 and w["width"] == 4 and w["endian"] == "LittleEndian"
            ctx.check("response-assembly", "make_response/INDX-le-u32-of-param", okf, "INDX = u32 LE of the index value",
                      "INDX is not a little-endian u32: %s" % (w,), mr.loc(bb))
            if okf:
                bound[tg] = W.expand(W.bind_params(W.expand(w["value"]), mr.path, args))
        else:
            bound[tg] = W.expand(W.bind_params(W.expand(v0), mr.path, args))
    srep_t = None
    for tg in ("SIG", "SREP"):
        v = values.strip_payload(bound.get(tg)) if bound.get(tg) is not None else None
        okf = is_call(v, "RtMessage::get_field") and tag_of(v[2][1]) == tg
        src = W.expand(values.strip_payload(v[2][0])) if okf else None
        if okf and srep_t is None:
            srep_t = src
        ctx.check("response-assembly", "make_response/%s-from-batch-srep" % tg, okf and src == srep_t, "%s = srep.get_field(%s) of the batch's signed response" % (tg, tg),
                  "%s of the response is %s" % (tg, fmt(v)), ctx.loc(mr))
    oks = is_call(srep_t, "OnlineKey::make_srep") and srep_t[2][0] == ("field", selfp, "online_key") and srep_t[2][1] == ("field", selfp, "version")
    root_t = srep_t[2][3] if is_call(srep_t, "OnlineKey::make_srep") else None
    okroot = is_call(root_t, "MerkleTree::compute_root") and root_t[2][0] == ("field", selfp, "merkle")
    ctx.check("response-assembly", "send_responses/srep-signed-by-own-key-over-own-root", oks and okroot,
              "srep = online_key.make_srep(self.version, now, self.merkle.compute_root())",
              "the SREP used for responses is %s" % fmt(srep_t), sr.loc(sites[0]))
    ctx.check("response-assembly", "send_responses/srep-made-once-per-batch", is_call(srep_t) and srep_t[3][0] == sr.path and not sr.in_loop(srep_t[3][1]),
              "make_srep is called once per batch (outside the response loop)", "make_srep is called inside the per-request loop", sr.loc(sites[0]))
    cert_a = bound.get("CERT")
    ctx.check("response-assembly", "send_responses/cert-is-own-certificate", cert_a == ("field", selfp, "cert_bytes"), "CERT = self.cert_bytes",
              "CERT of the response is %s" % fmt(cert_a), sr.loc(sites[0]))
    idx_a = uncast(bound.get("INDX")) if bound.get("INDX") is not None else None
    nonce_a = bound.get("NONC")
    path_a = bound.get("PATH")
    ie_idx = iter_elem(W, idx_a) if idx_a else None
    ie_nonce = iter_elem(W, nonce_a) if nonce_a else None
    okidx = ie_idx is not None and ie_idx["what"] == "index" and ie_idx["container"] == ("field", selfp, "requests")
    QR = sm.queue_roles(ctx, W)
    okn = ie_nonce is not None and ie_nonce["what"] == "elem" and ie_nonce["fields"] == (QR["nonce"],) and ie_nonce["container"] == ("field", selfp, "requests")
    same = okidx and okn and ie_idx["site"] == ie_nonce["site"]
    ctx.check("response-assembly", "send_responses/index-and-nonce-from-one-element", same,
              "idx and nonce come from the same requests.iter().enumerate().next() element",
              "idx (%s) and nonce (%s) are not the index and first component of one element of self.requests" % (fmt(idx_a), fmt(nonce_a)), sr.loc(sites[0]))
    if isinstance(path_a, tuple) and path_a and path_a[0] == "obj":
        from lib import outparam_wrapper_value
        eq = outparam_wrapper_value(W, sr, sev, path_a, sites[0])
        if eq is not None:
            path_a = eq
    okp = is_call(path_a, "MerkleTree::get_paths") and W.expand(path_a[2][0]) == ("field", selfp, "merkle") and uncast(W.expand(path_a[2][1])) == idx_a
    ctx.check("response-assembly", "send_responses/path-for-same-index", okp, "PATH = self.merkle.get_paths(idx) for the same idx",
              "PATH is %s while INDX is %s" % (fmt(path_a), fmt(idx_a)), sr.loc(sites[0]))
    # destination
    sends = [bb for bb, t in sr.calls() if strip_generics(t["fn"].get("path", "")).endswith("UdpSocket::send_to")]
    for sb in sends:
        sargs = [W.expand(a) for a in sev.call_args(sb)]
        ie = iter_elem(W, sargs[2])
        okd = ie is not None and ie["what"] == "elem" and ie["fields"] == (QR["addr"],) and ie_nonce is not None and ie["site"] == ie_nonce["site"]
        ctx.check("response-assembly", "send_responses/destination-from-same-element", okd, "destination = address of the same queued request",
                  "send_to destination %s is not the address stored with this request" % fmt(sargs[2]), sr.loc(sb))
    ctx.floor("response-assembly", len(sends), 1, "send_to call sites in send_responses")

    # ------------------------------------------------------------------ (6) framing per version
    for v in VERSIONS:
        ev = Ev(P, sr, assume=sm.version_assume(sr.path, v))
        live = ev.live()
        for sb in sends:
            if sb not in live:
                continue
            payload = values.strip_payload(ev.call_args(sb)[1])
            want = "encode_framed" if sp["versions"][v]["framed"] else "encode"
            alts = payload[1] if payload[0] == "phi" else (payload,)
            got = sorted({callee_name(a[1]) if is_call(a) else fmt(a) for a in alts})
            ctx.check("framing", "%s/encoder" % v, got == [want], "%s responses are sent with %s()" % (v, want),
                      "%s responses are encoded with %s, expected %s" % (v, got, want), sr.loc(sb))
            # message encoded = make_response result or its greased variant
            for a in alts:
                if is_call(a):
                    m = a[2][0]
                    srcs = m[1] if m[0] == "phi" else (m,)
                    okm = all(is_call(s, "Responder::make_response") or (is_call(s, "Grease::add_errors") and is_call(s[2][1], "Responder::make_response")) for s in srcs)
                    ctx.check("framing", "%s/encodes-the-built-response" % v, okm, "the encoded message is make_response(..) (or its greased copy)",
                              "the message that is sent is %s" % fmt(m), sr.loc(sb))

    # ------------------------------------------------------------------ (7) fault injection gating
    GREASE = "roughenough::grease::Grease"
    IN = flow.must_facts(sr, sev)
    for bb, t in sr.calls():
        if GREASE + "::add_errors" in P.call_targets(t):
            rels = flow.rel_facts_at(IN, bb)
            okg = any(r[0] == "True" and is_call(r[1], "Grease::should_add_error") for r in rels)
            ctx.check("grease-gating", "send_responses/add_errors-only-if-should_add_error", okg, "add_errors only on the true edge of should_add_error()",
                      "add_errors is called without should_add_error() being true", sr.loc(bb))
    sae = ctx.fn(GREASE + "::should_add_error")
    gev = W.ev(sae.path)
    # returns false on the !enabled edge
    gin = flow.must_facts(sae, gev)
    okfalse = True
    seen_enabled_branch = False
    for b in sae.exits():
        pass
    r = gev.ret()
    alts = r[1] if r[0] == "phi" else (r,)
    # evaluate with enabled = false: must fold to constant false
    ev0 = Ev(P, sae, assume={("field", ("param", sae.path, 1), "enabled"): ("int", 0)})
    r0 = ev0.ret()
    ctx.check("grease-gating", "should_add_error/false-when-disabled", r0 == ("int", 0), "should_add_error() == false when !enabled",
              "should_add_error() can return %s when faults are disabled" % fmt(r0), ctx.loc(sae))
    gcs = W.ctor_fields(GREASE)
    for (gfn, gbb, gidx, gf) in gcs:
        en = gf.get("enabled")
        oken = isinstance(en, tuple) and en[0] == "bin" and en[1] == "Gt" and en[2] == ("param", gfn.path, 1) and en[3] == ("int", 0)
        ctx.check("grease-gating", "Grease::new/enabled-iff-percentage-positive", oken, "enabled = fault_percentage > 0", "enabled is %s" % fmt(en), gfn.loc(gbb, gidx))
        dist = gf.get("dist")
        okd = is_call(dist, "Bernoulli::from_ratio") and uncast(dist[2][0]) == ("param", gfn.path, 1) and dist[2][1] == ("int", 100)
        if is_call(dist, "Bernoulli::from_ratio") and not okd:
            a0 = dist[2][0]
            okd = (is_call(a0) and a0[2] and uncast(a0[2][0]) == ("param", gfn.path, 1)) and dist[2][1] == ("int", 100)
        ctx.check("grease-gating", "Grease::new/ratio-is-percentage-over-100", okd, "dist = Bernoulli::from_ratio(fault_percentage, 100)",
                  "fault distribution is %s" % fmt(dist), gfn.loc(gbb, gidx))
    ctx.floor("grease-gating", len(gcs), 1, "Grease constructions")
    # (5c) the tree a response's PATH / ROOT come from holds exactly the batch being answered: every add / send follows that responder's reset
    sm.responder_typestate(ctx, W, "tree-is-this-batch")
    # ... and the queue the responses are numbered by holds exactly the leaves of that tree, in order
    sm.queue_lockstep(ctx, W, "tree-is-this-batch")
    # Responder passes config.fault_percentage()
    gr = rfields.get("grease")
    okgr = is_call(gr, "Grease::new") and is_call(gr[2][0]) and gr[2][0][1].endswith("fault_percentage")
    if not okgr and is_call(gr, "Grease::new") and isinstance(gr[2][0], tuple) and gr[2][0][0] == "param" and gr[2][0][1] == rfn.path:
        # the percentage passed in by the caller(s) of Responder::new, who read it from the configuration
        vals_ = {fmt(W.expand(W.ev(cp).call_args(cbb)[gr[2][0][2] - 1])) for (cp, cbb) in P.callers(rfn.path)}
        cands = [W.expand(W.ev(cp).call_args(cbb)[gr[2][0][2] - 1]) for (cp, cbb) in P.callers(rfn.path)]
        okgr = bool(cands) and all(is_call(values.strip_payload(c)) and values.strip_payload(c)[1].endswith("fault_percentage") for c in cands)
    # "the failing share is p percent": every transformation the injector can pick must make the reply fail for every batch.  The two of the
    # reference tree do (a random 64-byte SIG; a random reordering of at least five tags); whether another one does is not decided here, so a
    # pathology that is neither is reported (C07's pathology rule recognises exactly these two shapes).
    import importlib as _il
    from framework import Ctx as _Ctx
    c7 = _il.import_module("rules.C07")
    sub7 = _Ctx("C07", P, ctx.repo, "quick", ctx.feature)
    c7.run(sub7)
    path7 = [i for i in sub7.instances if "/grease/pathology" in i["key"]]
    bad7 = [i for i in path7 if not i["ok"]]
    ctx.check("grease-gating", "every-pathology-invalidates-the-reply(C07)", not bad7 and len(path7) >= 2,
              "add_errors picks among %d transformations, each known to make the reply fail verification" % len(path7),
              "fault injection can pick a transformation that is not known to invalidate the reply for every batch (the failing share can fall below the configured percentage): " +
              (bad7[0]["detail"] if bad7 else "pathologies not found"), bad7[0].get("loc") if bad7 else None)
    ctx.check("grease-gating", "Responder::new/grease-from-config-fault-percentage", okgr, "grease = Grease::new(config.fault_percentage())",
              "Responder's fault injector is %s" % fmt(gr), rfn.loc(rbb, ridx))
    NDI = "roughenough::message::RtMessage::new_deliberately_invalid"
    callers = sorted({c[0] for c in P.callers(NDI)})
    ctx.check("grease-gating", "new_deliberately_invalid/callers", all(c.startswith("roughenough::grease::") for c in callers),
              "new_deliberately_invalid is only called from grease (%s)" % callers, "new_deliberately_invalid is called from %s" % callers)

    # "for any mix of classic and IETF requests": the reply must be in the protocol the request was made in.  Which protocol a datagram is taken
    # for is decided by the request classification (framing, version negotiation): the structure rules of C12 are obligations of C02 as well - a
    # framed request that can negotiate the classic version is answered with an unframed Google-format reply that its sender cannot verify.
    import importlib
    from framework import Ctx
    c12 = importlib.import_module("rules.C12")
    sub12 = Ctx("C12", P, ctx.repo, "quick", ctx.feature)
    c12.run(sub12)
    bad12 = [i for i in sub12.instances if not i["ok"]]
    ctx.check("protocol-match", "reply-protocol-follows-request-classification(C12)", not bad12,
              "framed requests negotiate draft-13 only and are answered by the IETF responder (C12 structure rules hold: %d instances)" % len(sub12.instances),
              "a request can be answered in the other protocol's format: " + (bad12[0]["detail"] if bad12 else ""), bad12[0].get("loc") if bad12 else None)
