"""C19 — SIGINT or SIGTERM at any moment stops the server cleanly and promptly (shutdown structure)."""
import re

import flow
import values
import server_model as sm
from lib import World, is_call, callee_name
from mir import strip_generics, AnchorMissing
from values import fmt

EXPLANATION = """
(1) The signal handler is installed, with its result checked, on every path before any thread is spawned; ctrlc is built with the `termination` feature
(Cargo.toml), so SIGTERM is covered as well as SIGINT.  (2) Every path through the handler stores `false` into KEEP_RUNNING and the handler reaches no lock, wait, sleep, socket, process exit or
panic site (ctrlc runs it on its own thread, so logging there is allowed; every delivery instant is equivalent); each worker loads the same static after every process_events call and leaves its loop on false; the reporter loads it as its loop
condition (the parameter is bound to KEEP_RUNNING at the only call site).  (2c) After the flag was seen false nothing that can panic runs before the worker / reporter thread ends (exit status 0, not 101).  (3) process_events returns when idle: the poll timeout is Some(constant <= 1 s).
(4) One reporter iteration is bounded by a constant sleep.  (5) After all joins main calls process::exit(0), and no other exit status is reachable after the spawn loop.
(6) Every loop reachable from a thread entry is classified from the CFG and the provenance of its exit conditions: iteration over a finite collection/range,
computation over in-memory values, or dependent on a socket / queue / random source; loops of the last kind must load the flag in every iteration (or carry an
audited reason); since the K1 repair process_events handles one batch per readiness event and has no input-driven inner loop.
A response leaves the process in a single send_to of a completely built buffer and the flag is never read inside send_responses, so every response emitted before exit is complete;
the responder typestate (reset -> add* -> send_responses, over every function including the code after the worker loop) shows that no response is built from a stale batch on the way out.
"""
NOT_DECIDED = "time-to-exit as a duration (timing); OS signal delivery"
TRUSTED = ["ctrlc runs the handler on SIGINT (and SIGTERM/SIGHUP with the termination feature)", "mio Poll::poll honours its timeout"]

MAIN = "roughenough_server::main"
FLAG = "roughenough_server::KEEP_RUNNING"
IO_NAMES = ("recv_from", "recv", "accept", "pop", "try_recv", "read", "read_exact", "peek", "poll",
            # progress that depends on another thread or on the peer: a full queue, a contended lock, a busy socket
            "push", "try_send", "send", "send_to", "try_lock", "connect", "compare_exchange", "compare_exchange_weak", "recv_timeout", "is_full", "is_empty_queue")
RANDOM_NAMES = ("next_u32", "next_u64", "gen", "fill_bytes", "sample")
FINITE_ITER = ("iter", "iter_mut", "into_iter", "enumerate", "zip", "take", "chunks", "chunks_exact", "map", "copied", "cloned", "filter", "filter_map", "find_map", "take_while", "skip_while", "step_by", "flat_map", "flatten", "split_at", "zip", "values", "keys", "chain", "once", "rev", "skip", "drain", "windows")


def flag_terms(W, fn, ev, bound_params):
    """Blocks in fn that load the shutdown flag: [(bb, call term)]"""
    out = []
    for bb, t in fn.calls():
        p = strip_generics(t["fn"].get("path", ""))
        if p.endswith("::load") and "atomic" in p:
            recv = ev.call_args(bb)[0]
            if values.contains(recv, lambda s: s == ("static", FLAG)) or recv == ("static", FLAG) or recv in bound_params:
                out.append((bb, ev.call_term(bb)))
    return out


def run(ctx):
    W = World(ctx)
    P = ctx.prog
    main = ctx.fn(MAIN)
    mev = W.ev(MAIN)

    # ------------------------------------------------------------------ (1) handler before spawn; termination feature
    from lib import spawn_contexts
    sctx = spawn_contexts(ctx, W)
    # the block of main at which each spawn (or the iterator chain / helper that performs it) sits
    spawns = sorted({d["main_bb"] for d in sctx if d["main_bb"] is not None})
    ctx.check("handler-installed", "spawns-located", len(spawns) >= 1 and all(d["main_bb"] is not None for d in sctx), "every thread spawn is reached from main through a single call path",
              "anchor-missing: a thread spawn cannot be located relative to main", ctx.loc(main))
    setters = []
    for f in P.fns.values():
        for bb, t in f.calls():
            if strip_generics(t["fn"].get("path", "")).endswith("ctrlc::set_handler"):
                setters.append((f, bb, t))
    ctx.check("handler-installed", "single-installation", len(setters) == 1, "ctrlc::set_handler is called once", "%d set_handler calls" % len(setters))
    if len(setters) != 1:
        raise AnchorMissing("ctrlc::set_handler call")
    sf, sbb, stt = setters[0]
    sev = W.ev(sf.path)
    # result checked: consumed by expect/unwrap or branched
    nxt = sf.blocks[sbb].term["tgt"]
    t2 = sf.blocks[nxt].term if nxt is not None else None
    checked = t2 is not None and t2["k"] == "call" and callee_name(t2["fn"].get("path", "")) in ("expect", "unwrap") and values.strip_payload(sev.call_args(nxt)[0]) == sev.call_term(sbb)
    ctx.check("handler-installed", "result-checked", checked, "a failing set_handler aborts start-up (expect)", "the result of ctrlc::set_handler is not checked", sf.loc(sbb))
    # the installing function is called in main before every spawn
    inst = [bb for bb, t in main.calls() if sf.path in P.call_targets(t)] if sf.path != MAIN else [sbb]
    okb = bool(inst) and all(any(main.dominates(i, s) and i != s for i in inst) for s in spawns) and bool(spawns)
    ctx.check("handler-installed", "before-any-spawn", okb, "the handler is installed on every path before a thread is spawned", "a thread can be spawned before the signal handler is installed", main.loc(inst[0]) if inst else ctx.loc(main))
    cargo = ctx.read_repo_file("Cargo.toml")
    m = re.search(r"^ctrlc\s*=\s*(.*)$", cargo, re.M)
    okt = bool(m) and "termination" in m.group(1)
    ctx.check("handler-installed", "ctrlc-termination-feature", okt, "ctrlc is built with the `termination` feature (SIGTERM handled)", "Cargo.toml: ctrlc without the `termination` feature: SIGTERM kills the process without clean-up (%s)" % (m.group(0) if m else "no ctrlc dependency"))

    # ------------------------------------------------------------------ (2) handler effect; flag loads
    hclos = [c for c in stt.get("closures", []) if not c.startswith("fn:")]
    if len(hclos) != 1:
        raise AnchorMissing("handler closure")
    h = ctx.fn(hclos[0])
    hev = W.ev(h.path)
    calls = [(bb, strip_generics(t["fn"].get("path", ""))) for bb, t in h.calls()]
    # store(false), swap(false) and fetch_and(false) all leave the flag false
    stores = [(bb, p) for bb, p in calls if (p.endswith("::store") or p.endswith("::swap") or p.endswith("::fetch_and")) and "atomic" in p]
    # ctrlc runs the handler on a thread of its own (not in signal context): logging there is harmless.  What matters is that the store happens
    # on every path and that nothing before or around it can block, terminate the process abruptly or panic.
    good = []
    for bb, p in stores:
        a = hev.call_args(bb)
        if (values.contains(a[0], lambda s: s == ("static", FLAG)) or a[0] == ("static", FLAG)) and a[1] == ("int", 0):
            good.append(bb)
    rets = [bl.idx for bl in h.blocks if bl.term["k"] == "return"]
    oks = bool(good) and (not rets or values.must_pass(h, good, from_block=0, to_blocks=set(rets)))
    bad_stores = [bb for bb, p in stores if bb not in good]
    ctx.check("handler-effect", "stores-false-to-flag-on-every-path", oks and not bad_stores, "every path through the handler stores false into KEEP_RUNNING",
              "the signal handler can return without clearing KEEP_RUNNING (or stores something else)", ctx.loc(h))
    reach_h, ext_h, _ = P.reach([h.path])
    BLOCKING = ("Mutex", "RwLock", "Condvar", "thread::sleep", "::join", "::recv", "process::exit", "process::abort", "panic", "::unwrap", "::expect",
                "TcpStream", "UdpSocket", "::wait", "park")
    risky = sorted({e for e in ext_h if any(x in e for x in BLOCKING) and not e.startswith("log::") and "fmt" not in e})
    for f in reach_h:
        fn_ = P.fns.get(f)
        if fn_ is None:
            continue
        for bl in fn_.blocks:
            if bl.term["k"] == "assert" and bl.idx in fn_.reachable():
                risky.append("%s: runtime assertion" % f)
    ctx.check("handler-effect", "nothing-blocks-or-aborts-in-the-handler", not risky, "the handler reaches no lock, wait, sleep, socket, exit or panic site",
              "the signal handler reaches %s" % risky[:4], ctx.loc(h))

    # thread entries
    entries = [(d["entry"], d["main_bb"]) for d in sctx if d["entry"]]
    worker = [(d["entry"], d["main_bb"]) for d in sctx if d["entry"] and d["looped"]]
    reporter = [(d["entry"], d["main_bb"]) for d in sctx if d["entry"] and not d["looped"]]

    # parameters bound to the flag (reporter.processing_loop(KEEP_RUNNING.deref()))
    bound = {}
    for f in P.fns.values():
        e = None
        for bb, t in f.calls():
            for tg in P.call_targets(t):
                if tg in P.fns:
                    e = e or W.ev(f.path)
                    from lib import closure_env_terms
                    envm = closure_env_terms(W, f.path)
                    for i, a in enumerate(e.call_args(bb)):
                        if envm:
                            a = W.subst(a, envm)      # a value captured by the thread's closure, as main created it
                        if a == ("static", FLAG) or values.contains(a, lambda s: s == ("static", FLAG)):
                            bound.setdefault(tg, set()).add(("param", tg, i + 1))

    # ------------------------------------------------------------------ loops reachable from the thread entries
    reach, ext, parent = P.reach([e[0] for e in entries])
    io_reach_cache = {}

    def reaches_io(path):
        if path not in io_reach_cache:
            r2, e2, _ = P.reach([path])
            io_reach_cache[path] = sorted({callee_name(x) for x in e2 if callee_name(x) in IO_NAMES and any(k in x for k in ("mio::", "net::", "crossbeam", "Udp", "Tcp", "ArrayQueue"))}), \
                sorted({callee_name(x) for x in e2 if callee_name(x) in RANDOM_NAMES and "rand" in x})
        return io_reach_cache[path]

    nloops = 0
    kinds = {}
    for fp in sorted(reach):
        fn = P.fns[fp]
        ev = W.ev(fp)
        fl = flag_terms(W, fn, ev, bound.get(fp, set()))
        for lp in fn.loops():
            nloops += 1
            hdr = lp["header"]
            back = [s for (s, d) in lp["backedges"]]
            # (a) flag loop
            flagged = None
            for (lb, lterm) in fl:
                if lb in lp["body"] and all(fn.dominates(lb, s) for s in back):
                    # a branch on the load leaves the loop
                    for bl in lp["body"]:
                        tt = fn.blocks[bl].term
                        if tt["k"] == "switch":
                            c = ev.op(tt["op"], (bl, "term"))
                            while isinstance(c, tuple) and c[0] == "un":
                                c = c[2]
                            if c == lterm and any(s not in lp["body"] for s in fn.succ(bl)):
                                flagged = lb
                            if c == lterm and any(fn.blocks[s].term["k"] == "return" or not fn.reaches(s, hdr) for s in fn.succ(bl)):
                                flagged = lb
            # exit conditions
            srcs_io, srcs_rand, iter_exit, unknown_iter = set(), set(), False, False
            exit_srcs = {s for (s, d) in lp["exits"]}
            for s in exit_srcs:
                tt = fn.blocks[s].term
                if tt["k"] != "switch":
                    continue
                c = ev.op(tt["op"], (s, "term"))
                cx = W.expand(c)
                if c[0] == "discr" and is_call(c[1]) and callee_name(c[1][1]) == "next":
                    src = W.expand(c[1][2][0])
                    names = {callee_name(x[1]) for x in values.subterms(src) if is_call(x)}
                    is_range = values.contains(src, lambda x: isinstance(x, tuple) and x[0] == "agg" and "Range" in str(x[1]))
                    if (names and names <= set(FINITE_ITER) | {"deref", "as_ref", "as_slice", "sample", "events", "supported"} ) or is_range or not names:
                        iter_exit = True
                    else:
                        bad = names - set(FINITE_ITER)
                        if any(n in IO_NAMES for n in bad):
                            srcs_io |= {n for n in bad if n in IO_NAMES}
                        elif all(n in ("sample", "num_fields", "len") or True for n in bad):
                            iter_exit = True
                    continue
                for x in values.subterms(cx):
                    if is_call(x):
                        n = callee_name(x[1])
                        if x[1] in P.fns:
                            io, rnd = reaches_io(x[1])
                            srcs_io |= set(io)
                            srcs_rand |= set(rnd)
                        elif n in IO_NAMES and any(k in x[1] for k in ("mio::", "net::", "crossbeam", "ArrayQueue", "Udp", "Tcp", "std::sync::", "mpsc", "atomic")):
                            srcs_io.add(n)
                        elif n in RANDOM_NAMES and "rand" in x[1]:
                            srcs_rand.add(n)
            # a finite iterator whose next() is executed in every iteration bounds the loop whatever its other exits are
            bounded_by_iter = False
            for bl in lp["body"]:
                tt = fn.blocks[bl].term
                if tt["k"] == "call" and callee_name(tt["fn"].get("path", "")) == "next" and all(fn.dominates(bl, s) for s in back):
                    src = W.expand(ev.call_args(bl)[0])
                    names = {callee_name(x[1]) for x in values.subterms(src) if is_call(x)}
                    is_range = values.contains(src, lambda x: isinstance(x, tuple) and x[0] == "agg" and "Range" in str(x[1]))
                    if is_range or (names and names <= set(FINITE_ITER) | {"deref", "as_ref", "as_slice", "sample"}) or (not names and not values.contains(src, lambda x: x and x[0] == "call")):
                        bounded_by_iter = True
            if not bounded_by_iter and flagged is None:
                from lib import counted_trips
                if counted_trips(W, ev, fn, lp) is not None:
                    bounded_by_iter = True      # `while i < n { ..; i += 1 }`: a counter that moves by one towards a loop-invariant bound on every pass
            if flagged is not None:
                kind = "flag"
            elif bounded_by_iter:
                kind = "bounded-iteration"
            elif srcs_io:
                kind = "input-driven"
            elif srcs_rand:
                kind = "random"
            elif iter_exit:
                kind = "bounded-iteration"
            elif not lp["exits"]:
                kind = "no-exit"
            else:
                kind = "computation"
            kinds[kind] = kinds.get(kind, 0) + 1
            desc = "loop(%s)" % (",".join(sorted(srcs_io | srcs_rand)) or kind)
            key = "%s/%s" % (fp, desc)
            chain = " -> ".join(x.split("::")[-1] for x in P.chain(parent, fp))
            if kind == "flag":
                ctx.ok("flag-in-loop", key, "loads the shutdown flag in every iteration and leaves on false", fn.loc(hdr), chain=chain)
            elif kind in ("bounded-iteration", "computation"):
                ctx.ok("flag-in-loop", key + "@%s" % fn.loc(hdr).split(":")[-1], "%s: its exits do not depend on sockets, queues or randomness" % kind, fn.loc(hdr), nontrivial=False, chain=chain)
            elif kind == "random":
                ok = fp.endswith("Server::compute_delay") and srcs_rand == {"next_u32"}
                ctx.check("flag-in-loop", key, ok, "audited: leaves on a fresh random byte != 0 (p = 255/256 per iteration), independent of any input",
                          "loop exit depends on a random source and does not read the shutdown flag", fn.loc(hdr), chain=chain)
            elif kind == "input-driven":
                audited = fp.endswith("Reporter::receive_client_stats") and srcs_io == {"pop"}
                if audited:
                    ctx.ok("flag-in-loop", key, "audited: drains the statistics queue, whose only producers are the workers' own >= 100 ms timers; an outside party cannot keep it non-empty", fn.loc(hdr), chain=chain)
                else:
                    ctx.violation("flag-in-loop", key, "the exit of this loop depends on %s (the network, a queue or another thread) and the loop never reads the shutdown flag: a signal is not observed while it spins (reached via %s)" % ("/".join(sorted(srcs_io)), chain), fn.loc(hdr), chain=chain)
            else:
                ctx.violation("flag-in-loop", key, "loop without exit and without a flag check", fn.loc(hdr), chain=chain)
    # every load of the flag inside a loop: on `false` control must leave that loop for good
    nload = 0
    for fp in sorted(reach):
        fn = P.fns[fp]
        ev = W.ev(fp)
        for (lb, lterm) in flag_terms(W, fn, ev, bound.get(fp, set())):
            for lp in fn.in_loop(lb):
                nload += 1
                okl = False
                for bl in lp["body"]:
                    tt = fn.blocks[bl].term
                    if tt["k"] == "switch":
                        c = ev.op(tt["op"], (bl, "term"))
                        neg = False
                        while isinstance(c, tuple) and c[0] == "un" and c[1] == "Not":
                            c = c[2]
                            neg = not neg
                        if c == lterm:
                            fv = 1 if neg else 0
                            tgt = tt["otherwise"]
                            for val, b2 in tt["cases"]:
                                if val == fv:
                                    tgt = b2
                            okl = tgt not in lp["body"] or not fn.reaches(tgt, lp["header"]) and tgt != lp["header"]
                ctx.check("flag-false-leaves-loop", "%s" % fp, okl, "when the flag reads false the loop is left", "the loop in %s continues although the shutdown flag reads false" % fp, fn.loc(lb))
    ctx.floor("flag-false-leaves-loop", nload, 2, "flag loads inside loops")

    # ------------------------------------------------------------------ (2c) after the flag was seen false the thread ends without panicking
    # "stops cleanly" = exit status 0: a panic on the way out of the worker loop or the reporter loop (a final flush, a farewell log line that
    # subtracts durations) makes main's join().expect(..) fail and the process exit with status 101
    from nopanic import NoPanic
    import audit_facts
    npost = 0
    for fp in sorted(reach):
        fn = P.fns[fp]
        ev = W.ev(fp)
        fl = flag_terms(W, fn, ev, bound.get(fp, set()))
        if not fl:
            continue
        floops = [lp for lp in fn.loops() if any(lb in lp["body"] for (lb, lt) in fl)]
        if not floops:
            continue
        lp = max(floops, key=lambda l: len(l["body"]))
        post = set()
        stack = [d for (s0, d) in lp["exits"] if d not in fn.diverging()]
        while stack:
            n = stack.pop()
            if n in post or n in lp["body"]:
                continue
            post.add(n)
            stack.extend(fn.succ(n))
        npost += 1
        bad = []
        callees = set()
        for n in sorted(post):
            t = fn.blocks[n].term
            if t["k"] == "assert":
                bad.append((n, "%s check" % t.get("akind")))
            if t["k"] == "call":
                nm = callee_name(t["fn"].get("path", ""))
                pth = t["fn"].get("path", "")
                if nm in ("unwrap", "expect", "panic_fmt", "panic", "unwrap_failed", "expect_failed") or "panicking" in pth:
                    bad.append((n, nm))
                for tg in P.call_targets(t):
                    if tg in P.fns and not P.fns[tg].derived:
                        callees.add(tg)
        if callees:
            sub = type(ctx)("C19", P, ctx.repo, "quick", ctx.feature)
            chk2 = audit_facts.Checker(sub, W)
            eng = NoPanic(sub, W, sorted(callees), requirement_checker=chk2.check)
            for r in eng.run():
                if r["status"] == "open":
                    bad.append((None, "%s in %s (%s) at %s" % (r["kind"], r["fn"].split("::")[-1], r["detail"][:80], r["loc"])))
        ctx.check("clean-exit", "%s/no-panic-after-the-loop" % fp.split("::")[-1], not bad, "nothing that can panic runs between leaving the loop and the end of the thread",
                  "after the shutdown flag was seen, %s can still panic (%s): the thread dies, main's join fails and the process exits with status 101 instead of 0"
                  % (fp.split("::")[-1], "; ".join(b[1] for b in bad[:3])), fn.loc(bad[0][0]) if bad and bad[0][0] is not None else ctx.loc(fn))
    ctx.floor("clean-exit", npost, 2, "thread loops whose exit path was examined (worker, reporter)")
    ctx.extra["loops_classified"] = kinds
    # responses emitted on the way out are complete AND valid: nothing collects or sends from a responder that was not reset since its last send
    sm.responder_typestate(ctx, W, "complete-responses")
    ctx.floor("flag-in-loop", nloops, 12, "loops reachable from the thread entries")
    ctx.floor("flag-in-loop-flagged", kinds.get("flag", 0), 2, "loops that read the shutdown flag (worker loop, reporter loop)")

    # worker loop specifics: Acquire load of the same static right after process_events
    for (c, sb) in worker:
        reach_w, _, _ = P.reach([c])
        pl = [p for p in reach_w if any(strip_generics(t["fn"].get("path", "")).endswith("Server::process_events") for bb, t in P.fns[p].calls())]
        for p in pl:
            fn = P.fns[p]
            ev = W.ev(p)
            pe = [bb for bb, t in fn.calls() if strip_generics(t["fn"].get("path", "")).endswith("Server::process_events")]
            fl = flag_terms(W, fn, ev, bound.get(p, set()))
            ok = bool(fl) and all(any(fn.dominates(b, lb) and values.must_pass(fn, [lb], from_block=fn.succ(b)[0], to_blocks={b}) for (lb, lt) in fl) for b in pe)
            ctx.check("flag-after-every-batch", p.split("::")[-1], ok, "the flag is loaded after every process_events call, before the next one",
                      "process_events can be called again without looking at the shutdown flag", fn.loc(pe[0]) if pe else ctx.loc(fn))
    # send path never reads the flag (responses are completed)
    r_s, e_s, _ = P.reach([sm.SEND])
    reads = [p for p in r_s if flag_terms(W, P.fns[p], W.ev(p), bound.get(p, set()))]
    ctx.check("complete-responses", "no-flag-read-inside-send_responses", not reads, "the flag is only read between batches; a started response is always sent whole", "flag is read inside %s" % reads)

    # ------------------------------------------------------------------ (3) poll timeout
    rv, sfields, sfn = sm.responder_versions(W)
    pe = ctx.fn(sm.PROCESS)
    pev = W.ev(pe.path)
    polls = [bb for bb, t in pe.calls() if strip_generics(t["fn"].get("path", "")).endswith("Poll::poll")]
    # the timeout handed to poll(): a Server field holding Some(d), or Some(<Server field holding d>), or a constant
    selfp = ("param", pe.path, 1)
    tfield = None
    pd = None
    if len(polls) == 1:
        a2 = pev.call_args(polls[0])[2]
        if isinstance(a2, tuple) and a2[:2] == ("field", selfp):
            tfield = a2[2]
            pd = sfields.get(tfield)
        elif isinstance(a2, tuple) and a2 and a2[0] == "agg" and str(a2[1]).endswith("Option::Some") and len(a2[2]) == 1:
            inner = a2[2][0]
            if isinstance(inner, tuple) and inner[:2] == ("field", selfp):
                tfield = inner[2]
                pd = ("agg", a2[1], (sfields.get(tfield),)) if sfields.get(tfield) is not None else None
            else:
                pd = a2
    okp = False
    det = fmt(pd)
    if pd is not None and pd[0] == "agg" and str(pd[1]).endswith("Option::Some"):
        d = pd[2][0]
        from lib import duration_ms
        ms = duration_ms(W, d)
        if ms is not None:
            okp = 0 < ms <= 1000
            det = "%s ms" % ms
    ctx.check("poll-timeout", "Some-constant-at-most-1s", okp, "poll timeout = Some(%s)" % det, "poll timeout is %s: an idle worker would not notice the flag" % det, ctx.loc(sfn))
    okpp = len(polls) == 1 and pd is not None
    writers = [] if tfield is None else [f.path for f in P.fns.values() for bl in f.blocks for st in bl.stmts if st["k"] == "assign" and any(isinstance(e, dict) and e.get("name") == tfield and e.get("adt") == sm.SERVER for e in st["dst"].get("p", []))]
    ctx.check("poll-timeout", "poll-uses-that-timeout", okpp and not writers, "poll(events, <timeout set in Server::new>) and the field is never reassigned", "poll timeout is not the constructor's constant (writers: %s)" % writers, ctx.loc(pe))

    # ------------------------------------------------------------------ (4) reporter iteration
    rl = ctx.fn("roughenough::stats::reporter::Reporter::processing_loop")
    rev = W.ev(rl.path)
    sleeps = [(bb, rev.call_args(bb)) for bb, t in rl.calls() if callee_name(t["fn"].get("path", "")) == "sleep" and "thread" in t["fn"].get("path", "")]
    from lib import duration_ms
    sl_all = [duration_ms(W, s_[1][0]) for s_ in sleeps]
    sl_ms = max(sl_all) if sl_all and None not in sl_all else None
    # several sleep sites (a guard clause that sleeps and continues): fine when no pass through the loop meets two of them
    hdrs_r = {l["header"] for l in rl.loops()}
    twice = any(a != b and rl.reaches(a, b, avoid=hdrs_r) for (a, _x) in sleeps for (b, _y) in sleeps)
    oksl = sl_ms is not None and sl_ms <= 2000 and not twice
    ctx.check("reporter-bound", "constant-sleep", oksl, "one reporter iteration sleeps a constant <= 2 s", "reporter sleep is %s" % [fmt(s[1][0]) for s in sleeps], ctx.loc(rl))
    ok_bound = ("param", rl.path, 2) in bound.get(rl.path, set())
    ctx.check("reporter-bound", "flag-parameter-is-KEEP_RUNNING", ok_bound, "processing_loop(keep_running) is called with KEEP_RUNNING", "the reporter's flag parameter is not bound to KEEP_RUNNING")

    # ------------------------------------------------------------------ (5) exit status
    joins = [bb for bb, t in main.calls() if callee_name(t["fn"].get("path", "")) == "join"]
    # `threads.into_iter().for_each(|t| t.join().expect(..))`: the joins happen in the closure, once per element
    joins_each = [bb for bb, t in main.calls() if callee_name(t["fn"].get("path", "")) in ("for_each", "try_for_each") and
                  any(c_ in P.fns and any(callee_name(t2["fn"].get("path", "")) == "join" and "JoinHandle" in t2["fn"].get("path", "") for _b2, t2 in P.fns[c_].calls())
                      for c_ in (t.get("closures") or []))]
    joins = joins + joins_each
    exits = [(bb, mev.call_args(bb)[0]) for bb, t in main.calls() if strip_generics(t["fn"].get("path", "")).endswith("process::exit")]
    after = [(bb, a) for bb, a in exits if spawns and any(main.reaches(s, bb) for s in spawns)]
    ok5 = len(after) == 1 and after[0][1] == ("int", 0) and bool(joins) and all(main.reaches(j, after[0][0]) for j in joins)
    ctx.check("exit-status", "exit-0-after-joins", ok5, "after joining every thread main calls process::exit(0)", "exit paths after the spawn loop: %s" % [(main.loc(bb), fmt(a)) for bb, a in after], ctx.loc(main))
    # every spawned handle is joined
    # (a handle may come out of a helper that was inlined here, through `?` / Option: the spawn then reaches the push or extend without dominating it)
    # (the handle may be kept in a small record together with the thread's name)
    carriers = ["JoinHandle"] + [a for a, d in P.adts.items() if d.get("variants") and any("JoinHandle" in x.get("ty", "") for v in d["variants"] for x in v.get("fields", []))]
    pushes = [bb for bb, t in main.calls() if callee_name(t["fn"].get("path", "")) in ("push", "extend") and any(c in (t.get("arg_tys") or [""])[0] for c in carriers)
              and any(s != bb and main.reaches(s, bb) for s in spawns)]
    # handles produced by an iterator chain are collected into the vector directly
    collected = [s_ for s_ in spawns if callee_name(main.blocks[s_].term["fn"].get("path", "")) in ("map", "collect", "extend", "for_each")]
    ctx.check("exit-status", "all-threads-joined", len(pushes) + len(collected) >= len(spawns) and bool(joins) and all(main.in_loop(j) or j in joins_each for j in joins), "every spawned thread's handle is collected and joined",
              "not every spawned thread is joined before exit", ctx.loc(main))
