"""C03 — the project's own client accepts every honest response (client/server agreement clauses)."""
import flow
import values
import server_model as sm
from lib import (World, is_call, callee_name, tag_of, iter_elem, uncast, message_events, straight_line, bytelen, arith_eval, NotArith,
                 tagpath, TAG, VERSION, VERSIONS)
from framework import spec
from mir import strip_generics, AnchorMissing
from values import Ev, fmt

EXPLANATION = """
Client/server agreement, per protocol version (T-agree):
(1) the kind of Merkle leaf the client passes to root_from_paths (its nonce / its request bytes as sent) equals the kind the server
pushes for that version (C02.2) and the spec; (2) the context accessor used for DELE and for SREP is the same on both sides;
(3) the client's conversion of MIDP to (seconds, nanoseconds), as an extracted arithmetic expression, equals m div U and
(m mod U) * (10^9 / U) with U the server's MIDP unit for that version (compared on a grid of inputs, expression equivalence);
(4) verified is false exactly when no key was given; (4b) the delegation window the client enforces is closed on both sides
(MINT <= MIDP <= MAXT: no strict comparison, no half-open range); (5) the request the client builds per version has the tags the server's
parser requires (NONC; for RfcDraft13 VER with the draft-13 wire value, SRV = calc_srv_value(key) only with a key), is framed for
RfcDraft13 only, the nonce has the protocol's length, and the response parser mirrors the server's framing.
(4c) Every aborting branch of the client's response handling is one of the protocol's reasons to refuse a reply (signature, Merkle root, window,
a missing or malformed field, the reply's framing, dispatch on the version); any other aborting condition refuses replies an honest server can send.
(6) "Honest server": the replies the project's own server builds are valid for every batch position, i.e. the structure rules of C02 hold.
"""
NOT_DECIDED = "that the padded request is exactly >= 1024 bytes (arithmetic over message contents); chrono formatting; every batch position (value-level)"
TRUSTED = ["byteorder read_u64/LittleEndian", "chrono timestamp_opt(secs, nsecs)"]

CLIENT = "roughenough_client::"
HANDLER = "roughenough_client::ResponseHandler"
MAIN = "roughenough_client::main"
GRID = [0, 1, 999, 999999, 1000000, 1000001, 1759397777123456, 253402300799999999, 2 ** 63 - 1]


def c01mod():
    import importlib
    return importlib.import_module("rules.C01")


def tr_first(data):
    return data[0]


def tuple_version(t, v):
    """Replace every `<anything>.version` field read by the protocol version v (after binding to callers the owner is another function's self)."""
    if not isinstance(t, tuple) or not t:
        return t
    if t[0] == "field" and t[2] == "version":
        return ("enum", VERSION, v)
    if t[0] in ("int", "str", "bytes", "enum", "obj", "zst", "static", "fnref", "top", "param"):
        return t
    return tuple(tuple_version(x, v) if isinstance(x, tuple) else x for x in t)


def run(ctx):
    W = World(ctx)
    P = ctx.prog
    sp = spec()
    main = ctx.fn(MAIN)
    mev0 = W.ev(MAIN)
    ctors = W.ctor_fields(HANDLER)
    if len(ctors) != 1:
        raise AnchorMissing("one construction of ResponseHandler")
    nfn, nbb, nidx, hfields = ctors[0]
    NEW = nfn.path
    nb = [bb for bb, t in main.calls() if NEW in P.call_targets(t)]
    if len(nb) != 1:
        raise AnchorMissing("one ResponseHandler::new call in main")
    nargs = [W.expand(a) for a in mev0.call_args(nb[0])]
    vterm = mev0.call_args(nb[0])[0]

    # the request queue: tuple positions
    pushed = None
    pushed_names = None
    for bb, t in main.calls():
        if callee_name(t["fn"].get("path", "")) == "push":
            a = mev0.call_args(bb)
            if len(a) == 2 and a[1][0] == "agg" and (a[1][1] == "tuple" or str(a[1][1]).rsplit("::", 1)[0] in P.adts or a[1][1] in P.adts) and any(is_call(e, "make_request") for e in a[1][2]):
                pushed = (a[0], a[1][2])
                pushed_names = a[1][3] if len(a[1]) > 3 and a[1][3] else None
    if pushed is None:
        raise AnchorMissing("request queue of (.., request, ..) tuples in main")
    cont, elems = pushed
    pos_kind = {}
    for i, e in enumerate(elems):
        if is_call(e, "make_request"):
            pos_kind[str(i)] = "request"
            nonce_arg = e[2][1]
            for j, e2 in enumerate(elems):
                if e2 == nonce_arg:
                    pos_kind[str(j)] = "nonce"
    if pushed_names:
        # a record with named fields: the same roles under the field names
        for i, nm_ in enumerate(pushed_names):
            if str(i) in pos_kind:
                pos_kind[str(nm_)] = pos_kind[str(i)]

    # ------------------------------------------------------------------ (1) leaf kind agreement
    cfn, cev, routes = sm.routing(ctx, W)
    server_leaf = {}
    for r in routes:
        if r["version"]:
            server_leaf[r["version"]] = sm.leaf_of(ctx, W, r)[0]
    for fn in P.fns.values():
        if not fn.path.startswith(CLIENT):
            continue
        for bb, t in fn.calls():
            if not strip_generics(t["fn"].get("path", "")).endswith("MerkleTree::root_from_paths"):
                continue
            for v in VERSIONS:
                assume = {("field", ("param", fn.path, 1), "version"): ("enum", VERSION, v)}
                ev = Ev(P, fn, assume=assume)
                live = ev.live()
                if bb not in live:
                    continue
                leaf = ev.call_args(bb)[2]
                # the handler's fields as its constructor sets them for this version (the leaf may be chosen once, at construction)
                hf_v = hfields
                vpar = [i for i in range(1, nfn.nargs + 1) if nfn.locals[i]["ty"].replace("&", "").strip().endswith("version::Version")]
                if len(vpar) == 1:
                    ev_n = Ev(P, nfn, binds={vpar[0]: ("enum", VERSION, v)})
                    ev_n.live()
                    agg = ev_n.rvalue(nfn.blocks[nbb].stmts[nidx]["rv"], (nbb, nidx))
                    if isinstance(agg, tuple) and agg[0] == "agg" and len(agg) > 3 and agg[3]:
                        hf_v = {n: W.expand(x) for n, x in zip(agg[3], agg[2])}
                leaf = W.subst_fields(leaf, ("param", fn.path, 1), hf_v)
                kind = "other"
                if leaf[0] == "param" and leaf[1] == NEW:
                    ie = iter_elem(W, nargs[leaf[2] - 1])
                    if ie and ie["container"] == cont and len(ie["fields"]) == 1:
                        kind = pos_kind.get(ie["fields"][0], "other")
                want = sp["versions"][v]["leaf"]
                ctx.check("leaf-agreement", "%s/client-leaf-kind" % v, kind == want and server_leaf.get(v) == want,
                          "client verifies the %s as leaf; server pushes the %s" % (kind, server_leaf.get(v)),
                          "for %s the client uses its %s as Merkle leaf, the server hashes the %s, the protocol says %s (%s)" % (v, kind, server_leaf.get(v), want, fmt(leaf)),
                          fn.loc(bb))
                tree = W.ev(fn.path).call_args(bb)[0]
                okt = is_call(tree, "MerkleTree::new") and W.subst_fields(tree[2][0], ("param", fn.path, 1), hfields) == ("param", NEW, 1)
                ctx.check("leaf-agreement", "%s/client-tree-profile" % v, okt, "client tree is MerkleTree::new(version in use)",
                          "client recomputes the root with %s" % fmt(tree), fn.loc(bb))

    # ------------------------------------------------------------------ (2) context accessor agreement
    server_acc = {}
    for fnp, role in ((sm.MAKE_CERT, "DELE"), (sm.MAKE_SREP, "SREP")):
        fn = ctx.fn(fnp)
        ev = W.ev(fnp)
        seq = sm.sign_sequence(W, ev, (1, ("signer",)))
        ups = [s for s in seq if s[0] == "update"]
        if ups and is_call(ups[0][1]):
            server_acc[role] = strip_generics(ups[0][1][1])
    client_acc = {}
    for fn in P.fns.values():
        if fn.impl_self != HANDLER:
            continue
        ev = W.ev(fn.path)
        for bb, t in fn.calls():
            p = strip_generics(t["fn"].get("path", ""))
            if p.endswith("Version::dele_prefix") or p.endswith("Version::sign_prefix"):
                # which tag's bytes are appended to it
                dst = t["dst"]["l"]
                # find buffer whose init is this call
                for l in range(len(fn.locals)):
                    if fn.is_object(l):
                        init = ev.obj_init(l)
                        if len(init) == 1 and init[0][1] == ev.call_term(bb):
                            seq = W.buffer_seq(("obj", fn.path, l))
                            if seq and len(seq) == 2:
                                tp = tagpath(W, W.subst_fields(seq[1], ("param", fn.path, 1), hfields))
                                if tp and tp[1]:
                                    client_acc[tp[1][-1]] = p
    if len(client_acc) < 2:
        # the signed bytes may be assembled by a helper: use the resolved verification operands (as C01 does)
        import importlib
        c01 = importlib.import_module("rules.C01")
        S = c01.predicate_closure(ctx, W)
        for fn in P.fns.values():
            if fn.impl_self != HANDLER or fn.path in S:
                continue
            e = W.ev(fn.path)
            for bb, t in fn.calls():
                if any(x in S for x in P.call_targets(t)):
                    tr = c01.verify_triple(ctx, W, fn.path, bb, S)
                    if tr is None:
                        continue
                    data = c01.expand_data(W, tr[1])
                    if data and len(data) == 2 and is_call(data[0]):
                        tp = tagpath(W, W.subst_fields(data[1], ("param", fn.path, 1), hfields))
                        if tp and tp[1]:
                            client_acc[tp[1][-1]] = strip_generics(data[0][1])
    # Compare the context *bytes* per protocol version (the accessor used may be spelled differently on the two sides)
    def version_subst(t, fnpath, v):
        fn_ = P.fns[fnpath]
        if not isinstance(t, tuple) or not t:
            return t
        if t[0] == "param" and t[1] == fnpath and fn_.locals[t[2]]["ty"].replace("&", "").strip().endswith("version::Version"):
            return ("enum", VERSION, v)
        if t[0] == "field" and t[2] == "version" and isinstance(t[1], tuple) and t[1][0] == "param":
            return ("enum", VERSION, v)
        if t[0] in ("int", "str", "bytes", "enum", "obj", "zst", "static", "fnref", "top"):
            return t
        return tuple(version_subst(x, fnpath, v) if isinstance(x, tuple) else x for x in t)

    server_ctx, client_ctx = {}, {}
    for fnp, role in ((sm.MAKE_CERT, "DELE"), (sm.MAKE_SREP, "SREP")):
        ev = W.ev(fnp)
        seq = sm.sign_sequence(W, ev, (1, ("signer",)))
        ups = [s_ for s_ in seq if s_[0] == "update"]
        if ups:
            first = ups[0][1]
            pieces = c01mod().expand_data(W, [first]) or [first]
            for v in VERSIONS:
                server_ctx[(role, v)] = ev.resolve(version_subst(pieces[0], fnp, v))
    S01 = c01mod().predicate_closure(ctx, W)
    for fn in P.fns.values():
        if fn.impl_self != HANDLER or fn.path in S01:
            continue
        for bb, t in fn.calls():
            if any(x in S01 for x in P.call_targets(t)):
                tr = c01mod().verify_triple(ctx, W, fn.path, bb, S01)
                if tr is None:
                    continue
                data = c01mod().expand_data(W, tr[1])
                if data and len(data) >= 2:
                    raw_first = data[0]
                    data = c01mod().bind_up(ctx, W, fn, [W.subst_fields(d, ("param", fn.path, 1), hfields) for d in data], hfields)
                    tp = tagpath(W, data[-1])
                    if tp and tp[1]:
                        for v in VERSIONS:
                            # the handler's own `version` field / a Version parameter stands for the protocol in use
                            first = version_subst(raw_first, fn.path, v)
                            if any(isinstance(x, tuple) and x and x[0] == "param" and x[1] == fn.path and x[2] > 1 for x in values.subterms(first)):
                                first = version_subst(c01mod().bind_up(ctx, W, fn, [raw_first], {})[0], fn.path, v)
                                first = tuple_version(first, v)
                            client_ctx[(tp[1][-1], v)] = W.ev(fn.path).resolve(first)
    for role in ("DELE", "SREP"):
        for v in VERSIONS:
            sc, cc = server_ctx.get((role, v)), client_ctx.get((role, v))
            ok = sc is not None and sc == cc and sc[0] == "bytes"
            ctx.check("context-agreement", "%s/%s" % (role, v), ok, "%s context for %s: both sides use %s" % (role, v, fmt(sc)),
                      "%s for %s is signed under %s by the server but checked under %s by the client" % (role, v, fmt(sc), fmt(cc)))
    # ------------------------------------------------------------------ (3) unit agreement
    ext = [bb for bb, t in main.calls() if strip_generics(t["fn"].get("path", "")).endswith("ResponseHandler::extract_time")]
    if len(ext) != 1:
        raise AnchorMissing("one extract_time call in main")
    midp = ("field", mev0.call_term(ext[0]), "midpoint")
    # ParsedResponse.midpoint is the LE u64 of SREP.MIDP
    pcs = [c_ for c_ in W.ctor_fields("roughenough_client::ParsedResponse") if not getattr(c_[0], "derived", False)]
    if len(pcs) == 1:
        pfn, pbb, pidx, pf = pcs[0]
        mt = W.subst_fields(W.expand(pf.get("midpoint")), ("param", pfn.path, 1), hfields)
        tp = tagpath(W, mt)
        okm = tp is not None and tp[1] == ("SREP", "MIDP") and any("read_u64" in d for d in tp[2])
        le = [t for bb, t in pfn.calls() if callee_name(t["fn"].get("path", "")) == "read_u64"]
        okle = bool(le) and all(any("LittleEndian" in s for s in t["fn"].get("substs", [])) for t in le)
        if tp is not None and tp[1] == ("SREP", "MIDP") and not okm:
            # the std form of the same read: u64::from_le_bytes(first 8 bytes)
            std = [x for x in values.subterms(mt) if is_call(x) and callee_name(x[1]) == "from_le_bytes"]
            okm = okle = bool(std) and all("u64" in x[1] for x in std) and any("from_le_bytes" in d for d in tp[2])
        ctx.check("unit-agreement", "midpoint-is-le-u64-of-SREP.MIDP", okm and okle, "midpoint = read_u64::<LittleEndian>(SREP.MIDP)",
                  "client midpoint is %s" % fmt(mt), ctx.loc(pfn))
    nts = 0
    for v in VERSIONS:
        U = sp["versions"][v]["midp_unit_per_second"]
        ev = Ev(P, main, assume={vterm: ("enum", VERSION, v)})
        live = ev.live()
        for bb, t in main.calls():
            cname = callee_name(t["fn"].get("path", ""))
            if bb not in live or cname not in ("timestamp_opt", "timestamp_nanos", "timestamp_millis_opt", "timestamp_micros", "timestamp"):
                continue
            nts += 1
            a = ev.call_args(bb)
            midp = ("field", ev.call_term(ext[0]), "midpoint")
            bad = None
            # midpoints from the epoch through year 9999 in this version's unit
            grid = [g for g in GRID if g // U <= 253402300799] + [253402300799 * U, 9214646400 * U + U - 1]
            try:
                for m in grid:
                    es, en = m // U, (m % U) * (10 ** 9 // U)
                    if cname == "timestamp_opt":
                        s = arith_eval(a[1], {midp: m})
                        n = arith_eval(a[2], {midp: m})
                    else:
                        scale = {"timestamp_nanos": 10 ** 9, "timestamp_micros": 10 ** 6, "timestamp_millis_opt": 10 ** 3, "timestamp": 1}[cname]
                        tot = arith_eval(a[1], {midp: m})
                        s, n = tot // scale, (tot % scale) * (10 ** 9 // scale)
                        if cname == "timestamp":
                            n = en
                    if (s, n) != (es, en):
                        bad = "midpoint %d -> (%d s, %d ns), expected (%d, %d)" % (m, s, n, es, en)
                        break
            except NotArith as e:
                bad = "conversion is not plain integer arithmetic over the midpoint (%s): %s" % (e, [fmt(x) for x in a[1:]])
            ctx.check("unit-agreement", "%s/seconds-and-nanoseconds@%s" % (v, "utc" if "Utc" in str(t["fn"].get("substs")) else "local"), bad is None,
                      "%s: (secs, nsecs) = (m div %d, (m mod %d) * %d)" % (v, U, U, 10 ** 9 // U),
                      "client converts the %s midpoint wrongly: %s" % (v, bad), main.loc(bb))
    ctx.floor("unit-agreement", nts, 4, "timestamp_opt call sites x versions")
    # server side unit (cross-reference to C11): classic_midp/rfc_midp
    # ------------------------------------------------------------------ (4) verified false only without key
    if len(pcs) == 1:
        pev = W.ev(pfn.path)
        IN = flow.must_facts(pfn, pev)
        st = pfn.blocks[pbb].stmts[pidx]
        vop = st["rv"]["ops"][st["rv"]["fields"].index("verified")]
        vpl = vop.get("cp") or vop.get("mv")
        falses = []
        fl_enum, fl_yes = c01mod().flag_enum_info(ctx, W, "roughenough_client::ParsedResponse")
        seen = set()
        work = [vpl["l"]] if vpl else []
        while work:
            l = work.pop()
            if l in seen:
                continue
            seen.add(l)
            for (b, i, kind) in pfn.defs().get(l, []):
                if kind == "whole" and i != "term":
                    rv = pfn.blocks[b].stmts[i]["rv"]
                    if rv["k"] == "use" and "c" in rv["op"] and values.const_term(rv["op"]["c"]) == ("int", 0):
                        falses.append(b)
                    elif rv["k"] == "agg" and rv.get("ak") == "adt" and not rv.get("ops") and fl_enum and rv.get("adt") == fl_enum and rv.get("variant") != fl_yes:
                        falses.append(b)        # the "not verified" variant of a two-valued enum flag
                    elif rv["k"] == "use" and not (rv["op"].get("cp") or rv["op"].get("mv") or {}).get("p"):
                        p2 = rv["op"].get("cp") or rv["op"].get("mv")
                        if p2:
                            work.append(p2["l"])
        for b in falses:
            rels = flow.rel_facts_at(IN, b)
            from lib import fact_is_absent
            okf = fact_is_absent(rels, lambda x: x == ("field", ("param", pfn.path, 1), "pub_key"))
            ctx.check("verified-iff-key", "false-only-without-key", okf, "verified = false only when no key was supplied",
                      "verified can be false although a key was supplied", pfn.loc(b))
        vx = W.expand(pcs[0][3].get("verified")) if pcs[0][3].get("verified") is not None else None
        if not falses and is_call(vx) and callee_name(vx[1]) == "is_some" and vx[2] and W.expand(vx[2][0]) == ("field", ("param", pfn.path, 1), "pub_key"):
            # `verified = self.pub_key.is_some()`: false exactly when no key was supplied
            ctx.ok("verified-iff-key", "flag-is-the-key-test", "verified = pub_key.is_some()", ctx.loc(pfn))
        else:
            ctx.floor("verified-iff-key", len(falses), 1, "`verified = false` sites")

    # ------------------------------------------------------------------ (4b) the delegation window is closed on both sides
    import rules.C01 as c01
    comps = c01.enforced_comparisons(ctx, W)
    nwin = 0
    for name in ("mint<=midp", "midp<=maxt"):
        for (fp, bb, info) in comps.get(name, []):
            nwin += 1
            ctx.check("window-inclusive", "%s@%s" % (name, fp.split("::")[-1]), info != "strict", "the client accepts a midpoint equal to the delegation bound (%s)" % name,
                      "the client demands %s: an honest reply whose midpoint equals the delegation bound is refused" % name.replace("<=", " < "), P.fns[fp].loc(bb))
    ctx.floor("window-inclusive", nwin, 2, "enforced MINT/MAXT comparisons in the client")

    # ------------------------------------------------------------------ (4c) the client refuses a reply only for a reason the protocol gives
    # Every branch of the response-handling code with one arm that aborts (panic / assert / exit) is a rejection rule.  On the reference tree these
    # are: the two signature checks, the Merkle root comparison, the two window comparisons, malformed / missing fields (a parse or lookup that
    # failed), the framing test of the reply, and dispatch on the protocol version.  Anything else refuses replies an honest server can send.
    recognised = {(fp, bb) for lst in comps.values() for (fp, bb, info) in lst}
    roots = [f.path for f in P.fns.values() if f.path.startswith(CLIENT) and (f.impl_self == HANDLER or f.path.endswith("::receive_response") or f.path.endswith("::verify_framing"))]
    reach_c, _, _ = P.reach(roots)
    PARSE = ("from_bytes", "read_u16", "read_u32", "read_u64", "read_exact", "get", "get_field", "try_into", "try_from", "first_chunk", "split_first_chunk", "split_at_checked",
             "strip_prefix", "from_slice", "from_le_bytes", "timestamp_opt", "single", "into_hash_map", "contains_key", "is_empty", "len")
    nrej = 0
    for fp in sorted(reach_c):
        f = P.fns[fp]
        if not fp.startswith(CLIENT):
            continue
        e = W.ev(fp)
        div = f.diverging()
        for bl in f.blocks:
            t = bl.term
            if t["k"] != "switch" or bl.idx not in f.reachable() or bl.idx in div:
                continue
            # the `otherwise -> unreachable` arm of an exhaustive match aborts nothing
            succ = [x for x in f.succ(bl.idx) if f.blocks[x].term["k"] != "unreachable"]
            if not (any(x in div for x in succ) and not all(x in div for x in succ)):
                continue
            nrej += 1
            cond = W.expand(e.op(t["op"], (bl.idx, "term")))
            why = None
            if (fp, bl.idx) in recognised:
                why = "window / Merkle comparison (rules above and C01)"
            elif values.contains(cond, lambda x: is_call(x) and (x[1].endswith("validate_sig") or x[1].endswith("MsgVerifier::verify"))):
                why = "signature check"
            elif values.contains(cond, lambda x: isinstance(x, tuple) and x and ((x[0] == "field" and x[2] == "version") or (x[0] == "enum" and x[1] == VERSION))) or \
                    (cond[0] == "discr" and isinstance(cond[1], tuple) and cond[1][0] == "param" and "Version" in f.locals[cond[1][2]]["ty"]):
                why = "dispatch on the protocol version"
            elif fp.endswith("::verify_framing"):
                why = "framing of the reply (mirrors the server's framing, rule 5)"
            elif cond[0] == "discr" and is_call(values.strip_payload(cond[1])) and callee_name(values.strip_payload(cond[1])[1]) in PARSE:
                why = "a field of the reply is missing or malformed (%s failed)" % callee_name(values.strip_payload(cond[1])[1])
            elif is_call(cond) and callee_name(cond[1]) in ("is_some", "is_none", "is_ok", "is_err", "contains_key") and cond[2] and is_call(values.strip_payload(cond[2][0])) and \
                    callee_name(values.strip_payload(cond[2][0])[1]) in PARSE:
                why = "a field of the reply is missing or malformed"
            if why is None and cond[0] == "discr" and isinstance(cond[1], tuple) and cond[1] and cond[1][0] == "phi":
                # the result of a private `decode(..) -> Result<_, _>` helper: each way it ends is a parse call or a `?` on one / on verify_framing
                def src_of(a):
                    a = values.strip_payload(a)
                    if is_call(a) and callee_name(a[1]) == "from_residual" and a[2]:
                        a = values.strip_payload(a[2][0])
                    return a
                srcs = [src_of(a) for a in cond[1][1]]
                if srcs and all(is_call(x) and (callee_name(x[1]) in PARSE or x[1].endswith("::verify_framing")) for x in srcs):
                    why = "a parse or framing failure handed up by a helper (%s)" % ", ".join(sorted({callee_name(x[1]) for x in srcs}))
            ctx.check("client-rejections", "%s@%s" % (fp.split("::")[-1], fmt(cond)[:60]), why is not None, "rejection rule: %s" % why,
                      "the client aborts on a condition that is none of the protocol's reasons to refuse a reply (%s): an honest reply satisfying it is refused" % fmt(cond)[:200], f.loc(bl.idx))
    ctx.floor("client-rejections", nrej, 5, "aborting branches in the client's response handling (signatures, Merkle root, window)")

    # ------------------------------------------------------------------ (5) request shape
    mrq = ctx.fn("roughenough_client::make_request")
    for v in VERSIONS:
        ev = Ev(P, mrq, binds={1: ("enum", VERSION, v)})
        live = ev.live()
        r = values.strip_payload(ev.ret())
        want_enc = "encode_framed" if sp["versions"][v]["framed"] else "encode"
        okenc = is_call(r) and callee_name(r[1]) == want_enc and r[2][0][0] == "obj"
        ctx.check("request-shape", "%s/encoder" % v, okenc, "%s request is produced by %s()" % (v, want_enc), "%s request is %s" % (v, fmt(r)), ctx.loc(mrq))
        if not okenc:
            continue
        evs = message_events(W, ev, r[2][0], live)
        # events after the last clear
        last_clear = max([i for i, e in enumerate(evs) if e[0] == "clear"], default=-1)
        final = evs[last_clear + 1:]
        enc_bb = r[3][1]
        final = [e for e in final if e[0] == "add" and mrq.reaches(e[3], enc_bb)]
        tags = [e[1] for e in final]
        must = ["NONC"] + (["VER"] if v == "RfcDraft13" else [])
        always = [e[1] for e in final if mrq.dominates(e[3], enc_bb)]
        ctx.check("request-shape", "%s/required-tags" % v, all(m in always for m in must), "%s request always carries %s (tags %s)" % (v, must, tags),
                  "%s request lacks a tag the server requires: has %s on every path, needs %s" % (v, always, must), ctx.loc(mrq))
        for e in final:
            tg, val, bb = e[1], e[2], e[3]
            if tg == "NONC":
                ctx.check("request-shape", "%s/NONC-is-nonce-param" % v, val == ("param", mrq.path, 2), "NONC = the nonce parameter", "NONC is %s" % fmt(val), mrq.loc(bb))
            if tg == "VER":
                rv = ev.resolve(val)
                ctx.check("request-shape", "%s/VER-wire" % v, rv == ("bytes", bytes(sp["versions"][v]["wire"])), "VER = %s wire value" % v, "VER is %s" % fmt(rv), mrq.loc(bb))
            if tg == "SRV":
                v0 = W.expand(values.strip_payload(val))
                oks = values.contains(v0, lambda s: is_call(s, "LongTermKey::calc_srv_value")) or is_call(v0, "LongTermKey::calc_srv_value")
                ctx.check("request-shape", "%s/SRV-is-calc_srv_value" % v, oks or values.contains(v0, lambda s: s and s[0] == "closure"),
                          "SRV = LongTermKey::calc_srv_value(pinned key)", "SRV is %s" % fmt(v0), mrq.loc(bb))
    # nonce length per version
    cn = ctx.fn("roughenough_client::create_nonce")
    for v in VERSIONS:
        ev = Ev(P, cn, binds={1: ("enum", VERSION, v)})
        ev.live()
        n = bytelen(W, ev, ev.ret())
        ctx.check("request-shape", "%s/nonce-length" % v, n == sp["versions"][v]["nonce_len"], "%s nonce is %d bytes" % (v, sp["versions"][v]["nonce_len"]),
                  "%s nonce is %s bytes, protocol says %d" % (v, n, sp["versions"][v]["nonce_len"]), ctx.loc(cn))
    # response framing mirrored: receive_response under V
    rr = ctx.fn("roughenough_client::receive_response")
    for v in VERSIONS:
        ev = Ev(P, rr, binds={1: ("enum", VERSION, v)})
        live = ev.live()
        r = values.strip_payload(ev.ret())
        if r[0] == "phi":
            # `verify_framing(buf)?; RtMessage::from_bytes(..)` in a Result-returning helper: the `?` residual is the refusal, the other way out the parse
            rest = [a for a in r[1] if not (is_call(values.strip_payload(a)) and callee_name(values.strip_payload(a)[1]) == "from_residual" and
                                            values.contains(a, lambda x: is_call(x) and x[1].endswith("::verify_framing")))]
            if len(rest) == 1:
                r = values.strip_payload(rest[0])
        okr = is_call(r, "RtMessage::from_bytes") and r[2][0][0] == "index" and r[2][0][1] == ("param", rr.path, 2)
        lo = None
        if okr:
            rng = r[2][0][2]
            if rng[0] == "agg" and str(rng[1]).endswith("Range::Range"):
                lo = rng[2][0]
                hi = rng[2][1]
                okr = hi == ("param", rr.path, 3)
        want_lo = 12 if sp["versions"][v]["framed"] else 0
        ctx.check("request-shape", "%s/response-parse-offset" % v, okr and lo == ("int", want_lo), "%s response parsed from buf[%d..len]" % (v, want_lo),
                  "%s response is parsed from %s" % (v, fmt(r)), ctx.loc(rr))

    # "the reply of an honest server": the project's own server must be one.  The structure rules of C02 (signed bytes, Merkle path and
    # index per batch position, response assembly) are therefore obligations of C03 as well: a reply the server assembles wrongly for some
    # batch position is a reply this client rejects.
    import importlib
    from framework import Ctx
    c2 = importlib.import_module("rules.C02")
    sub = Ctx("C02", P, ctx.repo, "quick", ctx.feature)
    c2.run(sub)
    bad = [i for i in sub.instances if not i["ok"]]
    ctx.check("honest-server", "server-replies-are-valid-for-every-batch-position(C02)", not bad,
              "the project's server builds valid replies (C02 structure rules hold: %d instances)" % len(sub.instances),
              "the project's own server can build a reply the client rejects: " + (bad[0]["detail"] if bad else ""), bad[0].get("loc") if bad else None)
