"""C07 — the server answers only well-formed 1024-1500 byte requests and never amplifies."""
import flow
import values
import server_model as sm
from lib import (World, is_call, callee_name, tag_of, uncast, acceptance_mismatch, bytelen, intval, resolve_fields, le_written, tagpath,
                 VERSION, VERSIONS)
from framework import spec
from mir import strip_generics, AnchorMissing
from prover import Bounds, INF
from values import Ev, fmt
import audit_facts

EXPLANATION = """
(1) Size gate: at both parser dispatch sites in nonce_from_request the branch facts over num_bytes have the truth table of
1024 <= n <= 1500 (MIN/MAX constants equal the protocol's); num_bytes is the count returned by recv_from and the parsed slice is
buf[..num_bytes] of the receive buffer.  (2) IETF gate: at the Ok return of the framed parser the facts include frame length ==
actual length (u32 LE read from buf[8..12] vs len-12), a supported version was found, NONC present with the protocol's length;
the SRV-mismatch edge cannot reach an Ok return.  Classic: NONC present with the protocol's length.
(3) Rejected datagrams cause no send: UdpSocket::send_to is called only from Responder::send_responses (over `requests`);
`requests` is pushed only by add_*_request, called only on Ok arms; nothing reachable from collect_requests sends.
(4) Size budget (byte-length domain): worst-case encoded response per version = header(6 tags) + SIG + NONC(upper bound from
the request guard) + PATH(width x 8 levels, u8 batch size) + SREP + CERT + INDX (+12 framing) <= MIN_REQUEST_LENGTH.  Fault injection keeps the size: every alternative Grease::add_errors can return is the signature corruption (same fields, 64 random SIG bytes) or a permutation of the fields
(one pair pushed per position of index::sample(rng, n, n), n = number of fields); any other pathology is reported as not known to preserve the size.
(3b) "Well-formed": the parsers answer only what RtMessage::from_bytes accepted, and C05's decoder rules (known tags, strictly ascending order enforced on every
append, offset guards) are obligations here too.
"""
NOT_DECIDED = "nothing essential; the budget over-approximates (path depth 8 from the u8 batch size)"
TRUSTED = ["Ed25519 signatures are 64 bytes and public keys 32 bytes", "mio recv_from returns the datagram length"]

NFR = sm.NONCE_FROM_REQUEST
RFC = "roughenough::request::nonce_from_rfc_request"
CLASSIC = "roughenough::request::nonce_from_classic_request"


class OkReturn(tuple):
    """(block, statement index, Ok term) plus `extra`: facts that hold exactly when this return yields Ok (for functional returns)"""
    extra = ()


def ok_return_blocks(fn, ev, W=None):
    """Blocks that assign Ok(..) to the return place.  Also the functional form `opt.filter(|v| pred(v)).map(|v| f(v)).ok_or(err)` returned directly:
    it is Ok(f(v)) exactly when opt is Some(v) and pred(v) holds; those conditions are attached as `extra` facts."""
    out = []
    for bl in fn.blocks:
        if bl.idx not in fn.reachable():
            continue
        for i, st in enumerate(bl.stmts):
            if fn.is_return_assign(st, "Ok"):
                out.append(OkReturn((bl.idx, i, ev.rvalue(st["rv"], (bl.idx, i)))))
        t = bl.term
        if W is not None and t["k"] == "call" and t.get("dst") and not t["dst"].get("p") and t["dst"]["l"] in fn.return_locals() and \
                callee_name(t["fn"].get("path", "")) in ("ok_or", "ok_or_else") and "option::Option" in t["fn"].get("path", ""):
            a = ev.call_args(bl.idx)
            payload = a[0]          # map(..) is already the closure body applied to the payload
            extra = []
            filt = [x for x in values.subterms(payload) if is_call(x) and callee_name(x[1]) == "filter" and "option::Option" in x[1] and len(x[2]) == 2]
            ok = True
            for f in filt:
                opt, clo = f[2]
                extra.append(("Eq", ("discr", opt), ("int", 1)))
                if isinstance(clo, tuple) and clo and clo[0] == "closure" and clo[1] in W.prog.fns:
                    r = ev.apply_closure(clo, [ev.payload_term(opt)])
                    if r is None:
                        ok = False
                    else:
                        from lib import relational_deep
                        extra.extend(relational_deep(W, ("eq", r, True)))
                else:
                    ok = False
            if ok:
                # the payload with `filter(opt, pred)` read as opt's payload
                def unfilter(x):
                    if is_call(x) and callee_name(x[1]) == "filter" and "option::Option" in x[1] and len(x[2]) == 2:
                        return unfilter(x[2][0])
                    if isinstance(x, tuple):
                        return tuple(unfilter(y) if isinstance(y, tuple) else y for y in x)
                    return x
                o = OkReturn((bl.idx, "term", ("agg", "core::result::Result::Ok", (unfilter(payload),), None)))
                o.extra = tuple((r[0], unfilter(r[1]) if isinstance(r[1], tuple) else r[1], unfilter(r[2]) if isinstance(r[2], tuple) else r[2]) for r in extra)
                out.append(o)
    return out


def enc_len(nfields, value_lens):
    if nfields == 0:
        return 4
    return 4 + 4 * (nfields - 1) + 4 * nfields + sum(value_lens)


def _gsv_found_variant(ctx):
    """discriminant of "a supported version was found": Some (1) for Option<Version>, Ok (0) when the scan reports none as an Err"""
    f = ctx.prog.fns.get("roughenough::request::get_supported_version")
    return 0 if f is not None and f.locals[0]["ty"].startswith("core::result::Result<") else 1


def run(ctx):
    W = World(ctx)
    P = ctx.prog
    sp = spec()
    MIN = ctx.item_int("roughenough::MIN_REQUEST_LENGTH")
    MAX = ctx.item_int("roughenough::MAX_REQUEST_LENGTH")
    ctx.check("size-gate", "constants", (MIN, MAX) == (sp["common"]["min_request"], sp["common"]["max_request"]), "MIN/MAX = 1024/1500",
              "MIN_REQUEST_LENGTH/MAX_REQUEST_LENGTH are %d/%d, the protocol says 1024/1500" % (MIN, MAX))

    # ------------------------------------------------------------------ (1) size gate
    nf = ctx.fn(NFR)
    ev = W.ev(NFR)
    IN = flow.must_facts(nf, ev)
    N = ("param", NFR, 2)
    grid = [{"n": n} for n in (0, 1, 511, 512, 1023, 1024, 1025, 1200, 1499, 1500, 1501, 2048, 65507, 65536)]
    nd = 0
    for bb, t in nf.calls():
        p = strip_generics(t["fn"].get("path", ""))
        if p in (RFC, CLASSIC):
            nd += 1
            a = ev.call_args(bb)[0]
            oks = a[0] == "index" and a[1] == ("param", NFR, 1) and a[2][0] == "agg" and str(a[2][1]).endswith("RangeTo::RangeTo") and a[2][2][0] == N
            # the gate may sit in the dispatcher, in the parser, or be split between them: an Ok is produced only for 1024 <= num_bytes <= 1500, where
            # the parser's own facts about len(its buffer) count as facts about num_bytes (it is given buf[..num_bytes])
            cal = ctx.fn(p)
            cev = W.ev(p)
            CIN = flow.must_facts(cal, cev)
            CLEN = ("len", ("param", p, 1))
            here = flow.rel_facts_at(IN, bb)

            def subst(t):
                if t == CLEN:
                    return N
                if isinstance(t, tuple):
                    return tuple(subst(x) if isinstance(x, tuple) else x for x in t)
                return t
            mm = None
            oks_blocks = ok_return_blocks(cal, cev, W)
            if not oks_blocks:
                mm = "no Ok return found in the parser"
            for okr_ in oks_blocks:
                (ob, oi, oterm) = okr_
                inner = [(r[0], subst(r[1]), subst(r[2]) if isinstance(r[2], tuple) else r[2]) for r in list(flow.rel_facts_at(CIN, ob)) + list(okr_.extra)] if oks else []
                # accepted => in range (both directions are covered: a rejecting guard is the complement of the accepting facts)
                m1 = acceptance_mismatch(here + inner, {"n": N}, grid, lambda n: 1024 <= n <= 1500)
                if m1 is not None:
                    mm = m1
            ctx.check("size-gate", "%s/reached-iff-1024..1500" % callee_name(p), mm is None, "a request is accepted only for 1024 <= num_bytes <= 1500 (dispatcher and parser guards together), and every such size reaches the parser's checks",
                      "size gate of %s differs from 1024..=1500: %s" % (callee_name(p), mm), nf.loc(bb))
            ctx.check("size-gate", "%s/parses-exactly-the-datagram" % callee_name(p), oks, "parser is given buf[..num_bytes]",
                      "parser is given %s" % fmt(a), nf.loc(bb))
    ctx.floor("size-gate", nd, 2, "parser dispatch sites in nonce_from_request")
    # call site in collect_requests
    cfn, cev, routes = sm.routing(ctx, W)
    rb, ct, count, addr = sm.recv_count_term(W)
    calls = [bb for bb, t in cfn.calls() if NFR in P.call_targets(t)]
    if len(calls) != 1:
        raise AnchorMissing("one nonce_from_request call in collect_requests")
    a = cev.call_args(calls[0])
    if len(a) != 3:
        raise AnchorMissing("nonce_from_request(buf, num_bytes, expected_srv): the call in collect_requests passes %d arguments" % len(a))
    ctx.check("size-gate", "collect_requests/num_bytes-is-recv-count", a[1] == count and a[0] == ("field", ("param", cfn.path, 1), "buf") and ct[2][1] == a[0],
              "nonce_from_request(&self.buf, count returned by recv_from(&mut self.buf), ..)", "nonce_from_request is called with %s" % [fmt(x) for x in a[:2]], cfn.loc(calls[0]))

    # the receive buffer must be able to hold more than MAX bytes: recv_from silently truncates a longer datagram to the buffer
    # length, so with a buffer of MAX bytes or less an oversized datagram would be indistinguishable from a MAX-sized one
    from prover import term_array_len
    blen = term_array_len(W, cev, a[0])
    ctx.check("size-gate", "receive-buffer-exceeds-MAX", blen is not None and blen > MAX, "receive buffer holds %s bytes > MAX_REQUEST_LENGTH: oversized datagrams are seen with their real length" % blen,
              "the receive buffer holds %s bytes, not more than MAX_REQUEST_LENGTH (%d): recv_from truncates longer datagrams, so the `> MAX` check can never fire and oversized datagrams are answered" % (blen, MAX),
              cfn.loc(calls[0]))

    # ------------------------------------------------------------------ (2) well-formedness gates
    nonce_bound = {}
    for fnp, v in ((CLASSIC, "Google"), (RFC, "RfcDraft13")):
        fn = ctx.fn(fnp)
        e = W.ev(fnp)
        FIN = flow.must_facts(fn, e)
        oks = ok_return_blocks(fn, e, W)
        ctx.check("wellformed-gate", "%s/ok-returns-found" % v, len(oks) >= 1, "%d Ok return(s); every one is gated below" % len(oks), "anchor-missing: no Ok return found in %s" % fnp, ctx.loc(fn))
        for okr_ in oks:
            (bb, i, term) = okr_
            rels = list(flow.rel_facts_at(FIN, bb)) + list(okr_.extra)
            payload = term[2][0]
            nonce_t = payload[2][0] if payload[0] == "agg" else None
            # nonce = to_vec(payload of get_field(msg, NONC)) of the message parsed from the request
            tp = tagpath(W, nonce_t) if nonce_t else None
            okn = tp is not None and tp[1] == ("NONC",)
            ctx.check("wellformed-gate", "%s/nonce-is-NONC-of-request" % v, okn, "returned nonce = NONC value of the parsed request", "returned nonce is %s" % fmt(nonce_t), fn.loc(bb))
            some = any(isinstance(r[1], tuple) and r[1][0] == "discr" and is_call(r[1][1], "RtMessage::get_field") and tag_of(r[1][1][2][1]) == "NONC"
                       and ((r[0] == "Eq" and r[2] == ("int", 1)) or (r[0] == "Ne" and r[2] == ("int", 0))) for r in rels)
            ctx.check("wellformed-gate", "%s/NONC-present" % v, some, "Ok only when NONC is present", "Ok can be returned without a NONC field", fn.loc(bb))
            ln = ("len", nonce_t) if nonce_t else None
            want = sp["versions"][v]["nonce_len"]
            mm = acceptance_mismatch(rels, {"l": ln}, [{"l": x} for x in (0, 4, 28, 32, 36, 60, 64, 68, 1016)], lambda l: l == want) if ln else "no nonce"
            ctx.check("wellformed-gate", "%s/nonce-length" % v, mm is None, "Ok only for a %d-byte nonce" % want,
                      "nonce length is not restricted to %d bytes: %s" % (want, mm), fn.loc(bb))
            B = Bounds(W, fn, e, FIN)
            nonce_bound[v] = B.upper(ln, bb) if ln else INF
            if ln and okr_.extra:
                # functional return: the length fact is part of the conditions under which Ok is produced
                islen = lambda x: isinstance(x, tuple) and len(x) >= 2 and x[0] == "len" and values.strip_payload(x[1]) == values.strip_payload(nonce_t)
                ks = [r[2][1] for r in okr_.extra if r[0] == "Eq" and islen(r[1]) and isinstance(r[2], tuple) and r[2][0] == "int"] + \
                     [r[1][1] for r in okr_.extra if r[0] == "Eq" and islen(r[2]) and isinstance(r[1], tuple) and r[1][0] == "int"]
                if ks:
                    nonce_bound[v] = min(nonce_bound[v], max(ks))
            if v == "RfcDraft13":
                # frame length
                eqs = [r for r in rels if r[0] == "Eq" and r[1][0] != "discr"]
                okf = False
                det = ""
                from lib import le_u32_source, arith_eval, NotArith
                BUF = ("param", fnp, 1)
                for r in eqs:
                    sides = [W.expand(r[1]), W.expand(r[2])]
                    for (x, y) in ((sides[0], sides[1]), (sides[1], sides[0])):
                        # x: the frame's length word = LE u32 decoded from buf[8..12]; y: an expression equal to len(buf) - 12
                        src = None
                        for cand in values.subterms(x):
                            if is_call(cand) and callee_name(cand[1]) in ("read_u32", "from_le_bytes"):
                                src = le_u32_source(W, cand)
                                if src is not None:
                                    break
                        def flat_range(t_):
                            """(base, lo, hi|None) of nested constant slicings `b[a..c][d..]`, `b[..c][d..e]`: the same bytes of b"""
                            if not (isinstance(t_, tuple) and t_ and t_[0] == "index" and isinstance(t_[2], tuple) and t_[2][0] == "agg"):
                                return (values.strip_payload(t_), 0, None)
                            base, lo, hi = flat_range(values.strip_payload(W.expand(t_[1])))
                            lab, ops = str(t_[2][1]), t_[2][2]
                            if not all(isinstance(o_, tuple) and o_[0] == "int" for o_ in ops):
                                return (t_, 0, None)
                            if lab.endswith("Range::Range"):
                                a_, c_ = ops[0][1], ops[1][1]
                            elif lab.endswith("RangeFrom::RangeFrom"):
                                a_, c_ = ops[0][1], None
                            elif lab.endswith("RangeTo::RangeTo"):
                                a_, c_ = 0, ops[0][1]
                            else:
                                return (t_, 0, None)
                            nlo = lo + a_
                            nhi = (lo + c_) if c_ is not None else hi
                            return (base, nlo, nhi)
                        fr_ = flat_range(src) if src is not None else None
                        okrep = fr_ is not None and fr_[0] == BUF and fr_[1] == 8 and fr_[2] == 12

                        def norm_len(t_, depth=0):
                            """the payload length written as arithmetic over len(buf): conversions dropped, len(buf[k..]) = len(buf) - k"""
                            t_ = uncast(values.strip_payload(t_))
                            if depth > 6 or not isinstance(t_, tuple) or not t_:
                                return t_
                            if is_call(t_) and callee_name(t_[1]) in ("map_err", "try_from", "try_into", "from", "into", "unwrap", "expect", "ok_or", "branch") and t_[2]:
                                return norm_len(t_[2][0], depth + 1)
                            if t_[0] == "len":
                                b_, lo_, hi_ = flat_range(values.strip_payload(W.expand(t_[1])))
                                if b_ == BUF and hi_ is None:
                                    return ("bin", "Sub", ("len", BUF), ("int", lo_)) if lo_ else ("len", BUF)
                            return t_
                        okact = False
                        try:
                            okact = all(arith_eval(norm_len(y), {("len", BUF): L}) == L - 12 for L in (12, 16, 1024, 1500, 65536))
                        except NotArith:
                            okact = False
                        if okrep and okact:
                            okf = True
                        if okrep or okact:
                            det = "reported=%s actual=%s" % (fmt(x)[:120], fmt(y)[:120])
                ctx.check("wellformed-gate", "RfcDraft13/frame-length-equals-payload", okf, "Ok only when the u32 LE at buf[8..12] equals len(buf) - 12",
                          "frame length check missing or altered (%s)" % det, fn.loc(bb))
                from lib import fact_is_present
                okv = fact_is_present(rels, lambda x: is_call(x, "get_supported_version"), variant_index=_gsv_found_variant(ctx))
                # `version.is_none()` false edge is NotPred(is_none) -> mapped to Pred(is_some)
                ctx.check("wellformed-gate", "RfcDraft13/supported-version-found", okv, "Ok only when get_supported_version() is Some",
                          "Ok can be returned although no supported version was found", fn.loc(bb))
                ver = payload[2][1] if payload[0] == "agg" else None
                from lib import payload_source
                okver = ver is not None and is_call(payload_source(ver), "get_supported_version")
                ctx.check("wellformed-gate", "RfcDraft13/returns-the-matched-version", okver, "returned version is the one matched", "returned version is %s" % fmt(ver), fn.loc(bb))
        if v == "RfcDraft13":
            # SRV mismatch edge must not reach the Ok return
            ef = flow.edge_facts(fn, e)
            found = False
            for (s, d), fs in ef.items():
                for f in fs:
                    from lib import relational_deep
                    for r in relational_deep(W, f):
                        if r[0] == "Ne" and r[2] == ("param", fnp, 2) or (r[0] == "Ne" and r[1] == ("param", fnp, 2)):
                            other = r[1] if r[2] == ("param", fnp, 2) else r[2]
                            tp = tagpath(W, other)
                            if tp and tp[1] == ("SRV",):
                                found = True
                                reach_ok = any(d == ob[0] or fn.feasible_reach(d, {ob[0]}) for ob in oks)
                                ctx.check("wellformed-gate", "RfcDraft13/srv-mismatch-rejected", not reach_ok, "a request whose SRV differs from expected_srv is rejected",
                                          "the SRV-mismatch edge still reaches the Ok return", fn.loc(s))
            ctx.check("wellformed-gate", "RfcDraft13/srv-compared-with-expected", found, "SRV (when present) is compared with expected_srv",
                      "no comparison of the request's SRV with expected_srv", ctx.loc(fn))
    # expected_srv is this server's SRV
    okexp = a[2] == ("field", ("param", cfn.path, 1), "srv_value")
    rv, sfields, sfn = sm.responder_versions(W)
    sv = sfields.get("srv_value")
    okexp = okexp and is_call(sv, "LongTermKey::srv_value")
    ctx.check("wellformed-gate", "expected-srv-is-own", okexp, "expected_srv = long_term_key.srv_value() of this server", "expected_srv is %s / %s" % (fmt(a[2]), fmt(sv)), cfn.loc(calls[0]))

    # ------------------------------------------------------------------ (3) no send for rejected datagrams
    senders = set()
    for fn in P.fns.values():
        if fn.path.startswith("roughenough_"):
            continue
        for bb, t in fn.calls():
            if strip_generics(t["fn"].get("path", "")).endswith("UdpSocket::send_to"):
                senders.add(fn.path)
    allowed = {sm.SEND, "roughenough::server::Server::send_to_self"}
    ctx.check("no-send-for-rejected", "who-sends", senders <= allowed and sm.SEND in senders, "UdpSocket::send_to is called only from %s" % sorted(x.split("::")[-1] for x in senders),
              "unexpected send_to caller(s): %s" % sorted(senders - allowed))
    reach, ext, parent = P.reach([sm.COLLECT])
    sends = [x for x in ext if strip_generics(x).endswith("::send_to") or strip_generics(x).endswith("::send")]
    ctx.check("no-send-for-rejected", "collect_requests/reaches-no-send", not sends, "nothing reachable from collect_requests sends a datagram",
              "collect_requests reaches %s via %s" % (sends, [P.chain(parent, s) for s in sends][:1]))
    for r in routes:
        ctx.check("no-send-for-rejected", "queue-only-on-ok/%s" % callee_name(r["callee"]), r["on_ok_arm"], "requests are queued only on the Ok arm of nonce_from_request",
                  "%s is called outside the Ok arm" % r["callee"], cfn.loc(r["bb"]))
    chk = audit_facts.Checker(ctx, W)
    okp, why = chk.check("paired_pushes")
    ctx.check("no-send-for-rejected", "requests-pushed-only-by-add-request", okp, why, why)
    # the send loop iterates `requests`
    sr = ctx.fn(sm.SEND)
    sev = W.ev(sm.SEND)
    from lib import iter_elem, signer_pubkey
    for bb, t in sr.calls():
        if strip_generics(t["fn"].get("path", "")).endswith("UdpSocket::send_to"):
            dst = W.expand(sev.call_args(bb)[2])
            ie = iter_elem(W, dst)
            ctx.check("no-send-for-rejected", "send-loop-over-requests", ie is not None and ie["container"] == ("field", ("param", sm.SEND, 1), "requests"),
                      "one send per element of self.requests", "send_to destination is %s" % fmt(dst), sr.loc(bb))

    # ------------------------------------------------------------------ (3b) "a well-formed request": what the decoder accepts.  The request parsers answer
    # only what RtMessage::from_bytes accepted; that it accepts nothing but well-formed tag-value messages (known tags in strictly ascending order,
    # aligned monotone in-range offsets) is C05's decoder-guards rule set, an obligation of C07 too - a decoder that stops checking the tag order
    # makes the server answer datagrams that are not requests of either protocol.
    if not ctx.extra.get("no_c05"):
        import importlib
        from framework import Ctx
        c5 = importlib.import_module("rules.C05")
        sub5 = Ctx("C05", P, ctx.repo, "quick", ctx.feature)
        c5.run(sub5)
        mine5 = [i for i in sub5.instances if i["rule"].startswith(("decoder-guards", "ascending-enforced"))]
        bad5 = [i for i in mine5 if not i["ok"]]
        ctx.check("wellformed-gate", "decoder-accepts-only-well-formed-messages(C05)", not bad5, "the decoder's acceptance conditions hold (C05: %d decoder-guards instances)" % len(mine5),
                  "the server can answer a datagram that is not a well-formed request: " + (bad5[0]["detail"] if bad5 else ""), bad5[0].get("loc") if bad5 else None)
        ctx.floor("wellformed-decoder", len(mine5), 10, "C05 decoder-guards instances")

    # ------------------------------------------------------------------ (4) size budget
    okb, whyb = chk.check("batch_size_is_u8")
    ctx.check("size-budget", "batch-bounded-by-u8", okb, whyb, whyb)
    depth = 8
    SIG, PK = sp["common"]["signature_len"], sp["common"]["pubkey_len"]
    for v in VERSIONS:
        width = sp["versions"][v]["node_width"]
        # DELE
        md = ctx.fn(sm.MAKE_DELE)
        dev = W.ev(md.path)
        okd, dfields, _ = sm.message_built(W, dev, dev.ret()) if dev.ret()[0] == "obj" else (False, [], "")
        dl = []
        for (tg, val, bb) in dfields:
            n = PK if (is_call(val, "MsgSigner::public_key_bytes") or signer_pubkey(W, val) is not None) else bytelen(W, dev, val)
            dl.append(n)
        dele = enc_len(len(dl), dl) if okd and None not in dl else None
        cert = enc_len(2, [SIG, dele]) if dele is not None else None
        ms = ctx.fn(sm.MAKE_SREP)
        ev2 = Ev(P, ms, binds={2: ("enum", VERSION, v)})
        live = ev2.live()
        srep = None
        for bb, t in ms.calls():
            if bb in live and strip_generics(t["fn"].get("path", "")).endswith("RtMessage::encode"):
                obj = ev2.call_args(bb)[0]
                if obj[0] == "obj":
                    okm, sfl, _ = sm.message_built(W, ev2, obj, live)
                    if okm and [f[0] for f in sfl] == sp["versions"][v]["srep_tags"]:
                        lens = []
                        for (tg, val, b2) in sfl:
                            if tg == "ROOT":
                                lens.append(width)
                            else:
                                val2 = resolve_fields(W, ev2, val)
                                n = bytelen(W, ev2, ev2.resolve(val2))
                                lens.append(n)
                        srep = enc_len(len(lens), lens) if None not in lens else None
        nb = nonce_bound.get(v, INF)
        parts = {"header": enc_len(6, []), "SIG": SIG, "NONC": nb, "PATH": width * depth, "SREP": srep, "CERT": cert, "INDX": 4,
                 "framing": 12 if sp["versions"][v]["framed"] else 0}
        if None in parts.values() or INF in parts.values():
            ctx.violation("size-budget", "%s/bounded" % v, "cannot bound the response size: %s" % {k: (x if x != INF else "unbounded") for k, x in parts.items()}, ctx.loc(ctx.fn(sm.MAKE_RESPONSE)))
            continue
        total = sum(parts.values())
        ctx.check("size-budget", "%s/response<=request" % v, total <= MIN, "worst-case %s response = %d bytes <= %d (%s)" % (v, total, MIN, parts),
                  "a %s response can be %d bytes, larger than the smallest accepted request (%d): %s" % (v, total, MIN, parts), ctx.loc(ctx.fn(sm.MAKE_RESPONSE)))
    # grease never grows a response
    g = ctx.fn("roughenough::grease::Grease::corrupt_response_signature")
    gev = W.ev(g.path)
    r = gev.ret()
    alts = r[1] if r[0] == "phi" else (r,)
    okg = True
    det = []
    for a2 in alts:
        if a2[0] == "obj":
            okm, fl, why = sm.message_built(W, gev, a2)
            for (tg, val, bb) in fl:
                v0 = values.strip_payload(val)
                if is_call(v0, "RtMessage::get_field") and tag_of(v0[2][1]) == tg and v0[2][0] == ("param", g.path, 2):
                    continue
                n = bytelen(W, gev, v0)
                if tg == "SIG" and n == SIG:
                    continue
                okg = False
                det.append("%s=%s" % (tg, fmt(v0)))
    ctx.check("size-budget", "grease/no-growth", okg, "a corrupted response copies the original fields (random SIG of 64 bytes)", "greased response contains %s" % det, ctx.loc(g))
    # every pathology the injector can pick leaves the size alone: it is either the signature corruption above or a permutation of the fields
    # (one (tag, value) pair pushed per index of a sample-without-replacement of all field positions).  Anything else may add bytes.
    ae = ctx.fn("roughenough::grease::Grease::add_errors")
    aev = W.ev(ae.path)
    ar = aev.ret()
    aalts = ar[1] if ar[0] == "phi" else (ar,)
    npath = 0
    for a2 in aalts:
        a2 = values.strip_payload(a2)
        npath += 1
        if not (is_call(a2) and a2[1] in P.fns):
            ctx.violation("size-budget", "grease/pathology#%d" % npath, "add_errors returns %s: not a recognised size-preserving transformation" % fmt(a2)[:160], ctx.loc(ae))
            continue
        pf = P.fns[a2[1]]
        nm = pf.path.split("::")[-1]
        if pf.path == g.path:
            ctx.ok("size-budget", "grease/pathology/%s" % nm, "signature corruption (judged above)", ctx.loc(pf))
            continue
        pev = W.ev(pf.path)
        pr = values.strip_payload(pev.ret())
        okp, why = False, "its result is %s" % fmt(pr)[:120]
        if is_call(pr) and callee_name(pr[1]) == "new_deliberately_invalid" and len(pr[2]) == 2 and all(isinstance(x, tuple) and x[0] == "obj" for x in pr[2]):
            src = ("param", pf.path, 2)
            nf = None
            good = True
            for obj, getter in zip(pr[2], ("tags", "values")):
                grow = []
                for (b, callee, argi, ap) in pev.events_on(obj[2]):
                    if argi != 0 or not pf.blocks[b].term["arg_tys"][0].startswith("&mut"):
                        continue
                    cn = callee_name(callee)
                    if cn in ("reserve", "reserve_exact", "clear", "truncate", "shrink_to_fit", "sort", "swap", "reverse", "iter_mut", "deref_mut", "as_mut_slice", "index_mut"):
                        continue
                    grow.append((b, cn))
                if len(grow) != 1 or grow[0][1] != "push" or len(pf.in_loop(grow[0][0])) != 1:
                    good = False
                    why = "%s vector is grown by %s" % (getter, [x[1] for x in grow])
                    break
                b0 = grow[0][0]
                lp = pf.in_loop(b0)[0]
                val = W.expand(pev.call_args(b0)[1])
                ie = None
                from lib import iter_elem
                gets = [x for x in values.subterms(val) if is_call(x) and callee_name(x[1]) in ("get", "index") and len(x[2]) == 2] + \
                       [x for x in values.subterms(val) if isinstance(x, tuple) and x and x[0] == "index"]
                okel = False
                for x in gets:
                    base, idx = (x[2][0], x[2][1]) if is_call(x) else (x[1], x[2])
                    base = W.expand(base)
                    if is_call(base) and callee_name(base[1]) == getter and base[2] and base[2][0] == src:
                        ie = iter_elem(W, W.expand(idx))
                        s_ = ie["container"] if ie else None
                        while isinstance(s_, tuple) and s_ and (s_[0] == "reader" or (is_call(s_) and callee_name(s_[1]) in ("iter", "into_iter", "into_vec") and s_[2])):
                            s_ = s_[1] if s_[0] == "reader" else W.expand(s_[2][0])
                        if ie and ie["what"] == "elem" and is_call(s_) and callee_name(s_[1]) == "sample" and "index" in s_[1] and len(s_[2]) == 3 and s_[2][1] == s_[2][2]:
                            cnt = uncast(s_[2][1])
                            if is_call(cnt) and callee_name(cnt[1]) in ("num_fields", "len") and values.contains(cnt, lambda q: q == src):
                                okel = True
                                nf = cnt
                # the push is on every pass of that loop, which is left only when the sample is exhausted
                if not okel or not all(pf.dominates(b0, s0) for s0, d0 in lp["backedges"]):
                    good = False
                    why = "%s are not the source's %s taken at each index of index::sample(rng, n, n) with n the number of fields" % (getter, getter)
                    break
            okp = good
            if good:
                why = "a permutation: one (tag, value) pair of the source per sampled position, all positions once"
        ctx.check("size-budget", "grease/pathology/%s" % nm, okp, "%s: %s" % (nm, why),
                  "fault injection %s is not known to keep the response size (%s): a greased response may exceed the request" % (nm, why),
                  ctx.loc(pf) if "::grease::" in pf.path else ctx.loc(ae))
    ctx.floor("size-budget-pathologies", npath, 2, "pathologies add_errors can return")
