"""C20 — the long-term seed never appears in anything the server emits."""
import values
from lib import World, is_call, callee_name
from mir import strip_generics, AnchorMissing
from taint import Taint
from values import fmt

EXPLANATION = """
T-taint over the library and the server binary on provenance terms, interprocedural (parameters are bound through every call site,
struct fields are tracked by field name through every construction and assignment, closures through their captures).
Sources: results of ServerConfig::seed (every implementation and the virtual call), env::var(ROUGHENOUGH_SEED) (the seed as text, before decoding), kms::load_seed, EnvelopeEncryption::decrypt_seed, KmsProvider::decrypt_dek,
reads of fields named `seed` or `signing_key`, SecretKey/SigningKey values.  Sinks: the arguments of log::__private_api::log, _print/_eprint, panic_fmt,
the payload of unwrap/expect/unwrap_or_else(panic) when the error type can carry bytes, UdpSocket::send_to and TcpStream write payloads, the reporter's CSV writer and File writes.
Declassifiers: len/is_empty, Signer::sign (signature), verifying_key/public_key_bytes, calc_srv_value, AEAD seal output, KmsProvider::encrypt_dek.  A digest of secret
material stays secret (SHA-512(seed) is the Ed25519 private scalar); a value handed to a format macro through a hand-written Display/Debug impl is judged inside that impl.
In addition no secret-bearing type (configuration structs, MsgSigner, LongTermKey, OnlineKey, Responder, Server) has a derived Debug or Serialize
implementation; hand-written formatters are analysed like any other function.
"""
NOT_DECIDED = "what dependencies do internally with the key material (trusted)"
TRUSTED = ["ed25519-dalek does not log key material", "data-free error types (TryFromSliceError, DecodeError, ring Unspecified, SignatureError) carry no input bytes"]

SINK_LOG = ("log::__private_api::log", "std::io::stdio::_print", "std::io::stdio::_eprint", "core::panicking::panic_fmt", "std::rt::panic_fmt", "core::panicking::panic_display")
DATA_FREE_ERR = ("TryFromSliceError", "DecodeError", "Unspecified", "SignatureError", "signature::error::Error", "TryFromIntError", "KeyRejected", "Infallible", "std::io::error::Error", "AddrParseError",
                 "ParseIntError", "ctrlc::error::Error", "SetLoggerError", "SystemTimeError", "()")
SECRET_ADTS = ("roughenough::config::file::FileConfig", "roughenough::config::environment::EnvironmentConfig", "roughenough::config::memory::MemoryConfig",
               "roughenough::sign::MsgSigner", "roughenough::key::longterm::LongTermKey", "roughenough::key::online::OnlineKey",
               "roughenough::responder::Responder", "roughenough::server::Server")


def in_scope(p):
    return not (p.startswith("roughenough_client") or p.startswith("roughenough_kms"))


def make_taint(W):
    P = W.prog
    def src_seed(t):
        p = strip_generics(t[1])
        return p.endswith("ServerConfig::seed") or (p.endswith("::seed") and "ServerConfig" in t[1])

    def src_load(t):
        p = strip_generics(t[1])
        return p.endswith("kms::load_seed") or p.endswith("EnvelopeEncryption::decrypt_seed") or p.endswith("KmsProvider::decrypt_dek") or callee_name(p) == "decrypt_dek"

    def src_key(t):
        p = strip_generics(t[1])
        return ("SecretKey" in p and callee_name(p) in ("try_from", "from")) or p.endswith("SigningKey::to_bytes") or p.endswith("SigningKey::to_keypair_bytes") or p.endswith("SigningKey::as_bytes") or p.endswith("SigningKey::to_scalar_bytes")

    def src_env(t):
        # the seed as text, before it is decoded into the configuration: env::var("ROUGHENOUGH_SEED")
        p = strip_generics(t[1])
        if not (p.startswith("std::env::var") and callee_name(p) in ("var", "var_os")) or not t[2]:
            return False
        a = W.expand(t[2][0])
        return values.contains(a, lambda x: isinstance(x, tuple) and x and x[0] == "str" and "SEED" in x[1].upper())

    def declass(t):
        p = strip_generics(t[1])
        n = callee_name(p)
        if n in ("len", "is_empty", "is_some", "is_none", "is_ok", "is_err", "capacity"):
            return True
        if "fmt::rt::Argument" in p and n.startswith("new_") and len(t) > 3 and t[3] and t[3][0] in P.fns:
            # a value of a local type with a hand-written Display/Debug is printed by that impl, and the impl is scanned as a sink of its own
            # (its reads of secret fields are sources there): the call site hands over the value, it does not print its fields
            tr = {"new_display": "Display", "new_debug": "Debug", "new_lower_hex": "LowerHex", "new_upper_hex": "UpperHex"}.get(n)
            ct = P.fns[t[3][0]].blocks[t[3][1]].term
            for sub in ct["fn"].get("substs", []):
                ty = sub.replace("&mut ", "").replace("&", "").split("<")[0].strip()
                if any((im.get("trait") or "").split("::")[-1] == tr and im.get("self_adt") == ty and not im.get("derived") and "fmt" in im.get("methods", {}) for im in P.impls):
                    return True
        if n in ("public_key_bytes", "public_key") and t[1] in P.fns:
            # a crate-local getter is public information only if its body returns the verifying key of a signer (directly or through
            # MsgSigner::public_key_bytes); a "public key" field filled from other bytes (half of a key pair, say) is judged by where it comes from
            from lib import signer_pubkey
            return signer_pubkey(W, W.ev(t[1]).ret()) is not None
        if n in ("verifying_key", "public_key_bytes", "public_key", "calc_srv_value", "srv_value", "make_cert", "make_dele", "make_srep"):
            return True
        if n == "sign" and ("Signer" in p or "MsgSigner" in p or "SigningKey" in p):
            return True
        # (a digest of secret material is NOT declassified: SHA-512(seed) is the Ed25519 private scalar and prefix; a one-way function of a secret
        #  is only harmless when the secret has enough entropy left after everything else that is known, which is not a structural fact)
        if n.startswith("seal_in_place") or n == "encrypt_dek" or n == "encrypt_seed":
            return True
        if n in ("from_seed", "new") and ("MsgSigner" in p or "LongTermKey" in p or "OnlineKey" in p or "Responder" in p or "UnboundKey" in p or "LessSafeKey" in p):
            return True   # constructors wrap the secret in an opaque object; reads of its secret fields are sources again
        return False

    T_ = Taint(W, [("config.seed()", src_seed), ("load_seed/decrypt", src_load), ("secret-key-bytes", src_key), ("env::var(ROUGHENOUGH_SEED)", src_env)], ("seed", "signing_key", "secret_key"), declass, scope=in_scope)
    T_.data_free_types = DATA_FREE_ERR
    T_.err_payloads_fn = lambda t_: err_payloads(W, T_, t_)
    return T_


def err_payloads(W, T, t, depth=0):
    """Terms that can be the Err payload of a Result-valued term (variant-sensitive: the Ok payload is ignored).
    Unknown producers yield the term itself (conservative), secret *sources* yield nothing (their errors carry no key material)."""
    P = W.prog
    t = values.strip_payload(t) if isinstance(t, tuple) and t and t[0] == "vfield" and t[2] in ("Break",) else t
    if not isinstance(t, tuple) or not t or depth > 6:
        return []
    if t[0] == "phi":
        out = []
        for a in t[1]:
            out += err_payloads(W, T, a, depth + 1)
        return out
    if t[0] == "agg":
        lab = str(t[1])
        if lab.endswith("Result::Ok"):
            return []
        if lab.endswith("Result::Err"):
            return [t[2][0]]
        return [t]
    if t[0] == "vfield":
        return err_payloads(W, T, t[1], depth + 1)
    if is_call(t):
        for name, pred in T.source_calls:
            if pred(t):
                return []
        n = callee_name(t[1])
        if n == "from_residual" and t[2]:
            return err_payloads(W, T, t[2][0], depth + 1)
        if n in ("map_err", "or_else") and t[2]:
            inner = err_payloads(W, T, t[2][0], depth + 1)
            if len(t) > 3 and t[3] and t[3][0] in P.fns:
                tys0 = P.fns[t[3][0]].blocks[t[3][1]].term.get("arg_tys") or [""]
                if any(d in tys0[0] for d in DATA_FREE_ERR):
                    inner = [("int", 0)]      # the error being mapped is of a type that carries no data (same table as for unwrap sites)
            out = []
            for x in t[2][1:]:
                if isinstance(x, tuple) and x and x[0] == "closure" and x[1] in P.fns and n == "map_err":
                    # the new error is what the closure returns, given the old error: not everything the closure captured
                    r = W.ev(x[1]).ret()
                    if r != ("never",):
                        out += [W.bind_params(r, x[1], [x, e]) for e in (inner or [("unknown-error",)])]
                        continue
                out.append(x)
            return (inner if n == "or_else" else []) + out
        if t[1] in P.fns:
            ev = W.ev(t[1])
            r = W.bind_params(ev.ret(), t[1], list(t[2]))
            return err_payloads(W, T, r, depth + 1)
        return [t]
    return [t]


def used_formatters(P):
    """Hand-written fmt impls of local types that are actually invoked by a format argument somewhere in scope
    (transitively: a formatter that formats another local type uses that type's formatter too)."""
    impls = {}
    for im in P.impls:
        tr = (im.get("trait") or "").split("::")[-1]
        if tr in ("Display", "Debug", "LowerHex", "UpperHex") and im.get("self_adt") and not im.get("derived") and "fmt" in im["methods"]:
            impls[(im["self_adt"], tr)] = im["methods"]["fmt"]
    used = set()
    work = [f.path for f in P.fns.values() if in_scope(f.path) and not any(f.path == v for v in impls.values())]
    seen = set()
    while work:
        fp = work.pop()
        if fp in seen or fp not in P.fns:
            continue
        seen.add(fp)
        for bb, t in P.fns[fp].calls():
            p = t["fn"].get("path", "")
            n = callee_name(p)
            if "fmt::rt::Argument" in p and n.startswith("new_"):
                tr = {"new_display": "Display", "new_debug": "Debug", "new_lower_hex": "LowerHex", "new_upper_hex": "UpperHex"}.get(n)
                for sub in t["fn"].get("substs", []):
                    ty = sub.replace("&mut ", "").replace("&", "").split("<")[0].strip()
                    if (ty, tr) in impls and impls[(ty, tr)] not in used:
                        used.add(impls[(ty, tr)])
                        work.append(impls[(ty, tr)])
            # to_string() on a local Display type
            if n == "to_string" and t["fn"].get("substs"):
                ty = t["fn"]["substs"][0].replace("&", "").split("<")[0].strip()
                if (ty, "Display") in impls and impls[(ty, "Display")] not in used:
                    used.add(impls[(ty, "Display")])
                    work.append(impls[(ty, "Display")])
    return used


def sinks_of(P, fn, ev, formatter=False):
    """[(bb, kind, [arg terms to check])]"""
    out = []
    if formatter:
        for bb, t in fn.calls():
            p = strip_generics(t["fn"].get("path", ""))
            if "fmt::Formatter" in p and callee_name(p) in ("write_fmt", "write_str", "pad", "debug_struct", "field", "debug_tuple"):
                out.append((bb, "formatter-output", ev.call_args(bb)[1:]))
    for bb, t in fn.calls():
        p = strip_generics(t["fn"].get("path", ""))
        n = callee_name(p)
        args = None
        if p in SINK_LOG or p.endswith("__private_api::log") or n in ("_print", "_eprint"):
            args = ev.call_args(bb)
            out.append((bb, "log/print" if "panic" not in p else "panic-message", args))
        elif n in ("send_to", "send") and ("Udp" in p or "net::" in p):
            args = ev.call_args(bb)
            out.append((bb, "datagram", [args[1]]))
        elif n in ("write_all", "write", "write_fmt") and any(x in t["arg_tys"][0] for x in ("TcpStream", "File", "Stdout", "Stderr", "zstd", "BufWriter")):
            args = ev.call_args(bb)
            out.append((bb, "stream-write", args[1:]))
        elif n in ("serialize", "write_record") and "csv" in p:
            args = ev.call_args(bb)
            out.append((bb, "csv", args[1:]))
        elif n in ("unwrap", "expect", "unwrap_err", "expect_err") and p.startswith("core::result::Result"):
            ety = t["arg_tys"][0]
            if not any(d in ety for d in DATA_FREE_ERR):
                args = ev.call_args(bb)
                out.append((bb, "unwrap-error-payload", [args[0]]))
        elif n == "unwrap_or_else" and t.get("closures"):
            # panic closures formatting their captures are analysed as functions (their own panic_fmt sinks)
            pass
    return out


def run(ctx):
    W = World(ctx)
    P = ctx.prog
    T = make_taint(W)
    nsinks = 0
    nfn = 0
    usedf = used_formatters(P)
    ctx.extra["formatters_in_use"] = sorted(usedf)
    for fn in sorted(P.fns.values(), key=lambda f: f.path):
        if not in_scope(fn.path):
            continue
        nfn += 1
        ev = W.ev(fn.path)
        for (bb, kind, terms) in sinks_of(P, fn, ev, formatter=fn.path in usedf):
            nsinks += 1
            reasons = set()
            if kind == "unwrap-error-payload":
                terms = [e for x in terms for e in err_payloads(W, T, x)]
            for x in terms:
                reasons |= T.taint(W.expand(x)) | T.taint(x)
            mac = fn.blocks[bb].term.get("mac", "")
            ctx.record("no-secret-flow", "%s/%s@%s" % (fn.path, kind, (mac + ":" if mac else "") + fn.loc(bb).split(":")[-1]), not reasons,
                       "clean" if not reasons else "secret material (%s) can reach this %s sink" % (", ".join(sorted(reasons)), kind), fn.loc(bb), nontrivial=True)
    ctx.floor("no-secret-flow", nsinks, 60, "sink call sites in the library and the server binary")
    ctx.extra["functions_scanned"] = nfn
    # sources must exist (anchor)
    nsrc = 0
    for fn in P.fns.values():
        if in_scope(fn.path):
            for bb, t in fn.calls():
                if strip_generics(t["fn"].get("path", "")).endswith("ServerConfig::seed") or strip_generics(t["fn"].get("path", "")).endswith("kms::load_seed"):
                    nsrc += 1
    ctx.floor("no-secret-flow-sources", nsrc, 3, "reads of the seed (config.seed() / load_seed)")

    # ------------------------------------------------------------------ derived formatters on secret-bearing types
    for adt in SECRET_ADTS:
        if adt not in P.adts:
            raise AnchorMissing("type " + adt)
        bad = [im["trait"] for im in P.impls if im.get("self_adt") == adt and im.get("derived") and im.get("trait", "").split("::")[-1] in ("Debug", "Serialize", "Display")]
        ctx.check("no-derived-formatter", adt.split("::")[-1], not bad, "no derived Debug/Serialize on %s" % adt.split("::")[-1],
                  "%s derives %s: formatting it would print its secret fields" % (adt, bad))
    # any other type that (transitively) owns a field of a secret-bearing type or a field named seed
    for adt, d in P.adts.items():
        if adt in SECRET_ADTS or not adt.startswith("roughenough::"):
            continue
        for v in d["variants"]:
            for f in v["fields"]:
                if f["name"] in ("seed", "signing_key") or any(s.split("::")[-1] in f["ty"] for s in SECRET_ADTS[:6]):
                    bad = [im["trait"] for im in P.impls if im.get("self_adt") == adt and im.get("derived") and im.get("trait", "").split("::")[-1] in ("Debug", "Serialize")]
                    ctx.check("no-derived-formatter", adt.split("::")[-1] + "." + f["name"], not bad, "no derived formatter on a type holding secrets",
                              "%s holds %s and derives %s" % (adt, f["ty"], bad))


def fixture(fctx):
    import fixture_checks
    return fixture_checks.taint_alive(fctx, make_taint, sinks_of)
