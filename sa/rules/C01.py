"""C01 — the client never reports an unauthentic response as verified."""
from collections import deque

import flow
import values
from lib import iter_elem, World, tagpath, enforced, is_call, callee_name, TAG, VERSION, VERSIONS
from framework import spec
from mir import strip_generics, AnchorMissing

EXPLANATION = """
Decided on the MIR of the client binary and the library (all paths, both versions):
(1) every call of a signature-verification predicate (MsgVerifier::verify and every local function that returns such a
result) is either branched on with a diverging false edge or returned to a caller that does so (T-diverge);
(2) the two verification events that dominate the assignment `verified = true` have, after substituting the
ResponseHandler constructor's field terms, exactly the operands (key, signature, signed bytes) the protocol prescribes:
DELE under the pinned key with dele_ctx(version)||CERT.DELE and CERT.SIG; SREP under CERT.DELE.PUBK with
srep_ctx(version)||SREP and SIG, and the context accessors evaluate to the spec strings for both versions;
(3) the Merkle comparison root_from_paths(INDX, own leaf, PATH) == SREP.ROOT and MINT <= MIDP <= MAXT are enforced (false
edge diverges) in functions that are called on every path to the statement that prints the time; `Yes`/`true` is printed
only on the true edge of the verified flag;
(4) the leaf is the client's own nonce/request: it traces to create_nonce() called inside the per-request loop, whose bytes
are the out-parameter of SecureRandom::fill with a checked result, and never to the response;
(5) MsgVerifier::verify returns exactly is_ok(VerifyingKey::verify(self.pubkey, self.buf, sig)), update only appends.
"""
NOT_DECIDED = "Ed25519/SHA-512 themselves; that a mutated byte string fails the value-level checks (follows from 1-5 given the crypto)."
TRUSTED = ["ed25519-dalek Verifier::verify", "ring SystemRandom::fill fills its out-parameter with fresh random bytes",
           "std HashMap Index / Vec Extend semantics"]

CLIENT = "roughenough_client::"
HANDLER = "roughenough_client::ResponseHandler"
MSGVERIFY = "roughenough::sign::MsgVerifier::verify"


RES_PRED = {}      # fn path -> block of the predicate call it wraps, for functions that report the verification result as Ok(..) / Err(..)


def _res_switch(fn, ev, cterm):
    """Switches on the discriminant of the Result `cterm` (directly or through `?`): [(block, ok successor, err successor)]."""
    out = []
    for bl in fn.blocks:
        if bl.idx not in fn.reachable() or bl.term["k"] != "switch":
            continue
        c = ev.op(bl.term["op"], (bl.idx, "term"))
        if not (isinstance(c, tuple) and c and c[0] == "discr"):
            continue
        x = c[1]
        for _ in range(3):
            if x == cterm:
                break
            x0 = values.strip_payload(x)
            if x0 == x:
                break
            x = x0
        if x != cterm and values.strip_payload(c[1]) != values.strip_payload(cterm):
            continue
        cases = dict(bl.term["cases"])
        oks = cases.get(0, bl.term["otherwise"] if 0 not in cases else None)
        err = cases.get(1, bl.term["otherwise"])
        out.append((bl.idx, oks, err))
    return out


def predicate_closure(ctx, W):
    """Functions whose result is a signature verification result: bool predicates (the result itself, or `false` on extra early-outs), and
    functions that turn it into a Result - Ok only on the true edge of the predicate / the Ok edge of such a Result (RES_PRED)."""
    S = {MSGVERIFY}
    RES_PRED.clear()
    changed = True
    while changed:
        changed = False
        for fn in ctx.prog.fns.values():
            if fn.path in S:
                continue
            ev = W.ev(fn.path)
            for bb, t in fn.calls():
                tg = ctx.prog.call_targets(t)
                if any(x in S for x in tg):
                    cterm = ev.call_term(bb)
                    r = ev.ret()
                    # the result itself, or `false` on additional early-outs (which only makes the predicate stricter)
                    alts = r[1] if isinstance(r, tuple) and r and r[0] == "phi" else (r,)
                    if cterm in alts and all(a == cterm or a == ("int", 0) for a in alts):
                        S.add(fn.path)
                        changed = True
                        continue
                    if not fn.locals[0]["ty"].startswith("core::result::Result<"):
                        continue
                    okblocks = [bl.idx for bl in fn.blocks if bl.idx in fn.reachable() and any(fn.is_return_assign(st, "Ok") for st in bl.stmts)]
                    bad_succ = []
                    if any(x in RES_PRED for x in tg):
                        bad_succ = [e_ for (_b, _o, e_) in _res_switch(fn, ev, cterm)]
                    else:
                        for bl in fn.blocks:
                            if bl.idx in fn.reachable() and bl.term["k"] == "switch":
                                c = ev.op(bl.term["op"], (bl.idx, "term"))
                                neg = False
                                while isinstance(c, tuple) and c[0] == "un" and c[1] == "Not":
                                    c = c[2]
                                    neg = not neg
                                if c == cterm:
                                    fv = 1 if neg else 0
                                    cases = dict(bl.term["cases"])
                                    bad_succ.append(cases.get(fv, bl.term["otherwise"]))
                    # Ok(..) is built only where the predicate held: no Ok-returning block is reachable from a false / Err edge
                    if okblocks and bad_succ and not any(b == o or fn.reaches(b, o) for b in bad_succ for o in okblocks) and all(fn.dominates(bb, o) for o in okblocks):
                        S.add(fn.path)
                        RES_PRED[fn.path] = bb
                        changed = True
    return S


def enforced_result(fn, ev, call_bb):
    """T-diverge for a call of a Result-valued verification wrapper: every branch on its discriminant has a diverging Err edge ('diverge'),
    or the value is handed on by a function that is itself such a wrapper ('returned'), else 'unchecked'."""
    cterm = ev.call_term(call_bb)
    sw = _res_switch(fn, ev, cterm)
    div = fn.diverging()
    if sw:
        bad = [(b, e_) for (b, o, e_) in sw if e_ not in div]
        if not bad:
            return ("diverge", [b for (b, o, e_) in sw])
        if fn.path in RES_PRED and RES_PRED[fn.path] == call_bb:
            return ("returned", None)
        return ("unchecked", "; ".join("%s: Err edge bb%d returns normally" % (fn.loc(b), e_) for b, e_ in bad))
    r = ev.ret()
    if r == cterm or values.contains(r, lambda s_: s_ == cterm):
        return ("returned", None)
    return ("unchecked", "the Result is neither matched with a diverging Err arm nor returned")


def flag_enum_info(ctx, W, parsed_adt):
    """The `verified` flag may be a fieldless two-variant enum (`Verification::{Verified, Unverified}`) instead of a bool: (enum path, index of the
    variant under which main selects the string "Yes"), or (None, None) for a bool."""
    P = ctx.prog
    vty = next((x["ty"] for x in P.adts[parsed_adt]["variants"][0]["fields"] if x["name"] == "verified"), "bool")
    if not (vty in P.adts and len(P.adts[vty].get("variants", [])) == 2 and not any(v.get("fields") for v in P.adts[vty]["variants"])):
        return None, None
    main = ctx.fn("roughenough_client::main")
    mev = W.ev(main.path)
    IN = flow.must_facts(main, mev)
    yes = None
    for bl in main.blocks:
        if bl.idx in main.reachable() and any(s_["k"] == "assign" and s_["rv"]["k"] == "use" and "c" in s_["rv"]["op"] and s_["rv"]["op"]["c"].get("str") == "Yes" for s_ in bl.stmts):
            for r in flow.rel_facts_at(IN, bl.idx):
                if r[0] == "Eq" and isinstance(r[1], tuple) and r[1][0] == "discr" and r[2][0] == "int":
                    t0 = values.strip_payload(r[1][1])
                    if isinstance(t0, tuple) and t0[0] == "field" and t0[2] == "verified":
                        yes = r[2][1]
    return vty, yes


def verify_triple(ctx, W, fnpath, bb, S):
    """(key, data_seq, sig) of the verification performed by the call at (fn, bb), in terms of fn's own values."""
    fn = ctx.prog.fns[fnpath]
    ev = W.ev(fnpath)
    t = fn.blocks[bb].term
    targets = ctx.prog.call_targets(t)
    args = ev.call_args(bb)
    if MSGVERIFY in targets:
        recv = args[0]
        if recv[0] != "obj":
            return None
        init = W.obj_init(recv)
        if not is_call(init, "MsgVerifier::new"):
            return None
        key = init[2][0]
        data = []
        for (b2, callee, argi, ap) in W.obj_events(recv):
            name = callee_name(callee)
            if b2 == bb:
                continue
            if argi == 0 and strip_generics(callee).endswith("MsgVerifier::update"):
                if fn.in_loop(b2):
                    # `for part in parts { verifier.update(part) }`: every element of `parts`, in order
                    ie = iter_elem(W, W.expand(ev.call_args(b2)[1]))
                    lp = min(fn.in_loop(b2), key=lambda l: len(l["body"]))
                    whole = ie is not None and ie["what"] == "elem" and ie["fields"] == () and len(lp["exits"]) == 1 and \
                        all(fn.dominates(b2, s_) for (s_, d_) in lp["backedges"])
                    if not whole or not any(fn.dominates(h, bb) for h in [lp["header"]]):
                        return None
                    cont = ie["container"]
                    for _ in range(3):
                        if is_call(cont) and callee_name(cont[1]) in ("iter", "into_iter", "deref", "as_ref", "as_slice") and cont[2]:
                            cont = W.expand(cont[2][0])
                    data.append((b2, ("each", cont)))
                    continue
                if not fn.dominates(b2, bb):
                    return None
                data.append((b2, ev.call_args(b2)[1]))
            elif argi == 0 and fn.blocks[b2].term["arg_tys"][0].startswith("&mut"):
                return None
        data.sort(key=lambda x: fn.rpo().index(x[0]))
        return (key, [d[1] for d in data], args[1])
    for tg in targets:
        if tg in S and tg in ctx.prog.fns:
            callee = ctx.prog.fns[tg]
            # the single predicate call whose result is returned
            cev = W.ev(tg)
            for b2, t2 in callee.calls():
                r2 = cev.ret()
                alts2 = r2[1] if isinstance(r2, tuple) and r2 and r2[0] == "phi" else (r2,)
                if any(x in S for x in ctx.prog.call_targets(t2)) and (cev.call_term(b2) in alts2 or RES_PRED.get(tg) == b2):
                    inner = verify_triple(ctx, W, tg, b2, S)
                    if inner is None:
                        return None
                    key, data, sig = inner
                    key = W.bind_params(key, tg, args)
                    sig = W.bind_params(sig, tg, args)
                    data = [W.bind_params(d, tg, args) for d in data]
                    return (key, data, sig)
    return None


def expand_data(W, data, depth=0):
    """Flatten buffer objects inside a data sequence into their append history; a buffer built by a crate-local helper
    function is expanded through the helper's return value with its parameters bound."""
    out = []
    for d in data:
        if isinstance(d, tuple) and d and d[0] == "each":
            arr = W.expand(d[1])
            while isinstance(arr, tuple) and arr and arr[0] == "reader":
                arr = arr[1]
            if isinstance(arr, tuple) and arr and arr[0] == "obj":
                ini = W.obj_init(arr)
                arr = ini if ini is not None else arr
            if isinstance(arr, tuple) and arr and arr[0] == "agg" and arr[1] == "array":
                inner = expand_data(W, list(arr[2]), depth + 1)
                if inner is None:
                    return None
                out.extend(inner)
            else:
                out.append(d)
        elif isinstance(d, tuple) and d and d[0] == "obj":
            seq = W.buffer_seq(d)
            if seq is None:
                return None
            if seq and is_call(seq[0]) and callee_name(seq[0][1]) in ("new", "with_capacity") and "vec::Vec" in seq[0][1]:
                seq = seq[1:]      # starts empty
            out.extend(seq)
        elif is_call(d) and callee_name(d[1]) == "concat" and len(d[2]) == 1 and isinstance(d[2][0], tuple) and d[2][0][0] == "agg" and d[2][0][1] == "array":
            # [a, b].concat() is a followed by b
            inner = expand_data(W, list(d[2][0][2]), depth + 1)
            if inner is None:
                return None
            out.extend(inner)
        elif is_call(d) and d[1] in W.prog.fns and depth < 3:
            r = W.ev(d[1]).ret()
            inner = expand_data(W, [r], depth + 1)
            if inner is None:
                return None
            out.extend(W.bind_params(x, d[1], list(d[2])) for x in inner)
        else:
            out.append(d)
    return out


def run(ctx):
    W = World(ctx)
    P = ctx.prog
    sp = spec()

    # ------------------------------------------------------------------ (5) predicate integrity
    vf = ctx.fn(MSGVERIFY)
    ev = W.ev(MSGVERIFY)
    from lib import ret_as_predicate
    r = ret_as_predicate(W, MSGVERIFY)
    ok = False
    detail = "return term: " + values.fmt(r)
    if is_call(r, "Result::is_ok") and len(r[2]) == 1 and is_call(r[2][0]):
        inner = r[2][0]
        p = strip_generics(inner[1])
        if "VerifyingKey" in p and p.endswith("::verify") and len(inner[2]) == 3:
            key, data, sig = inner[2]
            sig_src = values.strip_payload(sig)
            okk = key == ("field", ("param", MSGVERIFY, 1), "pubkey")
            okd = data == ("field", ("param", MSGVERIFY, 1), "buf")
            # the 64 signature bytes given to verify(): Signature::from_slice(sig) or Signature::from_bytes(<&[u8; 64]>::try_from(sig))
            sig_in = sig_src
            for _ in range(3):
                if is_call(sig_in) and callee_name(sig_in[1]) in ("from_slice", "from_bytes", "try_from", "try_into", "from", "into") and sig_in[2]:
                    sig_in = values.strip_payload(sig_in[2][0])
            # (VerifyingKey::verify takes a &Signature: whatever conversion is used, the only input to it must be the caller's signature bytes;
            #  `Signature::try_from(sig)` is a value-preserving conversion and leaves the parameter itself as the term)
            oks = sig_in == ("param", MSGVERIFY, 2) and (sig_src == sig_in or (is_call(sig_src) and "Signature" in sig_src[1]))
            ok = okk and okd and oks
            detail = "verify = is_ok(VerifyingKey::verify(key=%s, msg=%s, sig=%s))" % (values.fmt(key), values.fmt(data), values.fmt(sig_src))
    ctx.check("predicate-integrity", "sign::MsgVerifier::verify/returns-dalek-result", ok, detail,
              "MsgVerifier::verify does not return exactly is_ok(VerifyingKey::verify(self.pubkey, self.buf, sig)): " + detail,
              ctx.loc(vf))
    # writers of MsgVerifier.buf / pubkey
    UPD = "roughenough::sign::MsgVerifier::update"
    uf = ctx.fn(UPD)
    uev = W.ev(UPD)
    evs = uev.events_on(1)
    # reads (`self.buf.len()` in a log line) and capacity management leave the content alone
    evs = [e for e in evs if uf.blocks[e[0]].term["arg_tys"][e[2]].startswith("&mut") and callee_name(e[1]) not in ("reserve", "reserve_exact", "shrink_to_fit")]
    okupd = len(evs) == 1 and callee_name(evs[0][1]) in ("extend_from_slice", "extend") and evs[0][3][1] == ("buf",) \
        and uev.call_args(evs[0][0])[1] == ("param", UPD, 2) and not uf.in_loop(evs[0][0])
    ctx.check("predicate-integrity", "sign::MsgVerifier::update/appends-param", okupd,
              "update appends exactly its parameter to buf", "MsgVerifier::update does more than append its parameter once: %s" % evs,
              ctx.loc(uf))
    writers = set()
    for fn in P.fns.values():
        for bl in fn.blocks:
            for st in bl.stmts:
                if st["k"] == "assign" and st["dst"].get("p"):
                    for e in st["dst"]["p"]:
                        if isinstance(e, dict) and e.get("adt") == "roughenough::sign::MsgVerifier":
                            writers.add(fn.path)
        e2 = W.ev(fn.path) if fn.impl_self == "roughenough::sign::MsgVerifier" and not fn.derived else None
        if e2 is not None:
            for (b, callee, argi, ap) in e2.events_on(1):
                if fn.blocks[b].term["arg_tys"][argi].startswith("&mut"):
                    writers.add(fn.path)
    allowed = {UPD, "roughenough::sign::MsgVerifier::new"}
    ctx.check("predicate-integrity", "sign::MsgVerifier/who-writes", writers <= allowed,
              "MsgVerifier state written only by %s" % sorted(writers), "unexpected writer of MsgVerifier state: %s" % sorted(writers - allowed))

    # ------------------------------------------------------------------ (1) checked results
    S = predicate_closure(ctx, W)
    ctx.extra["predicates"] = sorted(S)
    consumers = []  # (fnpath, bb) enforced call sites outside S
    nsites = 0
    for fn in P.fns.values():
        if fn.path in S and fn.path != MSGVERIFY:
            pass
        e = None
        for bb, t in fn.calls():
            tg = [x for x in P.call_targets(t) if x in S]
            if not tg:
                continue
            e = e or W.ev(fn.path)
            nsites += 1
            if any(x in RES_PRED for x in tg):
                verdict, info = enforced_result(fn, e, bb)
            else:
                verdict, info = enforced(fn, e, bb)
                if verdict == "unchecked" and RES_PRED.get(fn.path) == bb:
                    verdict, info = "returned", None     # this function reports the predicate as Ok / Err: its callers are checked in turn
            key = "%s/pred(%s)" % (fn.path, callee_name(tg[0]))
            if verdict == "returned":
                ctx.ok("checked-result", key, "result returned to the caller (caller is checked in turn)", fn.loc(bb))
                if fn.path not in S:
                    ctx.violation("checked-result", key + "/escapes", "verification result escapes through a non-predicate return", fn.loc(bb))
            elif verdict == "diverge":
                ctx.ok("checked-result", key, "result branched on; false edge diverges (%s)" % ",".join(fn.loc(b) for b in info), fn.loc(bb))
                consumers.append((fn.path, bb))
            else:
                ctx.violation("checked-result", key, "signature verification result is not enforced: " + info, fn.loc(bb))
                consumers.append((fn.path, bb))
    ctx.floor("checked-result", len(consumers), 2, "enforced verification sites (the DELE and the SREP signature; wrappers that only hand the result on are not counted)")

    # ------------------------------------------------------------------ (2) operands of the two verifications
    ctors = W.ctor_fields(HANDLER)
    if len(ctors) != 1:
        raise AnchorMissing("exactly one construction of ResponseHandler (found %d)" % len(ctors))
    cfn, cbb, cidx, fields = ctors[0]
    NEW = cfn.path
    resp_root = None
    triples = {}
    for (fp, bb) in consumers:
        if not fp.startswith(CLIENT):
            continue
        tr = verify_triple(ctx, W, fp, bb, S)
        if tr is None:
            ctx.violation("verify-operands", fp + "/unresolved", "cannot resolve the operands of the verification", P.fns[fp].loc(bb))
            continue
        key, data, sig = tr
        data = expand_data(W, data)
        if data is None:
            ctx.violation("verify-operands", fp + "/data-not-sequence", "signed-data buffer is not a plain append sequence", P.fns[fp].loc(bb))
            continue
        selft = ("param", fp, 1)
        key = W.subst_fields(key, selft, fields)
        sig = W.subst_fields(sig, selft, fields)
        data = [W.subst_fields(d, selft, fields) for d in data]
        # operands handed in as parameters are followed to the (single) caller
        bound = bind_up(ctx, W, P.fns[fp], [key, sig] + data, fields)
        key, sig, data = bound[0], bound[1], bound[2:]
        triples[fp] = (key, data, sig, bb)
    ctx.floor("verify-operands", len(triples), 2, "enforced verification events in the client")

    def tp(t):
        r = tagpath(W, t)
        return r

    roles = {}
    for fp, (key, data, sig, bb) in triples.items():
        fn = P.fns[fp]
        ks, ss = tp(key), tp(sig)
        ds = [tp(d) for d in data]
        sigp = ss[1] if ss else None
        role = None
        if sigp == ("CERT", "SIG"):
            role = "DELE"
        elif sigp == ("SIG",):
            role = "SREP"
        desc = "key=%s%s sig=%s data=[%s]" % (values.fmt(ks[0]) if ks else "?", list(ks[1]) if ks else "", list(sigp) if sigp else "?",
                                               "; ".join(values.fmt(d) for d in data))
        if role is None:
            ctx.violation("verify-operands", fp + "/signature-source", "signature operand is neither SIG nor CERT.SIG of the response: " + desc, fn.loc(bb))
            continue
        roles[role] = fp
        root = ss[0]
        resp_root = root
        exp_key = () if role == "DELE" else ("CERT", "DELE", "PUBK")
        exp_payload = ("CERT", "DELE") if role == "DELE" else ("SREP",)
        okkey = ks is not None and ks[1] == exp_key and (
            (role == "DELE" and values.strip_payload(ks[0]) == ("param", NEW, 2)) or (role == "SREP" and ks[0] == root))
        ctx.check("verify-operands", "%s/key" % role, okkey,
                  "%s verified under %s" % (role, "the pinned key" if role == "DELE" else "CERT.DELE.PUBK of the same response"),
                  "%s is verified under the wrong key: %s" % (role, desc), fn.loc(bb))
        okdata = len(data) == 2 and ds[1] is not None and ds[1][1] == exp_payload and ds[1][0] == root
        ctx.check("verify-operands", "%s/payload" % role, okdata,
                  "signed bytes are ctx || %s" % ".".join(exp_payload),
                  "%s signed bytes are not context || %s of the response: %s" % (role, ".".join(exp_payload), desc), fn.loc(bb))
        # context string per version
        if len(data) >= 1:
            ctxterm = data[0]
            for v in VERSIONS:
                vt = ("enum", VERSION, v)
                bound = W.subst(ctxterm, {("param", NEW, 1): vt})
                e0 = W.ev(fp)
                val = e0.resolve(bound)
                want = sp["versions"][v]["dele_ctx" if role == "DELE" else "srep_ctx"].encode("latin-1")
                okc = val == ("bytes", want)
                ctx.check("verify-operands", "%s/context/%s" % (role, v), okc,
                          "context = %r" % want, "%s context for %s is %s, spec says %r" % (role, v, values.fmt(val), want), fn.loc(bb))
    for role in ("DELE", "SREP"):
        if role not in roles:
            ctx.violation("verify-operands", role + "/missing", "no enforced verification of %s found in the client" % role)

    # ------------------------------------------------------------------ (3) merkle / midpoint comparisons
    checks = enforced_comparisons(ctx, W, fields, NEW)
    need = ["merkle", "mint<=midp", "midp<=maxt"]
    for n in need:
        if n not in checks:
            ctx.violation("window-and-inclusion", n + "/missing", "no enforced %s comparison found in the client" % n)
    # which functions always perform which checks
    performs = always_performs(ctx, W, {n: [(f, b) for (f, b, _) in v] for n, v in checks.items()})
    vnames = {"DELE": "sig:DELE", "SREP": "sig:SREP"}
    vsites = {}
    for role, fp in roles.items():
        vsites["sig:" + role] = [(fp, triples[fp][3])]
    performs_sig = always_performs(ctx, W, vsites)

    # leaf operand of the merkle check
    for (fp, bb, info) in checks.get("merkle", []):
        fn = P.fns[fp]
        leaf, idx, path = info
        lp = tagpath(W, idx)
        okidx = lp is not None and lp[1] == ("INDX",) and lp[0] == resp_root
        pp = tagpath(W, path)
        okpath = pp is not None and pp[1] == ("PATH",) and pp[0] == resp_root
        ctx.check("window-and-inclusion", "merkle/index-and-path", okidx and okpath, "index = INDX, path = PATH of the response",
                  "Merkle check does not use INDX/PATH of the response: idx=%s path=%s" % (values.fmt(idx), values.fmt(path)), fn.loc(bb))
        from_resp = values.contains(leaf, lambda s: s == ("param", NEW, 3))
        ctx.check("own-nonce", "merkle-leaf/not-from-response", not from_resp, "leaf operand does not derive from the response",
                  "Merkle leaf operand derives from the response itself: " + values.fmt(leaf), fn.loc(bb))
        check_leaf_origin(ctx, W, leaf, NEW, fn.loc(bb))

    # ------------------------------------------------------------------ verified flag and printing
    main = ctx.fn("roughenough_client::main")
    mev = W.ev(main.path)
    # the call that yields the ParsedResponse
    PARSED = "roughenough_client::ParsedResponse"
    pcs = [c_ for c_ in W.ctor_fields(PARSED) if not getattr(c_[0], "derived", False)]      # (a derived Clone builds one too)
    if len(pcs) != 1:
        raise AnchorMissing("exactly one construction of ParsedResponse")
    pfn, pbb, pidx, pfields = pcs[0]
    vterm = pfields.get("verified")
    flag_enum, yes_variant = flag_enum_info(ctx, W, PARSED)
    # blocks in pfn that define `verified` as true
    pev = W.ev(pfn.path)
    true_blocks = []
    st = pfn.blocks[pbb].stmts[pidx]
    vop = st["rv"]["ops"][st["rv"]["fields"].index("verified")]
    vpl = vop.get("cp") or vop.get("mv")
    srcs = set()
    if vpl is not None:
        # follow copies back to the user variable
        seen = set()
        work = [vpl["l"]]
        while work:
            l = work.pop()
            if l in seen:
                continue
            seen.add(l)
            for (b, i, kind) in pfn.defs().get(l, []):
                if kind != "whole" or i == "term":
                    continue
                rv = pfn.blocks[b].stmts[i]["rv"]
                if rv["k"] == "use" and "c" in rv["op"]:
                    if values.const_term(rv["op"]["c"]) == ("int", 1):
                        true_blocks.append(b)
                elif rv["k"] == "agg" and rv.get("ak") == "adt" and not rv.get("ops") and rv.get("adt") == flag_enum:
                    # a two-valued enum instead of a bool: the variant that prints as "Yes" plays the part of `true`
                    if rv.get("variant") == yes_variant:
                        true_blocks.append(b)
                elif rv["k"] == "use":
                    p2 = rv["op"].get("cp") or rv["op"].get("mv")
                    if p2 and not p2.get("p"):
                        work.append(p2["l"])
                    else:
                        srcs.add("nonconst")
                else:
                    srcs.add("nonconst")
    # second form: `let verified = self.pub_key.is_some(); if verified { validate_dele(); validate_srep(); }` - the flag IS the key test, and the
    # validations run on every path on which it is true
    vexp = W.expand(vterm) if vterm is not None else None
    pred_form = (not true_blocks and is_call(vexp) and callee_name(vexp[1]) == "is_some" and vexp[2] and
                 W.expand(vexp[2][0]) == ("field", ("param", pfn.path, 1), "pub_key") and pfn.locals[1]["ty"].startswith("&") and not pfn.locals[1]["ty"].startswith("&mut"))
    if pred_form:
        false_edges = set()
        for bl in pfn.blocks:
            tt = bl.term
            if tt["k"] == "switch" and bl.idx in pfn.reachable() and W.expand(pev.op(tt["op"], (bl.idx, "term"))) == vexp:
                for cval, tgt in tt["cases"]:
                    if cval == 0:
                        false_edges.add((bl.idx, tgt))
        dom_calls = {}
        for bb, t in pfn.calls():
            for tg in P.call_targets(t):
                for n in performs_sig.get(tg, ()):
                    # every path entry -> construction that does not take a `verified == false` edge passes this call
                    seen_b, work_b, through = {0}, [0], True
                    while work_b:
                        x = work_b.pop()
                        if x == pbb:
                            through = False
                            break
                        if x == bb:
                            continue
                        for y in pfn.succ(x):
                            if (x, y) not in false_edges and y not in seen_b:
                                seen_b.add(y)
                                work_b.append(y)
                    if through:
                        dom_calls[n] = tg
        ctx.check("verified-flag", "assignment/is-the-key-test", bool(false_edges), "verified = self.pub_key.is_some(), branched on before the result is built",
                  "verified = pub_key.is_some() is never branched on", ctx.loc(pfn))
        for n in ("sig:DELE", "sig:SREP"):
            ctx.check("verified-flag", "true-dominated-by/" + n, n in dom_calls,
                      "every path on which `verified` is true passes a call that always enforces %s (%s)" % (n, dom_calls.get(n)),
                      "`verified` can be true on a path without an enforced %s verification" % n, ctx.loc(pfn))
        ctx.ok("verified-flag", "true-only-with-key", "`verified` is pub_key.is_some() itself", ctx.loc(pfn))
    else:
      ctx.check("verified-flag", "assignment/constant-true-sites", bool(true_blocks) and not srcs,
              "verified is set from constants; true at %s" % ",".join(pfn.loc(b) for b in true_blocks),
              "cannot identify where `verified` becomes true (%s)" % (srcs or "no constant true"), ctx.loc(pfn))
    for b in true_blocks:
        dom_calls = {}
        for bb, t in pfn.calls():
            if pfn.dominates(bb, b) and bb != b:
                for tg in P.call_targets(t):
                    for n in performs_sig.get(tg, ()):  # checks always performed by the callee
                        dom_calls[n] = tg
        for n in ("sig:DELE", "sig:SREP"):
            ctx.check("verified-flag", "true-dominated-by/" + n, n in dom_calls,
                      "`verified = true` is dominated by a call that always enforces %s (%s)" % (n, dom_calls.get(n)),
                      "`verified = true` at %s is reachable without an enforced %s verification" % (pfn.loc(b), n), pfn.loc(b))
        # and under pub_key.is_some()
        IN = flow.must_facts(pfn, pev)
        rels = flow.rel_facts_at(IN, b)
        from lib import fact_is_present
        has = fact_is_present(rels, lambda x: x == ("field", ("param", pfn.path, 1), "pub_key"))
        ctx.check("verified-flag", "true-only-with-key", has, "`verified = true` only under pub_key.is_some()",
                  "`verified = true` is not guarded by pub_key.is_some()", pfn.loc(b))

    # printing blocks in main
    ext_calls = [bb for bb, t in main.calls() if pfn.path in P.call_targets(t)]
    if len(ext_calls) != 1:
        raise AnchorMissing("one call of %s in main" % pfn.path)
    xb = ext_calls[0]
    perf_all = set(performs.get(pfn.path, ()))
    for n in need:
        ctx.check("window-and-inclusion", n + "/on-every-path", n in perf_all,
                  "%s always enforces %s before returning" % (callee_name(pfn.path), n),
                  "%s can return without an enforced %s check" % (pfn.path, n), ctx.loc(pfn))
    nprint = 0
    for bb, t in main.calls():
        p = strip_generics(t["fn"].get("path", ""))
        if p.endswith("stdio::_print"):
            after = main.reaches(xb, bb) or bb == xb
            recv = [b for b, tt in main.calls() if strip_generics(tt["fn"].get("path", "")).endswith("UdpSocket::recv_from")]
            if not any(main.reaches(r, bb) for r in recv):
                continue  # printed before anything was received
            nprint += 1
            ctx.check("print-after-checks", "main/print@%s" % ("json" if "midpoint" in str(mev.call_args(bb)) else "plain"),
                      main.dominates(xb, bb) and xb != bb,
                      "stdout print is dominated by the validating call", "time printed on a path that bypasses %s" % pfn.path, main.loc(bb))
    ctx.floor("print-after-checks", nprint, 2, "stdout prints after the receive")
    # "Yes" only on verified
    yes_blocks = []
    for bl in main.blocks:
        for i, s in enumerate(bl.stmts):
            if s["k"] == "assign" and s["rv"]["k"] == "use" and "c" in s["rv"]["op"] and s["rv"]["op"]["c"].get("str") == "Yes":
                yes_blocks.append(bl.idx)
    IN = flow.must_facts(main, mev)
    for b in yes_blocks:
        rels = flow.rel_facts_at(IN, b)
        okv = False
        for r in rels:
            if r[0] == "True":
                t0 = values.strip_payload(r[1])
                if isinstance(t0, tuple) and t0[0] == "field" and t0[2] == "verified":
                    okv = True
            if flag_enum and r[0] == "Eq" and isinstance(r[1], tuple) and r[1][0] == "discr" and r[2] == ("int", yes_variant):
                t0 = values.strip_payload(r[1][1])
                if isinstance(t0, tuple) and t0[0] == "field" and t0[2] == "verified":
                    okv = True
        ctx.check("verified-flag", "yes-string-only-if-verified", okv, '"Yes" chosen only on the true edge of the verified flag',
                  '"Yes" is selected without testing the verified flag', main.loc(b))
    ctx.floor("verified-flag", len(yes_blocks), 1, '"Yes" string sites')

    # pinned key comes from the --public-key argument
    nb = [bb for bb, t in main.calls() if NEW in P.call_targets(t)]
    if len(nb) != 1:
        raise AnchorMissing("one call of ResponseHandler::new in main")
    nargs = mev.call_args(nb[0])
    keyt = nargs[1]
    has_arg = values.contains(keyt, lambda s: s == ("str", "public-key"))
    ctx.check("verify-operands", "pinned-key/from-cli-argument", has_arg, "pinned key derives from the `public-key` argument",
              "pinned key does not derive from the --public-key argument: " + values.fmt(keyt), main.loc(nb[0]))
    # response root: parsed from the received buffer
    respt = nargs[2]
    okresp = values.contains(respt, lambda s: is_call(s) and callee_name(s[1]) == "receive_response")
    ctx.check("verify-operands", "response/from-receive", okresp, "validated message is the received datagram",
              "ResponseHandler is not given the received response: " + values.fmt(respt), main.loc(nb[0]))


def bind_up(ctx, W, fn, terms, fields, depth=0):
    """Replace parameters (other than self) of a method that has a single caller by the caller's arguments, transitively."""
    P = ctx.prog
    if depth > 3:
        return terms
    if not any(isinstance(s, tuple) and s and s[0] == "param" and s[1] == fn.path and s[2] > 1 for t in terms for s in values.subterms(t)):
        return terms
    callers = P.callers(fn.path)
    if len(callers) != 1:
        return terms
    cp, cbb = callers[0]
    cev = W.ev(cp)
    args = [W.expand(x) for x in cev.call_args(cbb)]
    terms = [W.bind_params(t, fn.path, args) for t in terms]
    cfn = P.fns[cp]
    if cfn.impl_self == HANDLER:
        terms = [W.subst_fields(t, ("param", cp, 1), fields) for t in terms]
    return bind_up(ctx, W, cfn, terms, fields, depth + 1)


def bind_from_callers(ctx, W, fn, a, b, fields):
    """If terms mention parameters of a helper method with a single caller, bind them to the caller's arguments."""
    P = ctx.prog
    params = [s for s in list(values.subterms(a)) + list(values.subterms(b)) if isinstance(s, tuple) and s and s[0] == "param" and s[1] == fn.path and s[2] > 1]
    if not params:
        return a, b
    callers = P.callers(fn.path)
    if len(callers) != 1:
        return a, b
    cp, cbb = callers[0]
    cev = W.ev(cp)
    args = [W.expand(x) for x in cev.call_args(cbb)]
    a = W.bind_params(a, fn.path, args)
    b = W.bind_params(b, fn.path, args)
    cfn = P.fns[cp]
    if cfn.impl_self == HANDLER:
        a = W.subst_fields(a, ("param", cp, 1), fields)
        b = W.subst_fields(b, ("param", cp, 1), fields)
    return a, b


def enforced_comparisons(ctx, W, fields=None, NEW=None):
    """Comparisons the client enforces (the other edge diverges): name -> [(fn path, block, info)].  Names: 'merkle', 'mint<=midp', 'midp<=maxt';
    for the two window comparisons info is 'strict' when the code demands `<` where the protocol says `<=` (stricter: still safe, but refuses honest replies)."""
    P = ctx.prog
    if fields is None:
        ctors = W.ctor_fields(HANDLER)
        if len(ctors) != 1:
            raise AnchorMissing("exactly one construction of ResponseHandler (found %d)" % len(ctors))
        cfn, cbb, cidx, fields = ctors[0]
        NEW = cfn.path
    checks = {}  # name -> list of (fnpath, bb)
    for fn in P.fns.values():
        if not fn.path.startswith(CLIENT):
            continue
        e = W.ev(fn.path)
        div = fn.diverging()
        selft = ("param", fn.path, 1)
        for bl in fn.blocks:
            if bl.idx not in fn.reachable():
                continue
            t = bl.term
            if t["k"] != "switch":
                continue
            cond = e.op(t["op"], (bl.idx, "term"))
            for succ in fn.succ(bl.idx):
                if succ in div:
                    continue
                # facts on the surviving edge(s)
                efs = flow.edge_facts(fn, e).get((bl.idx, succ), ())
                others_diverge = all(s in div for s in fn.succ(bl.idx) if s != succ)
                if not others_diverge:
                    continue
                for f in efs:
                    for rel in flow.relational(f):
                        op, a, b = rel
                        if op == "True" and is_call(a) and callee_name(a[1]) == "contains" and len(a[2]) == 2:
                            # (lo..hi).contains(&x) / (lo..=hi).contains(&x)
                            rng = W.expand(a[2][0])
                            while isinstance(rng, tuple) and rng and rng[0] == "reader":
                                rng = rng[1]
                            if isinstance(rng, tuple) and rng and rng[0] == "agg" and "Range" in str(rng[1]) and len(rng[2]) == 2:
                                incl = "RangeInclusive" in str(rng[1])
                                for (op2, x, y) in (("Le", rng[2][0], a[2][1]), ("Le" if incl else "Lt", a[2][1], rng[2][1])):
                                    x2, y2 = W.expand(x), W.expand(y)
                                    x2 = W.subst_fields(x2, selft, fields) if fn.impl_self == HANDLER else x2
                                    y2 = W.subst_fields(y2, selft, fields) if fn.impl_self == HANDLER else y2
                                    x2, y2 = bind_from_callers(ctx, W, fn, x2, y2, fields)
                                    name = classify(W, op2, x2, y2, NEW)
                                    if name:
                                        checks.setdefault(name[0], []).append((fn.path, bl.idx, name[1]))
                            continue
                        if op not in ("Eq", "Le", "Lt"):
                            continue
                        a, b = W.expand(a), W.expand(b)
                        a2 = W.subst_fields(a, selft, fields) if fn.impl_self == HANDLER else a
                        b2 = W.subst_fields(b, selft, fields) if fn.impl_self == HANDLER else b
                        # parameters of helper methods: bind from unique caller
                        a2, b2 = bind_from_callers(ctx, W, fn, a2, b2, fields)
                        name = classify(W, op, a2, b2, NEW)
                        if name:
                            checks.setdefault(name[0], []).append((fn.path, bl.idx, name[1]))
    return checks


def classify(W, op, a, b, NEW):
    ta, tb = tagpath(W, a), tagpath(W, b)
    if op == "Eq":
        for x, y, ty in ((a, b, tb), (b, a, ta)):
            if is_call(x, "MerkleTree::root_from_paths") and ty is not None and ty[1] == ("SREP", "ROOT"):
                args = x[2]
                return ("merkle", (args[2], args[1], args[3]))
        return None
    if ta is None or tb is None:
        return None
    if op in ("Le", "Lt"):
        strict = "strict" if op == "Lt" else None
        if ta[1] == ("CERT", "DELE", "MINT") and tb[1] == ("SREP", "MIDP") and ta[0] == tb[0]:
            return ("mint<=midp", strict)
        if ta[1] == ("SREP", "MIDP") and tb[1] == ("CERT", "DELE", "MAXT") and ta[0] == tb[0]:
            return ("midp<=maxt", strict)
    return None


def always_performs(ctx, W, sites):
    """fnpath -> set of check names performed on every normal-return path (directly or via calls that dominate every
    exit)."""
    P = ctx.prog
    perf = {}
    for name, lst in sites.items():
        for (fp, bb) in lst:
            fn = P.fns[fp]
            exits = fn.exits()
            if all(fn.dominates(bb, e) for e in exits) and not fn.in_loop(bb) or all(fn.dominates(bb, e) for e in exits):
                perf.setdefault(fp, set()).add(name)
    changed = True
    while changed:
        changed = False
        for fn in P.fns.values():
            exits = fn.exits()
            for bb, t in fn.calls():
                for tg in P.call_targets(t):
                    if tg in perf and all(fn.dominates(bb, e) and bb != e or fn.dominates(bb, e) for e in exits):
                        cur = perf.setdefault(fn.path, set())
                        new = perf[tg] - cur
                        if new:
                            cur |= new
                            changed = True
    return perf


def check_leaf_origin(ctx, W, leaf, NEW, loc):
    """The Merkle leaf must be the client's own nonce/request: created by create_nonce() in the per-request loop."""
    P = ctx.prog
    main = ctx.fn("roughenough_client::main")
    mev = W.ev(main.path)
    nb = [bb for bb, t in main.calls() if NEW in P.call_targets(t)][0]
    nargs = [W.expand(x) for x in mev.call_args(nb)]
    # alternatives of the leaf (phi over versions)
    alts = leaf[1] if leaf[0] == "phi" else (leaf,)
    CN = "roughenough_client::create_nonce"
    MR = "roughenough_client::make_request"
    cn_sites = [bb for bb, t in main.calls() if CN in P.call_targets(t)]
    mr_sites = [bb for bb, t in main.calls() if MR in P.call_targets(t)]
    ctx.check("own-nonce", "create-nonce/in-request-loop", bool(cn_sites) and all(main.in_loop(b) for b in cn_sites),
              "create_nonce() is called inside the per-request loop", "create_nonce() is not called per request (hoisted out of the loop)",
              main.loc(cn_sites[0]) if cn_sites else None)
    for mb in mr_sites:
        margs = mev.call_args(mb)
        okn = any(main.dominates(cb, mb) and margs[1] == mev.call_term(cb) and
                  set(id(l) for l in main.in_loop(cb)) == set(id(l) for l in main.in_loop(mb)) for cb in cn_sites)
        ctx.check("own-nonce", "make-request/uses-this-iterations-nonce", okn, "make_request receives the nonce created in the same iteration",
                  "make_request does not use the nonce created in the same loop iteration: " + values.fmt(margs[1]), main.loc(mb))
    # the requests container: elements pushed
    pushed = []
    for bb, t in main.calls():
        if callee_name(t["fn"].get("path", "")) == "push":
            a = mev.call_args(bb)
            # a tuple, or a small record with named fields (`PendingRequest { nonce, request, socket }`)
            if len(a) == 2 and a[1][0] == "agg" and (a[1][1] == "tuple" or str(a[1][1]).rsplit("::", 1)[0] in P.adts or a[1][1] in P.adts):
                pushed.append((bb, a[0], a[1]))
    okp = False
    for (bb, cont, tup) in pushed:
        elems = tup[2]
        if any(is_call(e, "create_nonce") for e in elems):
            okp = True
            cont_obj = cont
            nonce_pos = [i for i, e in enumerate(elems) if is_call(e, "create_nonce")][0]
            req_pos = [i for i, e in enumerate(elems) if is_call(e, "make_request")]
    ctx.check("own-nonce", "requests/queued-with-own-nonce", okp, "each queued request carries the nonce it was built from",
              "no container of (nonce, request, socket) tuples found", None)
    if not okp:
        return
    # leaf alternatives must be fields of NEW's params that main binds to elements of that container
    for alt in alts:
        a = alt
        roots = [s for s in values.subterms(a) if isinstance(s, tuple) and s and s[0] == "param" and s[1] == NEW]
        good = bool(roots)
        for r in roots:
            arg = nargs[r[2] - 1]
            # arg must be a projection of an element of the container
            src_ok = values.contains(arg, lambda s: s == cont_obj) or arg == cont_obj
            if not src_ok:
                good = False
        ctx.check("own-nonce", "merkle-leaf/is-own-%s" % ("request" if "request" in values.fmt(a) else "nonce"), good,
                  "leaf operand is an element of the client's own request queue",
                  "Merkle leaf operand is not the client's own nonce/request: " + values.fmt(a), loc)
    # create_nonce: bytes from SecureRandom::fill, result checked
    cn = ctx.fn(CN)
    cev = W.ev(CN)
    r = cev.ret()
    alts = r[1] if r[0] == "phi" else (r,)
    good = True
    why = ""
    for a in alts:
        if a[0] != "obj":
            good = False
            why = "returns " + values.fmt(a)
            continue
        evs = W.obj_events(a)
        fills = [e for e in evs if strip_generics(e[1]).endswith("::fill") and "rand" in e[1]]
        if len(fills) != 1:
            good = False
            why = "buffer not filled by SecureRandom::fill exactly once"
            continue
        fb = fills[0][0]
        # the fill result must be unwrapped / checked: its term is consumed by unwrap (transparent) => look at callee of next block
        nxt = cn.blocks[fb].term["tgt"]
        t2 = cn.blocks[nxt].term if nxt is not None else None
        chk = t2 is not None and t2["k"] == "call" and callee_name(t2["fn"].get("path", "")) in ("unwrap", "expect")
        if not chk:
            v, info = ("unchecked", "")
            good = False
            why = "result of fill() is not checked"
    ctx.check("own-nonce", "create-nonce/random-and-checked", good, "nonce bytes are the out-parameter of SecureRandom::fill, result unwrapped",
              "create_nonce does not return checked fresh random bytes: " + why, ctx.loc(cn))


def fixture(fctx):
    import fixture_checks
    return fixture_checks.diverge_alive(fctx)
